# C19 follow-up: sequence headers that carry SEVERAL parameter sets (AVCDecoderConfigurationRecord: up to 31 SPS and
# 255 PPS; HEVCDecoderConfigurationRecord: several arrays, several NAL units per array, array_completeness / reserved
# bits) through every converter of lal that takes a sequence header.
from lib.vf import Case
from gen.common import *
from gen.c19_h26x import ref_parse_avcc_record, ref_parse_hvcc_record
from gen.c19_ps import avc_header_ref, hevc_header_ref, tokb

AVC_OPS = ["c19.avc_2annexb", "c19.avc_parse", "c19.avc_parse_list", "c19.avc_hdr_sdp", "c19.capture_avcc"]
HEVC_OPS = ["c19.hevc_parse", "c19.hevc_2annexb", "c19.hevc_hdr_sdp", "c19.hevc_parse_enh"]
OPS = {"c19.avc_parse_list", "c19.avc_hdr_sdp", "c19.hevc_hdr_sdp"}
RULE = ("sequence headers with s SPS x p PPS (s 1..4, p 0..16, plus 31 SPS / 32, 33, 255 PPS; sets of 0..64 bytes) from an "
        "independent ISO 14496-15 writer through SpsPpsSeqHeader2Annexb, CaptureAvcc2Annexb, ParseSpsPpsFromSeqHeader, "
        "ParseSpsPpsListFromSeqHeader and the Rtmp2RtspRemuxer -> sdp path; HEVC records with 1..3 VPS / SPS, 0..4 PPS, extra "
        "arrays, permuted arrays and array_completeness / reserved bits through the four HEVC converters; "
        "oracle: every set of the record, in order and byte for byte, or an error - never a silent loss")
ASSUMPTIONS = ["for a sequence header with several SPS or PPS the SDP announces the first of each (documented in rtmp2rtsp.go); "
               "the other sets have to come in band",
               "lal's HEVC converters take exactly one VPS, one SPS and one PPS (first three arrays, in this order); any other record must be refused, not truncated"]


_SHARED = set(AVC_OPS + HEVC_OPS)


def claims(line):
    """c19.capture_avcc / avc_parse / avc_2annexb / hevc_* belong to other parts; this part answers for them when the input
    is a well-formed configuration record (its oracle is the stronger one there)"""
    f = line.split(" ")
    if f[0] in OPS:
        return True
    if f[0] not in _SHARED:
        return False
    try:
        p = tok_bytes(f[1])
        if f[0] in AVC_OPS:
            if p[:5] != b"\x17\0\0\0\0":
                return False
            ref_parse_avcc_record(p[5:])
        else:
            if p[1:5] != b"\0\0\0\0" or (b"\0\0\1" in p[6:]):
                return False
            ref_parse_hvcc_record(p[5:])
        return True
    except (ValueError, IndexError):
        return False


def pset(rng, first, n, zero_free=False):
    """a parameter set of n bytes: NAL header byte, then arbitrary bytes (zero_free: no byte 0, so no start code inside)"""
    if n == 0:
        return b""
    lo = 1 if zero_free else 0
    return bytes([first]) + bytes(rng.randrange(lo, 256) for _ in range(n - 1))


def size_plan(rng, kind, k):
    if kind == "min":
        return [1] * k
    if kind == "max":
        return [64] * k
    if kind == "small":
        return [rng.randrange(1, 9) for _ in range(k)]
    return [rng.choice([1, 2, 3, 4, 5, 8, 13, 21, 33, 47, 63, 64, rng.randrange(1, 65)]) for _ in range(k)]


def avc_cases(rng, s, p, kind, cls, ops=AVC_OPS):
    spss = [pset(rng, 0x67, n) for n in size_plan(rng, kind, s)]
    ppss = [pset(rng, 0x68, n) for n in size_plan(rng, kind, p)]
    h = avc_header_ref(spss, ppss, profile=rng.choice([66, 77, 100]), level=rng.choice([30, 31, 40]))
    for op in ops:
        yield Case("%s %s" % (op, tokb(h)), cls=cls)


def hevc_cases(rng, arrays, cls, na=None, ops=HEVC_OPS):
    h = hevc_header_ref(arrays, na=na)
    for op in ops:
        if op == "c19.hevc_parse_enh":
            yield Case("%s %s" % (op, tokb(bytes([h[0] & 0xf0]) + h[1:])), cls=cls)
        else:
            yield Case("%s %s" % (op, tokb(h)), cls=cls)


def gen_cases(tier, rng):
    q = tier == "quick"
    # ---- AVC: the count grid
    for s in range(1, 5) if q else list(range(1, 9)) + [15, 16, 30, 31]:
        for p in range(0, 17) if q else list(range(0, 34)) + [63, 64, 127, 128, 254, 255]:
            yield from avc_cases(rng, s, p, "rand", "avc-multi-grid")
            if (s + p) % 3 == 0 or not q:
                yield from avc_cases(rng, s, p, "max" if p % 2 else "min", "avc-multi-grid")
    # the Annex-B form is longer than the record from 7 sets on (2-byte length -> 4-byte start code, 12 bytes of overhead):
    # every total around that, largest and smallest sets
    for total in (5, 6, 7, 8, 9):
        for s in (1, 2):
            for kind in ("min", "max", "rand"):
                yield from avc_cases(rng, s, total - s, kind, "avc-multi-crossover", ops=["c19.avc_2annexb", "c19.capture_avcc", "c19.avc_parse_list"])
    # large counts: 5-bit SPS count, 8-bit PPS count (32 and 33 = the 5-bit mask would read 0 and 1)
    for s, p in [(31, 1), (31, 16), (1, 31), (1, 32), (1, 33), (2, 64), (1, 255), (4, 255), (31, 255), (31, 0), (16, 224), (1, 225)]:
        yield from avc_cases(rng, s, p, "small", "avc-multi-large")
    # empty sets among the others
    for s, p, z in [(2, 3, 0), (2, 3, 1), (2, 3, 4), (1, 1, 0), (1, 1, 1), (3, 8, 5)]:
        spss = [pset(rng, 0x67, rng.randrange(1, 20)) for _ in range(s)]
        ppss = [pset(rng, 0x68, rng.randrange(1, 20)) for _ in range(p)]
        allsets = spss + ppss
        allsets[z] = b""
        h = avc_header_ref(allsets[:s], allsets[s:])
        for op in AVC_OPS:
            yield Case("%s %s" % (op, tokb(h)), cls="avc-multi-empty-set")
    # truncation at every offset / count bytes of two multi-set headers
    for s, p in [(2, 7), (3, 2)]:
        spss = [pset(rng, 0x67, rng.randrange(1, 9)) for _ in range(s)]
        ppss = [pset(rng, 0x68, rng.randrange(1, 9)) for _ in range(p)]
        h = avc_header_ref(spss, ppss)
        for k in range(len(h)):
            for op in ("c19.avc_2annexb", "c19.avc_parse_list", "c19.avc_hdr_sdp"):
                yield Case("%s %s" % (op, tokb(h[:k])), cls="avc-multi-truncated")
        for nb in (0xe0, 0xe1, 0xe0 | (s + 1), 0xff, s, 0x40 | s):
            for pb in (0, 1, p - 1, p + 1, 0x20 | p, 0xe0 | p, 0xff):
                hh = avc_header_ref(spss, ppss, nsps_byte=nb, npps_byte=pb)
                for op in ("c19.avc_2annexb", "c19.avc_parse_list", "c19.avc_parse"):
                    yield Case("%s %s" % (op, tokb(hh)), cls="avc-multi-counts")
        for extra in (b"\0", b"\xfd\xf8\xf8\0", bytes(40)):     # High profile extension / slack behind the record
            for op in AVC_OPS:
                yield Case("%s %s" % (op, tokb(h + extra)), cls="avc-multi-trailing")

    # ---- HEVC: arrays
    V = lambda n=None: b"\x40\x01" + pset(rng, 0x0c, (n or rng.randrange(3, 65)) - 2, True)
    S = lambda n=None: b"\x42\x01" + pset(rng, 1, (n or rng.randrange(3, 65)) - 2, True)
    P = lambda n=None: b"\x44\x01" + pset(rng, 1, (n or rng.randrange(3, 65)) - 2, True)
    SEI = lambda: b"\x4e\x01" + pset(rng, 5, rng.randrange(1, 20), True)
    for v in (1, 2, 3):
        for s in (1, 2, 3):
            for p in (0, 1, 2, 4) if q else range(0, 9):
                for bits in ((0, 0, 0), (0x80, 0x80, 0x80), (0x40, 0xc0, 0x80)) if v + s + p <= 4 or not q else ((0x80, 0, 0x40),):
                    arrays = [(32 | bits[0], [V() for _ in range(v)]), (33 | bits[1], [S() for _ in range(s)]), (34 | bits[2], [P() for _ in range(p)])]
                    yield from hevc_cases(rng, arrays, "hevc-multi-grid")
    one = lambda: [(32, [V()]), (33, [S()]), (34, [P()])]
    # one NAL per array: set sizes 1..64, a fourth array, five arrays, permutations, repeated array types
    for n in (1, 2, 3, 4, 5, 31, 32, 33, 63, 64):
        yield from hevc_cases(rng, [(32, [V(n + 1)]), (33, [S(n + 2)]), (34, [P(n + 2)])], "hevc-multi-sizes")
        yield from hevc_cases(rng, [(0xa0, [V(n + 1)]), (0xa1, [S(n + 2)]), (0xa2, [P(n + 2)]), (0xa7, [SEI()])], "hevc-multi-sizes")
    a = one()
    for order in [(1, 0, 2), (0, 2, 1), (2, 1, 0), (1, 2, 0), (2, 0, 1)]:
        yield from hevc_cases(rng, [a[i] for i in order], "hevc-multi-order")
    yield from hevc_cases(rng, a + [(39, [SEI()]), (40, [SEI()])], "hevc-multi-arrays")
    yield from hevc_cases(rng, [(39, [SEI()])] + a, "hevc-multi-arrays")
    yield from hevc_cases(rng, a[:2] + [(34, [P()]), (34, [P()])], "hevc-multi-arrays")
    yield from hevc_cases(rng, [a[0], (32, [V()]), a[1], a[2]], "hevc-multi-arrays")
    yield from hevc_cases(rng, a[:2] + [(39, [SEI()]), a[2]], "hevc-multi-arrays")
    yield from hevc_cases(rng, a[:2], "hevc-multi-arrays")
    yield from hevc_cases(rng, a + [(34, [P(), P()])], "hevc-multi-arrays")
    for na in (0, 1, 2, 5, 255):
        yield from hevc_cases(rng, one(), "hevc-multi-numarrays", na=na)
    yield from hevc_cases(rng, [(32, [V()]), (33, [S()]), (34, [])], "hevc-multi-arrays")
    yield from hevc_cases(rng, [(32, []), (33, [S()]), (34, [P()])], "hevc-multi-arrays")


def nontrivial(c, out):
    if not out.startswith("ok"):
        return None
    return c.line


# ------------------------------------------------------------------ oracle
SC = b"\0\0\0\1"


def _list_tok(l):
    return "none" if not l else ",".join(hex_tok(x) for x in l)


def oracle(c, out):
    f = c.line.split(" ")
    op = f[0]
    p = tok_bytes(f[1])
    if op in AVC_OPS:
        if p[:5] != b"\x17\0\0\0\0":
            return None
        try:
            rec = ref_parse_avcc_record(p[5:])
        except (ValueError, IndexError):
            return None     # not a record: crash-freedom only (c19.py reports panics)
        spss, ppss = rec["sps"], rec["pps"]
        if op in ("c19.avc_2annexb", "c19.capture_avcc"):
            want = b"".join(SC + x for x in spss + ppss)
            return (out == "ok " + hex_tok(want), "record with %d SPS and %d PPS: the Annex-B form must be every set in order behind a start code (%d bytes); got %s" % (
                len(spss), len(ppss), len(want), out[:100]))
        if op == "c19.avc_parse_list":
            return (out == "ok %s %s" % (_list_tok(spss), _list_tok(ppss)), "record with %d SPS and %d PPS: the lists returned are not the sets of the record: %s" % (len(spss), len(ppss), out[:100]))
        if op == "c19.avc_parse":
            if len(spss) == 1 and len(ppss) == 1:
                return (out == "ok %s %s" % (hex_tok(spss[0]), hex_tok(ppss[0])), "record with one SPS and one PPS not parsed back: " + out[:100])
            return (out.startswith("err"), "record with %d SPS and %d PPS: the single-set parser must refuse it, not drop sets silently: %s" % (len(spss), len(ppss), out[:100]))
        if op == "c19.avc_hdr_sdp":
            if spss and ppss and spss[0] and ppss[0]:
                return (out == "ok %s %s" % (hex_tok(spss[0]), hex_tok(ppss[0])), "sdp does not announce the first SPS and the first PPS of the record byte for byte: " + out[:100])
            return (out == "none", "no usable SPS/PPS pair in the record, but an sdp was handed out: " + out[:100])
        return None
    if op in HEVC_OPS:
        if b"\0\0\1" in p[6:]:
            return None     # lal falls back to an Annex-B scan of the payload (the tag prefix 1c 00 00 00 00 01 .. holds no unit)
        hdr = p
        if op == "c19.hevc_parse_enh":
            if p[:1] != b"\x10":
                return None
            hdr = b"\x1c" + p[1:]
        if hdr[:5] != b"\x1c\0\0\0\0":
            return None
        try:
            rec = ref_parse_hvcc_record(hdr[5:])
        except (ValueError, IndexError):
            return None
        # arrays in record order
        seq = []
        i = 5 + 23
        for _ in range(hdr[5 + 22]):
            typ = hdr[i] & 0x3f
            n = int.from_bytes(hdr[i + 1:i + 3], "big"); i += 3
            nals = []
            for _ in range(n):
                l = int.from_bytes(hdr[i:i + 2], "big"); i += 2
                nals.append(hdr[i:i + l]); i += l
            seq.append((typ, nals))
        simple = len(seq) in (3, 4) and [t for t, _ in seq[:3]] == [32, 33, 34] and all(len(n) == 1 for _, n in seq[:3])
        if simple:
            v, s, q = seq[0][1][0], seq[1][1][0], seq[2][1][0]
            if op in ("c19.hevc_parse", "c19.hevc_parse_enh"):
                return (out == "ok %s %s %s" % (hex_tok(v), hex_tok(s), hex_tok(q)), "record with one VPS, SPS, PPS not parsed back: " + out[:100])
            if op == "c19.hevc_2annexb":
                return (out == "ok " + hex_tok(SC + v + SC + s + SC + q), "Annex-B form is not start code + VPS + SPS + PPS: " + out[:100])
            if op == "c19.hevc_hdr_sdp":
                if s and q:
                    return (out == "ok %s %s %s" % (hex_tok(v) if v else "nil", hex_tok(s), hex_tok(q)), "sdp does not carry the VPS, SPS, PPS of the record byte for byte: " + out[:100])
                return (out == "none", "no usable parameter sets, but an sdp was handed out")
        else:
            ok = out == "none" if op == "c19.hevc_hdr_sdp" else out.startswith("err")
            return (ok, "record with arrays %r: lal's converters take exactly one VPS, SPS, PPS in the first three arrays; any other record must be refused, not truncated: %s" % (
                [(t, len(n)) for t, n in seq], out[:100]))
    return None


def classify_finding(c, out):
    return None


def neighbors(c, rng):
    f = c.line.split(" ")
    b = tok_bytes(f[1])
    for k in range(1, min(len(b), 12)):
        yield "%s %s" % (f[0], hex_tok(b[:len(b) - k]))
