# Server-level tick: removal of empty groups and the liveness sweep, on a real ServerManager
# (extension E3 of C03 / C16; shared by gen/c03.py and gen/c16.py).
#
# Case format:  c03.srv <cfg> <op>,<op>,...      cfg and ops as c03.run (gen/c03.py), plus
#     bytes.N.K     session c<N> transfers K more bytes in the direction the idle check judges it by
#                   (rtmp publisher: its connection READS K bytes, K a multiple of 16; rtmp / http-flv / http-ts
#                   subscriber: its connection WRITES K bytes)
#     abytes.S.I.K  the origin sends K bytes to the attached rtmp relay pull p<S>_<I> (0 = latest attempt)
#     tick.C        one iteration of the ticker of ServerManager.RunLoop with tick count C (C % 120 == 0: liveness sweep)
# Output per op:  <result>/<view>/<notifications>/<closed>~<moved>~<groups>     (first three as c03.run)
#     closed  admitted sessions whose connection lal closed and whose shell has not reported yet (c1+c3 | -)
#     moved   byte counters that moved during the op: <name>r | <name>w, name = c<N> | p<S>_<I> | u<S>_<T> (push target T)
#     groups  sS=gK: the K-th Group object the server created is registered for stream S
from lib.vf import Case

SWEEP = 120
BIG = 4294967280          # the largest multiple of 120 below 2^32 (tick counts are uint32)


def line(ops, cfg="-"):
    return "c03.srv %s %s" % (cfg, ",".join(ops))


# ---------------------------------------------------------------- generator

def gen_boundary():
    # the modulus: first and second look at, just before and just after multiples of 120
    for t1 in (119, 120, 121, 240, BIG):
        for t2 in (239, 240, 241, 360, 0, BIG - 120 + 119, BIG):
            for mid in ([], ["bytes.1.16"], ["bytes.2.5"], ["media.1"], ["bytes.1.0", "bytes.2.0"]):
                ops = ["rp.1.1", "fs.1.2", "tick.%d" % t1] + mid + ["tick.%d" % t2, "gone.1", "tick.%d" % (t2 + 1), "gone.2", "tick.7", "tick.8", "rp.1.9", "tick.9"]
                yield Case(line(ops), cls="modulus")
    # three looks: idle from the start / active then idle / idle then active (the stale stat follows every look)
    for a in ([], ["bytes.1.32"]):
        for b in ([], ["bytes.1.48"]):
            for c in ([], ["bytes.1.16"]):
                ops = ["rp.1.1"] + a + ["tick.120"] + b + ["tick.240"] + c + ["tick.360", "tick.480", "gone.1", "tick.481", "tick.482"]
                yield Case(line(ops), cls="three-looks")


def gen_kinds():
    # every kind of session idle for two sweeps / kept alive, alone and next to an active publisher
    subs = ["fs", "rs", "ts", "ds"]
    for k in ["rp", "ap", "cp", "pp"] + subs:
        for alive in (False, True):
            for withpub in (False, True):
                if k in ("rp", "ap", "cp", "pp") and withpub:
                    continue
                ops = []
                if withpub:
                    ops += ["rp.1.9"]
                ops += ["%s.1.1" % k]
                if k == "ds":
                    ops += ["pl.1"]
                feed = (["bytes.1.16"] if k in ("rp", "fs", "rs", "ts") else []) if alive else []
                keep = ["bytes.9.32"] if withpub else []
                ops += ["tick.120"] + feed + keep + ["tick.239", "tick.240"] + feed + keep + ["tick.241", "tick.360"]
                ops += (["kick.1.c1"] if k == "pp" else ["gone.1"]) + ["tick.361"]
                if withpub:
                    ops += ["gone.9", "tick.362"]
                ops += ["tick.363", "%s.1.5" % ("rp" if k in subs else k), "tick.364"]
                yield Case(line(ops), cls="kind-" + k)
    # media keeps the publisher and the rtmp / flv subscribers alive, not the ts / rtsp ones
    ops = ["rp.1.1", "fs.1.2", "rs.1.3", "ts.1.4", "ds.1.5", "pl.5", "tick.120", "media.1", "tick.240", "media.1", "tick.360", "tick.480",
           "gone.4", "gone.5", "gone.1", "tick.481", "gone.2", "gone.3", "tick.482", "tick.483"]
    yield Case(line(ops), cls="media")
    # an idle publisher: disposed at the second look, one stop when its shell reports, the group removed at the
    # following tick, the next publisher of the name gets a new Group
    for pub in ("rp", "ap"):
        for late in ([], ["tick.241", "tick.242"]):
            ops = ["%s.1.1" % pub, "tick.120", "tick.240"] + late + ["gone.1", "tick.243", "tick.244", "%s.1.2" % pub, "fs.1.3", "tick.359", "tick.360", "tick.480",
                   "gone.2", "gone.3", "tick.481"]
            yield Case(line(ops), cls="idle-input")
    # a kicked (closed, not yet reported) session is looked at again; a refused one never
    yield Case(line(["rp.1.1", "rp.1.2", "fs.1.3", "kick.1.c1", "tick.120", "tick.240", "gone.1", "tick.360", "tick.480", "gone.3", "tick.481"]), cls="kicked")
    yield Case(line(["rp.1.1", "rs.1.2.deny", "fs.1.3.deny", "ap.1.4", "tick.120", "bytes.1.16", "tick.240", "bytes.4.16", "bytes.2.3", "tick.360"]), cls="refused")


def gen_relay():
    # relay pulls are judged by the bytes read from the origin
    for proto in ("", ".rtsp"):
        for feed in ([], ["abytes.1.0.16"]):
            for retry in ("n1", "0"):
                ops = ["fs.1.9", "spull.1.%s.n1%s" % (retry, proto), "psucc.1.1", "tick.120"] + feed + ["bytes.9.4", "tick.240"] + feed + ["bytes.9.4", "tick.360",
                       "tick.361", "psucc.1.0", "bytes.9.4", "tick.480", "gone.9", "tick.481", "xpull.1", "tick.482", "tick.483"]
                yield Case(line(ops), cls="pull" + proto.replace(".", "-"))
    # a pull still connecting is not looked at; the group lingers while the pull is pending
    yield Case(line(["spull.1.0.n1", "tick.120", "tick.240", "tick.360", "pfail.1.1", "tick.361", "tick.362"]), cls="pull-held")
    yield Case(line(["spull.1.n1.n1", "tick.120", "tick.240", "pfail.1.1", "tick.241", "tick.242", "pfail.1.0", "xpull.1", "tick.243", "tick.244"]), cls="pull-held")
    yield Case(line(["spull.1.2.0", "tick.1", "psucc.1.1", "tick.2", "tick.3", "tick.120", "tick.240"]), cls="pull-autostop")
    yield Case(line(["fs.1.1", "gone.1", "tick.1", "tick.2"], "static=1"), cls="static")
    yield Case(line(["fs.1.1", "psucc.1.0", "tick.120", "bytes.1.5", "tick.240", "bytes.1.5", "tick.360", "gone.1", "tick.361", "tick.362"], "static=1"), cls="static")
    # relay push sessions are judged by the bytes written
    for np in (1, 2):
        ops = ["rp.1.1", "pushok.1.0", "media.1", "tick.120", "media.1", "tick.240", "bytes.1.16", "tick.360", "tick.361", "pushok.1.0", "media.1", "tick.480",
               "bytes.1.16", "tick.600", "gone.1", "tick.601", "tick.602"]
        yield Case(line(ops, "push=%d" % np), cls="push")
    yield Case(line(["ap.1.1", "pushok.1.0", "pushfail.1.1", "tick.120", "tick.121", "pushok.1.1", "tick.240", "tick.360", "gone.1", "tick.361"], "push=2"), cls="push")


def gen_groups():
    # empty groups: removed at the first tick, unless a pull is pending; names reused; several names
    yield Case(line(["fs.1.1", "gone.1", "tick.5", "tick.6", "fs.1.2", "tick.7", "gone.2", "rp.1.3", "tick.8", "gone.3", "tick.9", "tick.10", "rp.1.4"]), cls="empty")
    yield Case(line(["rp.1.1", "rp.2.2", "fs.3.3", "gone.2", "tick.119", "gone.3", "tick.120", "fs.2.4", "fs.3.5", "tick.121", "bytes.1.16", "tick.240",
                     "gone.1", "gone.4", "tick.241", "gone.5", "tick.242", "rp.1.6", "rp.2.7", "rp.3.8", "tick.243"]), cls="empty")
    yield Case(line(["spull.1.0.n1", "pfail.1.1", "tick.1", "tick.2", "spull.1.n1.n1", "pfail.1.0", "tick.3", "pfail.1.0", "tick.4", "xpull.1", "pfail.1.0", "tick.5", "tick.6"]), cls="empty")
    yield Case(line(["kick.1.c1", "xpull.1", "tick.1", "pp.1.1", "tick.2", "kick.1.c1", "tick.3", "tick.4", "cp.1.2", "tick.120", "tick.240", "gone.2", "tick.241"]), cls="empty")
    yield Case(line(["ds.1.1", "tick.1", "gone.1", "tick.2", "ds.1.2", "pl.2", "tick.120", "tick.240", "pl.2", "gone.2", "tick.241", "tick.242"]), cls="empty")
    # a subscriber keeps the group; a disposed but unreported subscriber too
    yield Case(line(["fs.1.1", "tick.1", "tick.2", "tick.120", "tick.121", "tick.240", "tick.241", "tick.242", "gone.1", "tick.243", "tick.244"]), cls="linger")
    yield Case(line(["rp.1.1", "rs.1.2", "ts.1.3", "gone.1", "tick.1", "tick.120", "tick.240", "tick.241", "gone.2", "tick.242", "gone.3", "tick.243"]), cls="linger")
    yield Case(line(["rp.1.1", "fs.1.2", "dispose", "tick.120", "gone.1", "gone.2", "tick.240"]), cls="dispose")


def rand_history(rng, n_ops, streams, npush, static=False):
    ops = []
    nxt = [1]
    live = []   # (id, kind, stream)
    disposed = False

    def nid():
        nxt[0] += 1
        return nxt[0] - 1

    def tick():
        base = rng.choice([120, 120, 240, 360, 1200, BIG])
        return "tick.%d" % (base + rng.choice([0, 0, 0, 0, -1, 1]))
    for _ in range(n_ops):
        s = rng.choice(streams)
        r = rng.random()
        if r < 0.14:
            # (a group created by start_rtp_pub or AddCustomizePubSession has an empty app name; its static relay pull then dials
            # rtmp://origin//stream, which the stub origin answers only after seconds: no pp / cp under static=1)
            k = rng.choice(["rp", "rp", "rp", "ap", "rp" if static else "cp", "ap" if static else "pp"])
            i = nid()
            deny = ".deny" if (k in ("rp", "ap") and rng.random() < 0.08) else ""
            ops.append("%s.%d.%d%s" % (k, s, i, deny))
            live.append((i, k, s))
        elif r < 0.27 and not disposed:
            k = rng.choice(["fs", "fs", "rs", "ts", "ds"])
            i = nid()
            ops.append("%s.%d.%d%s" % (k, s, i, ".deny" if rng.random() < 0.06 else ""))
            live.append((i, k, s))
            if k == "ds" and rng.random() < 0.6:
                ops.append("pl.%d" % i)
        elif r < 0.37 and live:
            i, k, st = rng.choice(live)
            ops.append("kick.%d.c%d" % (st, i) if k == "pp" else "gone.%d" % i)
            if rng.random() < 0.85:
                live.remove((i, k, st))
        elif r < 0.52 and live:
            i, k, st = rng.choice(live)
            ops.append("bytes.%d.%d" % (i, 16 * rng.randrange(0, 4) if k == "rp" else rng.choice([0, 1, 7, 100, 4096])))
        elif r < 0.58 and live:
            cand = [x for x in live if x[1] in ("rp", "cp")]
            if cand:
                ops.append("media.%d" % rng.choice(cand)[0])
        elif r < 0.80:
            ops.append(tick())
            if rng.random() < 0.3:
                ops.append(tick())
        elif r < 0.84:
            ops.append("tick.%d" % rng.choice([1, 2, 3, 7, 59, 60]))
        elif r < 0.88:
            ops.append("spull.%d.%s.%s%s" % (s, rng.choice(["0", "1", "n1"]), rng.choice(["n1", "n1", "n1", "0", "5000"]), rng.choice(["", "", ".rtsp"])))
        elif r < 0.93:
            ops.append("%s.%d.0" % (rng.choice(["psucc", "psucc", "pfail", "pdone"]), s))
        elif r < 0.955:
            ops.append("abytes.%d.0.%d" % (s, 16 * rng.randrange(0, 3)))
        elif r < 0.965:
            ops.append("xpull.%d" % s)
        elif r < 0.975 and live:
            i, k, st = rng.choice(live)
            ops.append("kick.%d.c%d" % (st, i))
        elif r < 0.99 and npush:
            ops.append("%s.%d.%d" % (rng.choice(["pushok", "pushok", "pushfail", "pushdone"]), s, rng.randrange(npush)))
        elif r < 0.995 and not disposed:
            ops.append("dispose")
            disposed = True
    return ops or ["tick.120"]


def gen_cases(tier, rng):
    yield from gen_boundary()
    yield from gen_kinds()
    yield from gen_relay()
    yield from gen_groups()
    n = 160 if tier == "quick" else 6000
    for k in range(n):
        npush = rng.choice([0, 0, 0, 1, 2])
        static = rng.random() < 0.08
        cfg = ",".join(x for x in ["static=1" if static else "", "push=%d" % npush if npush else ""] if x) or "-"
        # static relay pull: ONE stream only - every stream dials the same static origin, and when one op (a tick) starts the
        # static pulls of two streams the order in which their connections reach the stub's listener is the scheduler's; the
        # harness cannot tell them apart while they are held, so it would give an attempt the other stream's connection
        streams = [1] if static else rng.choice([[1], [1, 2], [1, 2, 3]])
        ops = rand_history(rng, rng.choice([8, 14, 20, 30]), streams, npush, static)
        yield Case(line(ops, cfg), cls="random-%d" % len(set(o.split(".")[1] for o in ops if o.split(".")[0] in ("rp", "ap", "cp", "pp", "fs", "rs", "ts", "ds"))))


def nontrivial(c, out):
    if "unknown-op" in out or "timeout" in out or "anomaly" in out or out.startswith(("bad", "err", "model-")):
        return None
    return c.line


# ---------------------------------------------------------------- oracle
# From the property texts only (C16: "a stream with no sessions left is eventually removed, an input that stops sending
# is disconnected by the idle check"; C03: ticks and group disposal never disturb the accepted input), evaluated on
# the implementation's observation; independent of the Coq model.

def parse_out(out):
    steps = []
    for seg in out.split(";"):
        if seg.startswith("anomaly:"):
            raise ValueError("the implementation never produced the effect an event must have: " + seg)
        p = seg.split("/")
        if len(p) != 4:
            raise ValueError("malformed step output %r" % seg)
        res, view, ev, extra = p
        groups = {}
        if view != "-":
            for g in view.split("|"):
                f = g.split(":")
                groups[f[0]] = dict(slots=f[1].split(","), pulling=f[2], count=f[3], api=f[4], pipe=f[5], spub=f[6], spull=f[7],
                                    ssubs=[] if f[8] == "-" else f[8].split("+"), push=[] if f[9] == "-" else f[9].split("+"))
        notes = [] if ev == "-" else [tuple(x.split(":")) for x in ev.split("+")]
        x = extra.split("~")
        if len(x) != 3:
            raise ValueError("malformed step output %r" % seg)
        closed = set() if x[0] == "-" else set(x[0].split("+"))
        moved = [] if x[1] == "-" else x[1].split("+")
        gids = {} if x[2] == "-" else dict(kv.split("=") for kv in x[2].split("+"))
        steps.append(dict(res=res, groups=groups, notes=notes, closed=closed, moved=moved, gids=gids))
    return steps


def oracle(c, out, with_c03=True):
    if out.startswith(("panic@", "crash@", "timeout", "not-run")):
        return (False, "implementation crashed or hung: " + out[:80])
    try:
        steps = parse_out(out)
    except ValueError as e:
        return (False, str(e))
    f = c.line.split(" ")
    cfg = dict(kv.split("=") for kv in f[1].split(",")) if f[1] != "-" else {}
    static = cfg.get("static") == "1"
    ops = f[2].split(",")
    if len(steps) != len(ops):
        return (False, "the implementation answered %d of %d events" % (len(steps), len(ops)))
    looked = set()        # sessions the idle check has looked at
    moved = {}            # name -> directions in which its counter moved since the last look
    prev = dict(groups={}, closed=set(), gids={})
    max_gid = 0
    seen_pipes = set()
    autostop = {}         # stream -> auto-stop parameter of the last start_relay_pull
    for idx, (op, st) in enumerate(zip(ops, steps)):
        o = op.split(".")
        where = "event %d (%s): " % (idx + 1, op)
        groups, pg = st["groups"], prev["groups"]
        for m in st["moved"]:
            moved.setdefault(m[:-1], set()).add(m[-1])
        if o[0] == "spull":
            autostop["s" + o[1]] = o[3]
        # a push session that attaches is a new session: never looked at
        for s, g in groups.items():
            for t, p in enumerate(g["push"]):
                was = pg.get(s, {}).get("push", [])
                if "a" in p and not (t < len(was) and "a" in was[t]):
                    looked.discard("u%s_%d" % (s[1:], t))
        # a Group object stays registered under its name until a tick removes it
        for s, gid in prev["gids"].items():
            if s in st["gids"] and st["gids"][s] != gid:
                return (False, where + "the Group object of %s was replaced (%s -> %s) without having been removed" % (s, gid, st["gids"][s]))
        is_tick = o[0] == "tick" and st["res"] == "-"
        if not is_tick:
            for s in pg:
                if s not in groups:
                    return (False, where + "the group of %s disappeared although no tick ran" % s)
            if st["closed"] - prev["closed"] and o[0] not in ("kick", "dispose", "gone", "cp"):
                return (False, where + "connection(s) %s closed by an event that is neither a kick, a disposal nor the idle check" % ",".join(sorted(st["closed"] - prev["closed"])))
        # a new group: a new Group object in its initial state (nothing of a predecessor of that name)
        for s, g in groups.items():
            if s in pg:
                continue
            gid = int(st["gids"].get(s, "g0")[1:])
            if gid != max_gid + 1:
                return (False, where + "the new group of %s is Group object #%d, expected a new one (#%d)" % (s, gid, max_gid + 1))
            subject = set()
            if o[0] in ("rp", "ap", "cp", "pp", "fs", "rs", "ts", "ds"):
                subject.add("c" + o[2])
            listed = set(x for x in g["slots"] if x != "-") | set(g["ssubs"]) | set(x for x in (g["spub"], g["spull"]) if x != "-")
            if is_tick or not listed <= subject:
                return (False, where + "the new group of %s starts with %s attached" % (s, ",".join(sorted(listed - subject)) or "a tick as its creator"))
            if g["pipe"] != "-" and g["pipe"] in seen_pipes:
                return (False, where + "the new group of %s starts with the pipeline %s of an earlier input" % (s, g["pipe"]))
            if (g["pulling"], g["count"]) not in (("0", "0"), ("1", "1")) or any("a" in p for p in g["push"]):
                return (False, where + "the new group of %s does not start from the initial relay state (pulling=%s startCount=%s push=%s)" % (s, g["pulling"], g["count"], g["push"]))
        for gid in st["gids"].values():
            max_gid = max(max_gid, int(gid[1:]))
        for g in groups.values():
            if g["pipe"] != "-":
                seen_pipes.add(g["pipe"])
        if is_tick:
            count = int(o[1])
            ended = set(n[1] for n in st["notes"] if n[0] == "RE")
            # removal: a group with no input, no output session and no pull pending is removed, and only such groups are
            for s, g in pg.items():
                occupied = any(x != "-" for x in g["slots"])
                busy = occupied or g["ssubs"] or any("a" in p for p in g["push"]) or g["pulling"] == "1"
                enabled = g["api"] == "1" or static
                if busy and s not in groups:
                    return (False, where + "the group of %s was removed although it had %s" % (
                        s, "an input" if occupied else "subscribers" if g["ssubs"] else "a relay push session" if g["pulling"] != "1" else "a relay pull in flight"))
                if not busy and not enabled and s in groups:
                    return (False, where + "the group of %s has no input, no output and no relay pull pending, yet it was not removed" % s)
                if not busy and enabled and s in groups and not (groups[s]["pulling"] == "1" and int(groups[s]["count"]) == int(g["count"]) + 1):
                    return (False, where + "the empty group of %s was kept although no relay pull was pending (none was started by this tick)" % s)
            for s in groups:
                if s not in pg:
                    return (False, where + "a tick created the group of %s" % s)
            # a tick never disturbs an accepted publisher
            for s, g in pg.items():
                occ = [x for x in g["slots"] if x != "-"]
                if occ and occ[0].startswith("c"):
                    a = groups.get(s)
                    if a is None or a["slots"] != g["slots"] or a["pipe"] != g["pipe"] or st["gids"].get(s) != prev["gids"].get(s):
                        return (False, where + "the tick disturbed the accepted input %s of %s (slots %s -> %s, pipeline %s -> %s)" % (
                            occ[0], s, ",".join(g["slots"]), ",".join(a["slots"]) if a else "group gone", g["pipe"], a["pipe"] if a else "-"))
            newly = st["closed"] - prev["closed"]
            if count % SWEEP != 0:
                if newly:
                    return (False, where + "connection(s) %s disposed on a tick that is not a multiple of %d" % (",".join(sorted(newly)), SWEEP))
            else:
                expect_closed = set()
                for s, g in pg.items():
                    if s not in groups:
                        continue
                    a = groups[s]
                    cands = [(g["slots"][0], "r", "conn"), (g["slots"][1], "r", "conn"), (g["slots"][4], "r", "pull"), (g["slots"][5], "r", "pull")]
                    cands += [(x, "w", "conn") for x in g["ssubs"]]
                    cands += [("u%s_%d" % (s[1:], t), "w", "push") for t, p in enumerate(g["push"]) if "a" in p]
                    for name, d, kind in cands:
                        if name == "-" or name.startswith("?"):
                            continue
                        idle = name in looked and d not in moved.get(name, set())
                        what = "publisher" if (kind == "conn" and d == "r") else "subscriber" if kind == "conn" else "relay %s" % kind
                        rule = "its %s counter %s since the previous idle check" % ("read" if d == "r" else "write", "did not move" if idle else
                                                                                  ("moved" if name in looked else "had never been looked at"))
                        if kind == "conn":
                            if idle:
                                expect_closed.add(name)
                                if name not in st["closed"]:
                                    return (False, where + "%s %s of %s was not disconnected although %s" % (what, name, s, rule))
                            elif name in newly:
                                return (False, where + "%s %s of %s was disconnected although %s" % (what, name, s, rule))
                        elif kind == "pull":
                            if idle and not (name in ended and name not in a["slots"]):
                                return (False, where + "relay pull %s of %s was not ended although %s" % (name, s, rule))
                            if not idle and name in ended and autostop.get(s) == "n1" and not static:
                                return (False, where + "relay pull %s of %s was ended although %s" % (name, s, rule))
                        else:
                            t = int(name.split("_")[1])
                            att = t < len(a["push"]) and "a" in a["push"][t]
                            if idle and att:
                                return (False, where + "relay push session %s was not ended although %s" % (name, rule))
                            if not idle and not att:
                                return (False, where + "relay push session %s was ended although %s" % (name, rule))
                        looked.add(name)
                        moved[name] = set()
                stray = newly - expect_closed
                if stray:
                    return (False, where + "the idle check disconnected %s, which it had no reason to" % ",".join(sorted(stray)))
        prev = st
    if with_c03:
        # start / stop notifications exactly once per accepted session, single input, stat: the clauses of C03
        from gen import c03
        out3 = ";".join("/".join(seg.split("/")[:3]) for seg in out.split(";"))
        return c03.oracle(Case("c03.run %s %s" % (f[1], f[2])), out3)
    return (True, "")


def neighbors(c, rng):
    f = c.line.split(" ")
    ops = f[2].split(",")
    for i in range(len(ops)):
        if len(ops) > 1:
            yield "%s %s %s" % (f[0], f[1], ",".join(ops[:i] + ops[i + 1:]))
