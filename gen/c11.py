# C11 - FLV output is a valid FLV byte stream; WebSocket framing.
import hashlib
from lib.vf import Case
from gen.common import *

ID = "C11"
RULE = ("boundary sweep of payload length x timestamp x tag type for PackHttpflvTag/ReadTag/FlvFileWriter+Reader/"
        "httpflv.SubSession (plain and WebSocket) plus MakeWsFrameHeader over all flag/length forms, then seeded random tag "
        "sequences; a case is non-trivial when its (op, length class, timestamp class) triple is new and the model output is not an error")
ASSUMPTIONS = ["subscriber transport not back-pressured (fake net.Conn, synchronous writes: SubSessionWriteChanSize=0)",
               "payloads of 2^24-1 bytes are exercised in the thorough tier only"]
FULL_OUTPUT = True

LENS_Q = [0, 1, 2, 10, 11, 125, 126, 127, 128, 255, 256, 65535 - 15, 65535 - 14, 65535, 65536, 65537, 70000]
LENS_T = LENS_Q + [1 << 20, (1 << 24) - 16, (1 << 24) - 15 - 1]
TSS = [0, 1, 0xFFFFFE, 0xFFFFFF, 0x1000000, 0x1000001, 0x7FFFFFFF, 0x80000000, 0xFFFFFFFF]
TYPES = [8, 9, 18, 0, 255]


def gen_cases(tier, rng):
    # subscribers joining a real Group while the publisher keeps broadcasting (distinct seeds = distinct lines)
    for k in range(6 if tier == "quick" else 40):
        yield Case("c11.joinrace %d %d" % (k % 2, 40 + k), cls="joinrace")
    lens = LENS_T if tier == "thorough" else LENS_Q
    # tag pack / read
    for n in lens:
        for ts in TSS:
            t = TYPES[(n + ts) % 3]
            p = payload_tok(rng, n)
            yield Case("c11.pack %d %d %s" % (t, ts, p), cls="pack")
    for t in TYPES:
        yield Case("c11.pack %d 77 0102" % t, cls="pack")
    # read: valid tags followed by garbage / truncated tags
    for n in [0, 1, 5, 126, 300]:
        for ts in [0, 0xFFFFFF, 0x1000000, 0xFFFFFFFF]:
            raw = ref_pack(9, ts, bytes(rng.randrange(256) for _ in range(n)))
            yield Case("c11.read %s" % hex_tok(raw + b"\x01\x02\x03"), cls="read-valid")
            cut = rng.randrange(len(raw))
            yield Case("c11.read %s" % hex_tok(raw[:cut]), cls="read-truncated")
    for _ in range(60 if tier == "quick" else 600):
        n = rng.choice([0, 3, 10, 11, 12, 15, 16, 40])
        yield Case("c11.read %s" % hex_tok(bytes(rng.randrange(256) if rng.random() < 0.5 else 0 for _ in range(n))), cls="read-random")
    # re-stamping (Tag.ModTagTimestamp): sequences of timestamps on both sides of 2^24
    for ts in TSS:
        for k in range(3):
            seq = [rng.choice(TSS + [rng.randrange(1 << 32), rng.randrange(1 << 24)]) for _ in range(rng.randrange(1, 5))]
            yield Case("c11.modts %d %d %s %s" % (rng.choice([8, 9, 18]), ts, payload_tok(rng, rng.choice([0, 1, 5, 300])), ",".join(str(x) for x in seq)), cls="modts")
    # ws header: every flag combination x length forms
    for plen in [0, 1, 125, 126, 127, 65535, 65536, 65537, 1 << 31, (1 << 32) - 1, 1 << 32, (1 << 63) - 1, 1 << 63, (1 << 64) - 1]:
        for flags in range(16):
            for masked in (0, 1):
                op = (flags * 7 + plen) % 16
                yield Case("c11.wshdr %d %d %d %d %d 0x%x %d 0x%x" % (flags & 1, (flags >> 1) & 1, (flags >> 2) & 1, (flags >> 3) & 1,
                                                                  op, plen, masked, rng.randrange(1 << 32)), cls="wshdr")
    # files and subscriber streams
    nseq = 60 if tier == "quick" else 400
    for k in range(nseq):
        ntags = rng.choice([0, 1, 2, 3, 5, 8])
        tags = []
        for _ in range(ntags):
            n = rng.choice(lens[:17] if rng.random() < 0.8 else [rng.randrange(0, 3000)])
            tags.append("%d:%d:%s" % (rng.choice([8, 9, 18]), rng.choice(TSS + [rng.randrange(1 << 32)]), payload_tok(rng, n)))
        tl = ",".join(tags) if tags else "-"
        yield Case("c11.file %s" % tl, cls="file")
        yield Case("c11.sub 0 %s" % tl, cls="sub-plain")
        yield Case("c11.sub 1 %s" % tl, cls="sub-ws")
    # recordings with ONE large tag among small ones (a writer that buffers small writes and passes large ones through
    # must keep the order): every call pattern of lal's callers, digest output
    small = lambda: "%d:%d:%s" % (rng.choice([8, 9, 18]), rng.randrange(1 << 24), payload_tok(rng, rng.choice([0, 1, 7, 40, 300, 2000])))
    bigtok = lambda n: "9:%d:r%d.%d" % (rng.randrange(1 << 24), n, 1 + n % 5)   # few distinct large tokens: the oracle memoises them
    sizes = [((1 << 12) - 15, "m"), (1 << 12, "m"), ((1 << 16) - 15, "m"), (1 << 16, "m"), ((1 << 17) - 15, "m"), (1 << 17, "m"),
             ((1 << 18) - 15 - 1, "fml"), ((1 << 18) - 15, "fml"), (1 << 18, "fml"), (300000, "fml"), (1 << 19, "fml")]
    for n, where in sizes:
        for pos in where:
            for mode in ("raw", "tag") if (pos == "m" and n >= (1 << 18) - 16) or tier != "quick" else ("raw",):
                before = [small() for _ in range({"f": 0, "m": 2, "l": 4}[pos])]
                after = [small() for _ in range({"f": 4, "m": 2, "l": 0}[pos])]
                yield Case("c11.rec %s %s" % (mode, ",".join(before + [bigtok(n)] + after)), cls="rec-large-" + {"f": "first", "m": "middle", "l": "last"}[pos])
    for mode, pos in [("raw", 2), ("tag", 0)] if tier == "quick" else [(m, q) for m in ("raw", "tag", "rawh", "mix") for q in range(5)]:
        tl = [small() for _ in range(4)]
        tl.insert(pos, bigtok(1 << 20))
        yield Case("c11.rec %s %s" % (mode, ",".join(tl)), cls="rec-1MiB")
    for mode in ("rawh", "mix"):
        for n in (300000, 1 << 18):
            tl = [small() for _ in range(3)]
            tl.insert(rng.randrange(4), bigtok(n))
            yield Case("c11.rec %s %s" % (mode, ",".join(tl)), cls="rec-large-" + mode)
    # two large tags, and small recordings through every mode
    yield Case("c11.rec raw 9:1:r300000.1,8:2:0102,9:3:r262144.5", cls="rec-large-two")
    for mode in ("raw", "tag", "rawh", "mix"):
        yield Case("c11.rec %s -" % mode, cls="rec-small")
        for _ in range(6 if tier == "quick" else 60):
            yield Case("c11.rec %s %s" % (mode, ",".join(small() for _ in range(rng.choice([1, 2, 5, 9])))), cls="rec-small")
    if tier == "thorough":
        for n in [(1 << 24) - 1, (1 << 24) - 2]:
            yield Case("c11.pack 9 4294967295 r%d.7" % n, cls="pack-max")
            yield Case("c11.sub 1 9:16777216:r%d.9" % n, cls="sub-ws-max")


def nontrivial(c, out):
    if out.startswith(("err", "bad", "model-", "unknown")):
        return None
    f = c.line.split(" ")
    return "%s|%s" % (f[0], c.line) if True else None


# ---------------------------------------------------------------- reference
def ref_pack(t, ts, p):
    return bytes([t]) + len(p).to_bytes(3, "big") + (ts & 0xFFFFFF).to_bytes(3, "big") + bytes([ts >> 24]) + b"\0\0\0" + p + (11 + len(p)).to_bytes(4, "big")


def ref_parse_tags(b):
    """Adobe FLV spec parser: returns list of (type, ts, payload) or raises"""
    out = []
    i = 0
    while i < len(b):
        if len(b) - i < 11:
            raise ValueError("short tag header at %d" % i)
        t = b[i]
        size = int.from_bytes(b[i + 1:i + 4], "big")
        ts = int.from_bytes(b[i + 4:i + 7], "big") | (b[i + 7] << 24)
        if b[i + 8:i + 11] != b"\0\0\0":
            raise ValueError("stream id not zero")
        if len(b) - i < 11 + size + 4:
            raise ValueError("short tag body at %d" % i)
        payload = b[i + 11:i + 11 + size]
        if int.from_bytes(b[i + 11 + size:i + 15 + size], "big") != 11 + size:
            raise ValueError("previous tag size mismatch at %d" % i)
        out.append((t, ts, payload))
        i += 15 + size
    return out


def ref_parse_flv(b):
    if b[:4] != b"FLV\x01" or b[5:9] != b"\0\0\0\x09" or b[9:13] != b"\0\0\0\0" or (b[4] & 0xFA):
        raise ValueError("bad FLV header")
    return ref_parse_tags(b[13:])


def ref_ws_frames(b):
    """RFC 6455 frame parser: list of (fin, rsv, opcode, masked, payload)"""
    out = []
    i = 0
    while i < len(b):
        if len(b) - i < 2:
            raise ValueError("short ws header")
        b0, b1 = b[i], b[i + 1]
        i += 2
        l = b1 & 0x7F
        if l == 126:
            l = int.from_bytes(b[i:i + 2], "big"); i += 2
        elif l == 127:
            l = int.from_bytes(b[i:i + 8], "big"); i += 8
            if l >> 63:
                raise ValueError("msb of 64-bit length set")
        masked = bool(b1 & 0x80)
        key = b""
        if masked:
            key = b[i:i + 4]; i += 4
        if len(b) - i < l:
            raise ValueError("short ws payload")
        p = b[i:i + l]; i += l
        if masked:
            p = bytes(x ^ key[k % 4] for k, x in enumerate(p))
        out.append((bool(b0 & 0x80), (b0 >> 4) & 7, b0 & 15, masked, p))
    return out


def fast_tok_bytes(tok):
    """tok_bytes without a python call per byte (1 MiB r-tokens)"""
    if "+" in tok:
        return b"".join(fast_tok_bytes(t) for t in tok.split("+"))
    if tok[:1] == "r":
        if tok in _memo:
            return _memo[tok]
        n, seed = tok[1:].split(".")
        n, seed = int(n), int(seed) * 1000003
        b = bytes([((x ^ (x >> 8) ^ (x >> 16)) & 0xff) for x in
                   (((seed + i * 7919 + (i // 251) * 104729) & 0x7fffffff) for i in range(n))])
        if n >= 100000:
            if len(_memo) >= 12:
                _memo.clear()
            _memo[tok] = b
        return b
    return tok_bytes(tok)


_memo = {}


def digest(b):
    return "0x%x:%s:%s:%s" % (len(b), hashlib.md5(b).hexdigest(), hex_tok(b[:64]), hex_tok(b[-64:]))


def parse_tag_items(tok):
    if tok == "-":
        return []
    out = []
    for it in tok.split(","):
        t, ts, p = it.split(":")
        out.append((num(t), num(ts), fast_tok_bytes(p)))
    return out


def oracle(c, out):
    """evaluate C11 on the implementation's observation (full output mode)"""
    f = c.line.split(" ")
    op = f[0]
    if out.startswith(("panic@", "crash@", "timeout")):
        return (False, "implementation crashed: " + out)
    try:
        if op == "c11.joinrace":
            return (out == "ok", "a subscriber that joined while the publisher was broadcasting did not get the HTTP response and the FLV header first: " + out[:160])
        if op == "c11.pack":
            t, ts, p = num(f[1]), num(f[2]), tok_bytes(f[3])
            if not (t < 256 and ts < 2**32 and len(p) < 2**24):
                return None
            got = ref_parse_tags(tok_bytes(out))
            return (got == [(t, ts, p)], "reference FLV parser reads %r.. instead of the packed tag" % (got[:1],))
        if op in ("c11.file", "c11.sub"):
            tags = parse_tag_items(f[-1])
            o = out.split(" ")
            data = tok_bytes(o[0])
            if op == "c11.sub" and f[1] == "1":
                frames = ref_ws_frames(data)
                for fr in frames:
                    if fr[:4] != (True, 0, 2, False):
                        return (False, "WebSocket frame is not FIN/binary/unmasked: %r" % (fr[:4],))
                # each unit lal writes = one frame: header, then one per tag
                if [fr[4] for fr in frames] != [b"FLV\x01\x05\0\0\0\x09\0\0\0\0"] + [ref_pack(*t) for t in tags]:
                    return (False, "WebSocket frames are not one per written unit")
                data = b"".join(fr[4] for fr in frames)
            got = ref_parse_flv(data)
            if got != tags:
                return (False, "reference FLV parser does not read back the written tags")
            if op == "c11.file":
                # lal's own reader
                n = int(o[1])
                back = [] if o[2] == "-" else o[2].split(",")
                if n != len(tags) or len(back) != len(tags):
                    return (False, "lal's FLV reader returns %d tags, %d written" % (n, len(tags)))
                for s, (t, ts, p) in zip(back, tags):
                    bt, bs, bts, braw = s.split(":")
                    if (num(bt), num(bs), num(bts)) != (t, len(p), ts) or tok_bytes(braw) != ref_pack(t, ts, p):
                        return (False, "lal's FLV reader returns a different tag")
            return (True, "")
        if op == "c11.rec":
            # the file is fully determined by the FLV layout: header, then each tag in the order written
            tags = parse_tag_items(f[2])
            if out.startswith("err-write"):
                return (False, "a write to the recording failed: " + out)
            o = out.split(" ")
            want = b"FLV\x01\x05\0\0\0\x09\0\0\0\0" + b"".join(ref_pack(*t) for t in tags)
            if o[0] != digest(want):
                got = o[0].split(":")
                return (False, "recording is not FLV header + the tags in the order written: %s bytes starting %s, expected %d bytes starting %s" % (
                    got[0], got[2][:32], len(want), want[:16].hex()))
            back = [] if o[2] == "-" else o[2].split(",")
            if int(o[1]) != len(tags) or len(back) != len(tags):
                return (False, "lal's FLV reader returns %s tags, %d written" % (o[1], len(tags)))
            for s, (t, ts, p) in zip(back, tags):
                if s != "0x%x:0x%x:0x%x:%s" % (t, len(p), ts, digest(ref_pack(t, ts, p))):
                    return (False, "lal's FLV reader returns a different tag")
            return (True, "")
        if op == "c11.modts":
            t, ts, p = num(f[1]), num(f[2]), tok_bytes(f[3])
            seq = [ts] + [int(x) for x in f[4].split(",")]
            got = out.split(",")
            if len(got) != len(seq):
                return (False, "re-stamp: %d tags reported for %d timestamps" % (len(got), len(seq)))
            for want_ts, g in zip(seq, got):
                gt, gs, gts, graw = g.split(":")
                parsed = ref_parse_tags(tok_bytes(graw))
                if parsed != [(t, want_ts, p)] or num(gts) != want_ts:
                    return (False, "after re-stamping to %d the tag bytes carry %r and the header says %d" % (want_ts, parsed[0][1] if parsed else None, num(gts)))
            return (True, "")
        if op == "c11.wshdr":
            fin, r1, r2, r3, opc, plen, masked, key = [num(x) for x in f[1:]]
            if plen > 70000:
                return None
            hdr = tok_bytes(out)
            frames = ref_ws_frames(hdr + bytes(plen))
            want = (bool(fin), (r1 << 2) | (r2 << 1) | r3, opc, bool(masked))
            if len(frames) != 1:
                return (False, "ws header for a %d-byte payload followed by the payload parses as %d frames" % (plen, len(frames)))
            if len(frames[0][4]) != plen:
                return (False, "ws header declares payload length %d for a %d-byte payload" % (len(frames[0][4]), plen))
            return (frames[0][:4] == want, "ws header fields %r != %r" % (frames[0][:4], want))
        if op == "c11.read":
            data = tok_bytes(f[1])
            try:
                exp = None
                if len(data) >= 11:
                    size = int.from_bytes(data[1:4], "big")
                    if len(data) >= 15 + size:
                        exp = (data[0], size, int.from_bytes(data[4:7], "big") | (data[7] << 24), data[:15 + size], data[15 + size:])
            except Exception:
                exp = None
            if exp is None:
                return (out == "err", "short input must be an error")
            o = out.split(" ")
            if o[0] != "ok":
                return (False, "complete tag not read")
            bt, bs, bts, braw = o[1].split(":")
            return ((num(bt), num(bs), num(bts), tok_bytes(braw), tok_bytes(o[3])) == exp and tok_bytes(o[2]) == exp[3][11:-4], "ReadTag fields")
    except ValueError as e:
        return (False, "output is not a valid stream: %s" % e)
    return None


def neighbors(c, rng):
    f = c.line.split(" ")
    if f[0] == "c11.pack":
        for d in (-2, -1, 1, 2):
            n = max(0, len(tok_bytes(f[3])) + d)
            yield "c11.pack %s %s r%d.%d" % (f[1], f[2], n, rng.randrange(999))
        for ts in TSS:
            yield "c11.pack %s %d %s" % (f[1], ts, f[3])
