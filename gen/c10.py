# C10 - HLS playlists and segments are consistent at every instant.
#
# case:   c10.run <stream> <fragMs>:<fragNum>:<delThr>:<cleanup> <ev>,<ev>,...
#   N | P:<patpmt> | A|V:<pts>:<dts>:<boundary>:<now>:<tsPackets> | D | C      (see harness/cmd/lalprobe/c10.go)
# output: ops <op>;<op>;... files <name>=<c|o>:<hex>,...
# case:   c10.sm <stream> <fragMs>:<fragNum>:<delThr>:<cleanup> <ev>,...     the server level on the real ServerManager
#   N (publish) | P | A|V | D (stop: arms the real delayed cleanup) | T (housekeeping tick) | C (wait for the oldest
#   armed cleanup to run)                                                     (see harness/cmd/lalprobe/c10srv.go)
# output: ev <ops of event 1>|<ops of event 2>|... files ...
#
# The oracle below re-plays the implementation's operation log on its own file
# system and evaluates the property on EVERY prefix, with an m3u8 parser written
# from RFC 8216 (nothing of lal or of the Coq model is used).
import functools
from lib.vf import Case
from gen.common import *

ID = "C10"
RULE = ("boundary sweep of segment durations around fragment_duration_ms (in ms and in single 90 kHz ticks), forced splits at "
        "10x the target and at 1 s backwards, target-duration rounding points, every fragment_num{1,3,6} x delete_threshold{0,1,2} x "
        "cleanup_mode{0,1,2} ring run past the ring capacity, audio-only, no key frames, PAT/PMT change, re-publish with and without "
        "the deferred directory cleanup (chains of publications, publications that close nothing), then seeded random frame sequences; "
        "the server level on the real ServerManager (c10.sm): after a stopped publication every word over {housekeeping tick, "
        "re-publish, delayed cleanup fires, stop} up to length 3 (4 in the thorough tier), i.e. the cleanup firing before, between "
        "and after 'tick erases the group' / 're-publish creates a fresh group'; a case is non-trivial when the model output contains "
        "at least one playlist write; distinct = distinct (class, config, number of operations, number of segments) resp. the word")
ASSUMPTIONS = ["file-system-layer calls succeed and are atomic (crash points are between two calls)",
               "the muxer is driven directly with (tsPackets, frame, boundary) as Rtmp2MpegtsRemuxer / logic.Group do; the observer "
               "(OnFragmentOpen -> FlushAudio re-entrancy) is nil",
               "c10.run replays ServerManager.CleanupHlsIfNeeded's deferred task in the harness (RemoveAll unless a muxer is alive); "
               "c10.sm and c10.cleanup run the real closure on its real timer (naza defertaskthread), the delay shortened by "
               "configuration only; a script event placed before a timer must have completed before it fires (checked; the attempt "
               "is repeated otherwise)",
               "the property clauses about TS packets are evaluated when the fed data are whole 188-byte packets and a 376-byte "
               "PAT/PMT was fed first (as mpegts does); other inputs are compared model == implementation only"]
FULL_OUTPUT = True
TIMEOUT = 900

ROOT = "/v"
NOW0 = 1700000000000

PAT_HDR = "47400010"
PMT_HDR = "47500110"


def patpmt(k=0):
    return "%s+r184.%d+%s+r184.%d" % (PAT_HDR, 250 - 2 * k, PMT_HDR, 249 - 2 * k)


def pkts(audio, idx, n=1):
    """n TS packets for frame number idx (distinct pseudo-random payloads)"""
    out = []
    for j in range(n):
        pid = "0101" if audio else "0100"
        pusi = "4" if j == 0 else "0"
        out.append("47%s%s1%x+r184.%d" % (pusi, pid[1:], (idx + j) & 15, (idx * 3 + j) % 240))
    return "+".join(out)


class Sc:
    """scenario builder"""

    def __init__(self, stream="s1", now=NOW0):
        self.ev = []
        self.n = 0
        self.now = now
        self.stream = stream

    def N(self):
        self.ev.append("N"); return self

    def D(self):
        self.ev.append("D"); return self

    def C(self):
        self.ev.append("C"); return self

    def T(self):
        self.ev.append("T"); return self

    def line_sm(self, ms, num, thr, mode, sw=None):
        return "c10.sm %s %d:%d:%d:%d%s %s" % (self.stream, ms, num, thr, mode, ":" + sw if sw else "", ",".join(self.ev) if self.ev else "-")

    def P(self, k=0, raw=None):
        self.ev.append("P:" + (raw if raw is not None else patpmt(k))); return self

    def F(self, ticks, boundary, audio=False, npk=1, dts=None, raw=None, dnow=40):
        self.now += dnow
        self.n += 1
        a = "A" if audio else "V"
        pts = ticks
        d = ticks if dts is None else dts
        self.ev.append("%s:0x%x:0x%x:%d:%d:%s" % (a, pts, d, 1 if boundary else 0, self.now, raw if raw is not None else pkts(audio, self.n, npk)))
        return self

    def V(self, ms, key, **kw):
        return self.F(ms * 90, key, **kw)

    def A(self, ms, boundary=False, **kw):
        return self.F(ms * 90, boundary, audio=True, **kw)

    def line(self, ms, num, thr, mode):
        return "c10.run %s %d:%d:%d:%d %s" % (self.stream, ms, num, thr, mode, ",".join(self.ev) if self.ev else "-")


def steady(sc, t0, nseg, seg_ms, per_seg=3, audio=False, npk=1, audio_only=False):
    """nseg segments of seg_ms each, per_seg frames per segment, key frame first"""
    t = t0
    step = seg_ms // per_seg
    for s in range(nseg):
        for k in range(per_seg):
            if audio_only:
                sc.A(t, boundary=True, npk=npk)
            else:
                sc.V(t, k == 0, npk=npk)
                if audio:
                    sc.A(t + 1)
            t += step if k < per_seg - 1 else seg_ms - step * (per_seg - 1)
    return t


def gen_cases(tier, rng):
    Q = tier != "thorough"
    # ---- (i) boundary sweep ------------------------------------------------
    # durations around the target, in ms and in single ticks
    for ms in ([1000, 3000, 3900] if Q else [500, 1000, 1500, 3000, 3900, 5000]):
        T = ms * 90
        for d in [T - 90, T - 1, T, T + 1, T + 90, 2 * T]:
            for d2 in [T - 1, T, 45000, 44999]:
                sc = Sc().N().P()
                sc.F(1000, True).F(1000 + d // 2, False).F(1000 + d, True).F(1000 + d + d2, True).F(1000 + d + d2 + 7, False)
                sc.F(1000 + d + d2 + T, True).D()
                yield Case(sc.line(ms, 3, 1, 0), cls="dur-boundary")
    # forced split: 10x forward, 1 s backward
    for ms in [1000, 3000]:
        M = ms * 900
        for j in [M - 1, M, M + 1, M + 90000]:
            for b2 in (0, 1):
                sc = Sc().N().P().F(5000000, True).F(5000000 + 90 * ms + 5, False).F(5000000 + j, bool(b2)).F(5000000 + j + 90, False)
                sc.F(5000000 + j + 90 * ms, True).D()
                yield Case(sc.line(ms, 3, 0, 2), cls="force-forward")
        for back in [89999, 90000, 90001, 180000, 4999999, 5000000]:
            for b2 in (0, 1):
                for first_long in (0, 1):
                    sc = Sc().N().P().F(5000000, True)
                    if first_long:
                        sc.F(5000000 + 90 * ms, False)
                    sc.F(5000000 - back, bool(b2)).F(5000000 - back + 900, False).F(5000000 - back + 90 * ms, True)
                    sc.F(5000000 - back + 180 * ms, True).D()
                    yield Case(sc.line(ms, 3, 1, rng.choice([0, 1, 2])), cls="force-backward")
    # target-duration rounding (F-16 and relatives)
    for ms, durs in [(3900, [3800]), (3900, [3900, 3800]), (3000, [3200, 3600]), (3000, [3600, 3200]), (3000, [3499]), (3000, [3500]),
                     (3000, [3501]), (3499, [3000]), (3500, [3000]), (3501, [3000]), (1000, [1499, 1500, 1501, 2499, 2500, 2501]),
                     (500, [400, 499, 500, 501]), (1499, [1000]), (1500, [1000]), (2500, [2400, 2600]), (4400, [4400, 4600, 4400]),
                     (3000, [3200, 3700, 3000, 3000, 3000, 3000]), (3000, [7000, 3000, 3000, 3000, 3000])]:
        for mode in (0, 2):
            sc = Sc().N().P()
            t = 777
            for d in durs:
                sc.V(t, True)
                sc.V(t + d, False)       # stretches the segment to d, no boundary
                t += d + 1
            sc.D()
            yield Case(sc.line(ms, 3, 1, mode), cls="target-rounding")
    # sub-millisecond durations close to the printing / rounding ties
    for d in [44955, 44954, 44956, 45000, 5625, 134955, 135000, 314964, 315000, 314999, 90000 * 3 + 44999, 45, 135, 1, 89, 91]:
        sc = Sc().N().P().F(123456, True).F(123456 + d, False).D()
        yield Case(sc.line(1000, 3, 1, 0), cls="submilli")
    # ring: every configuration, run past the ring capacity
    for num in [1, 3, 6]:
        for thr in [0, 1, 2]:
            for mode in [0, 1, 2]:
                sc = Sc().N().P()
                t = steady(sc, 100, num + thr + 4, 1000, per_seg=2)
                sc.V(t, True)
                yield Case(sc.line(1000, num, thr, mode), cls="ring-live")      # still live
                sc.D()
                yield Case(sc.line(1000, num, thr, mode), cls="ring")
                sc.C()
                yield Case(sc.line(1000, num, thr, mode), cls="ring-cleanup")
    # audio only, no key frames at all, frames before the first boundary, PAT/PMT change
    for mode in [0, 2]:
        sc = Sc().N().P(); steady(sc, 0, 6, 1000, per_seg=4, audio_only=True); sc.D()
        yield Case(sc.line(1000, 3, 1, mode), cls="audio-only")
        sc = Sc().N().P()
        for k in range(30):
            sc.V(50 + k * 900, False)
        sc.D()
        yield Case(sc.line(1000, 3, 1, mode), cls="no-keyframe-never-opens")
        sc = Sc().N().P().V(0, True)
        for k in range(1, 30):
            sc.V(k * 900, False)
        sc.D()
        yield Case(sc.line(1000, 3, 1, mode), cls="no-keyframe-forced")
        sc = Sc().N().P().V(0, False).A(10).V(40, False).V(80, True).V(1200, True).D()
        yield Case(sc.line(1000, 3, 1, mode), cls="late-first-key")
        sc = Sc().N().P(0); t = steady(sc, 0, 2, 1000); sc.P(1); t = steady(sc, t, 3, 1000); sc.D()
        yield Case(sc.line(1000, 3, 1, mode), cls="patpmt-change")
        sc = Sc().N().P(); t = steady(sc, 0, 5, 1000, audio=True, npk=2); sc.D()
        yield Case(sc.line(1000, 3, 0, mode), cls="av")
    # re-publish of the same stream name
    for mode in [0, 1, 2]:
        for cleanup in ["", "C", "Clive"]:
            for n1, n2 in [(5, 2), (2, 5), (1, 1)]:
                sc = Sc().N().P(); steady(sc, 0, n1, 1000, per_seg=2); sc.V(n1 * 1000, True)
                if cleanup == "Clive":
                    sc.C()
                sc.D()
                if cleanup == "C":
                    sc.C()
                sc.now += 5000
                sc.N().P(); steady(sc, 0, n2, 1000, per_seg=2); sc.V(n2 * 1000, True); sc.D()
                yield Case(sc.line(1000, 3, 1, mode), cls="republish" + ("-cleanup" if cleanup == "C" else "-alive-cleanup" if cleanup else ""))
    # re-publish chains: the numbering carries on over three publications and past the ring capacity, after a
    # publication that closed nothing / fed nothing, with a forced split at the first frame, in every cleanup mode
    for mode in [0, 1, 2]:
        for num, thr in [(1, 0), (3, 1), (6, 2)]:
            sc = Sc().N().P(); steady(sc, 0, num + 1, 1000, per_seg=2); sc.V((num + 1) * 1000, True).D()
            sc.now += 3000
            sc.N().P().D()                                           # a publication that feeds nothing
            sc.N().P().V(0, False).V(40, False).D()                  # ... and one that never opens a segment
            sc.N().P(1); steady(sc, 5000, thr + 2, 1000, per_seg=2); sc.V(5000 + (thr + 2) * 1000, True).D()
            sc.now += 3000
            sc.N().P().V(0, True).V(20000, False).V(21000, True).D()  # forced split inside the third publication
            yield Case(sc.line(1000, num, thr, mode), cls="republish-chain")
        sc = Sc().N().P().V(0, True).D().N().P().V(0, True).D().N().P().V(0, True).V(1000, True).D()
        yield Case(sc.line(1000, 2, 0, mode), cls="republish-chain")
    # the real ServerManager.CleanupHlsIfNeeded deferred task, with and without a live muxer
    for mode in [0, 1, 2]:
        for alive in [1, 0]:
            yield Case("c10.cleanup %d %d" % (mode, alive), cls="server-manager-cleanup")
    # the server level: publish / stop (arms the REAL delayed cleanup) / housekeeping tick (erases the idle group) /
    # re-publish (fresh group) / the cleanup firing, in every order.  After a first publication that is stopped,
    # every word over {T tick, R re-publish + 2 segments, C wait for the oldest cleanup, D stop} up to a length;
    # then more frames when a publisher is live, stop, and all pending cleanups.
    import itertools
    def sm_script(word, ms, n1=3):
        sc = Sc().N().P()
        t = steady(sc, 0, n1, ms, per_seg=2); sc.V(t, True); sc.D()
        live, pend, t = False, 1, 0
        for w in word:
            if w == "T":
                sc.T()
            elif w == "R":
                if not live:
                    sc.now += 500
                    sc.N().P(); t = steady(sc, 0, 2, ms, per_seg=2); sc.V(t, True); live = True
                else:
                    sc.N()                     # refused: already has a publisher
            elif w == "C":
                sc.C(); pend = max(0, pend - 1)
            elif w == "D":
                if live:
                    pend += 1
                sc.D(); live = False
        if live:
            t = steady(sc, t + ms, 2, ms, per_seg=2); sc.V(t, True); sc.D(); pend += 1
        for _ in range(pend):
            sc.C()
        return sc
    words = []
    for n in (1, 2, 3) if Q else (1, 2, 3, 4):
        words += ["".join(w) for w in itertools.product("TRCD", repeat=n)]
    key_words = ["TRC", "TCR", "CTR", "RTC", "RCT", "RC", "TR", "TRDCC", "TRDCTRC", "TRDTRCC", "RDTRCC", "TTRC"]
    for mode, (ms, num, thr) in [(1, (20, 2, 1)), (2, (25, 1, 1)), (0, (50, 1, 0))]:
        if mode == 1:
            ws = [w for w in words if "R" in w] + key_words[7:]
        elif mode == 2:
            ws = key_words + ([] if Q else [w for w in words if "R" in w])
        else:
            ws = ["TRC", "RC", "TCR"]
        seen = set()
        for w in ws:
            if w in seen:
                continue
            seen.add(w)
            yield Case(sm_script(w, ms).line_sm(ms, num, thr, mode), cls="server-" + ("republish-after-erase" if "TR" in w.replace("C", "") else "interleaving"))
    # hls.enable / hls.enable_https: on the https port only (01), on both (11), off (00 = no muxer, no call at all).
    # Start, stop and cleanup test the switches in three places; every configuration that starts a muxer must
    # finalise it when the input ends and arm the delayed cleanup as the cleanup mode says.
    for sw in ["01", "11", "00"]:
        for mode, (ms, num, thr) in [(1, (20, 2, 1)), (2, (25, 1, 1)), (0, (50, 1, 0))]:
            for w in (["", "C", "TRC", "RC", "TCR", "RDC"] if sw != "00" else ["", "TRC"]):
                yield Case(sm_script(w, ms).line_sm(ms, num, thr, mode, sw), cls="server-switches-" + sw)
    # hostile / degenerate inputs: compared model == implementation only
    sc = Sc().P().V(0, True).D().C()
    yield Case(sc.line(1000, 3, 1, 0), cls="degenerate")
    yield Case(Sc().line(1000, 3, 1, 0), cls="degenerate")
    yield Case(Sc().N().D().line(1000, 3, 1, 0), cls="degenerate")
    yield Case(Sc().N().N().V(0, True).V(1000, True).D().D().V(2000, True).line(1000, 3, 1, 0), cls="degenerate")     # no PAT/PMT
    yield Case(Sc().N().P(raw="-").V(0, True).V(1000, True).D().line(1000, 1, 0, 2), cls="degenerate")
    yield Case(Sc().N().P().F(0, True, raw="r100.1").F(90000, True, raw="-").F(180000, True, raw="r189.2").D().line(1000, 1, 0, 1), cls="degenerate")
    sc = Sc().N().P().F(0, True, dts=90000).F(90000, False, dts=0).F(0, True, audio=True, dts=900000).D()     # audio uses pts, video dts
    yield Case(sc.line(1000, 2, 0, 0), cls="pts-dts")
    for ts in [(1 << 64) - 1, (1 << 63), (1 << 33) - 1]:
        sc = Sc().N().P().F(ts - 180000, True).F(ts - 90000, True).F(ts, True).F(5, True).F(90005, True).D()
        yield Case(sc.line(1000, 2, 1, 2), cls="huge-ts")

    # ---- (ii) structured random -----------------------------------------------
    n = 260 if Q else 4000
    for _ in range(n):
        ms = rng.choice([500, 1000, 1000, 2000, 3000, 3900])
        num = rng.choice([1, 3, 6]); thr = rng.choice([0, 1, 2]); mode = rng.choice([0, 1, 2])
        sc = Sc(stream=rng.choice(["s1", "live", "x-1-2", "a.b"]))
        sessions = rng.choice([1, 1, 1, 2, 3])
        for s in range(sessions):
            sc.N().P(rng.choice([0, 0, 1]))
            t = rng.choice([0, 1, 1000, 5000000, 1 << 32]) * 90
            submilli = rng.random() < 0.25
            audio_only = rng.random() < 0.15
            nfr = rng.randrange(1, 45 if Q else 120)
            for i in range(nfr):
                r = rng.random()
                if r < 0.04:
                    t += ms * 900 + rng.choice([-1, 0, 1, 90, 100000])          # forward jump
                elif r < 0.08:
                    t = max(0, t - rng.choice([89999, 90000, 90001, 200000, 10 ** 7]))   # backward jump
                elif r < 0.6:
                    t += rng.choice([ms * 90 // 4, ms * 90 // 3, ms * 90 // 2, ms * 90, 3600, 1800])
                else:
                    t += rng.choice([90, 900, 3000, 45000, ms * 45 + 45, ms * 90 - 1, ms * 90 + 1])
                if submilli:
                    t += rng.randrange(90)
                if audio_only or rng.random() < 0.3:
                    sc.F(t, audio_only or rng.random() < 0.05, audio=True, npk=rng.choice([1, 1, 2]))
                else:
                    sc.F(t, rng.random() < 0.35, npk=rng.choice([1, 1, 2, 3]))
                if rng.random() < 0.02:
                    sc.P(rng.choice([0, 1]))
                if rng.random() < 0.02:
                    sc.C()
            if s < sessions - 1 or rng.random() < 0.8:
                sc.D()
                if rng.random() < 0.5:
                    sc.C()
            sc.now += rng.choice([1, 1000, 100000])
        yield Case(sc.line(ms, num, thr, mode), cls="random")


def nontrivial(c, out):
    if c.line.startswith("c10.cleanup"):
        return c.line
    if c.line.startswith("c10.sm"):
        f = c.line.split(" ")
        if f[2].endswith(":00") and out.startswith("ev "):
            return "%s|%s" % (c.cls, f[2])
        if not out.startswith("ev ") or ";rn:" not in out:
            return None
        return "%s|%s|%s" % (c.cls, f[2], "".join(e[0] for e in f[3].split(",") if e[0] in "NDTC"))
    if not out.startswith("ops ") or ";rn:" not in out:
        return None
    f = c.line.split(" ")
    ops = out.split(" ")[1]
    return "%s|%s|%d|%d" % (c.cls, f[2], ops.count(";"), ops.count("cr:"))


# ---------------------------------------------------------------- reference
@functools.lru_cache(maxsize=4096)
def _tok(t):
    return tok_bytes(t)


def tokb(t):
    if "+" in t:
        return b"".join(_tok(x) for x in t.split("+"))
    return _tok(t)


class M3u8Error(Exception):
    pass


def parse_m3u8(text):
    """RFC 8216 media playlist -> dict(target, seq, segs=[(dur_ms, uri, discont)], end).  Raises M3u8Error
    unless the text is a COMPLETE well-formed playlist (4.1: UTF-8 lines ending in LF; 4.3.1.1 EXTM3U first;
    4.3.3.1 TARGETDURATION required; every EXTINF followed by its URI; nothing after ENDLIST)."""
    try:
        s = text.decode("utf-8")
    except UnicodeDecodeError:
        raise M3u8Error("not utf-8")
    if not s.endswith("\n"):
        raise M3u8Error("last line not terminated")
    lines = s[:-1].split("\n")
    if not lines or lines[0] != "#EXTM3U":
        raise M3u8Error("first line is not #EXTM3U")
    target = None; seq = None; version = None
    segs = []; pend = None; disc = False; end = False
    for ln in lines[1:]:
        if end and ln != "":
            raise M3u8Error("content after #EXT-X-ENDLIST")
        if ln == "":
            continue
        if ln.startswith("#EXT"):
            tag, _, val = ln.partition(":")
            if tag == "#EXT-X-VERSION":
                if version is not None or not val.isdigit():
                    raise M3u8Error("bad version")
                version = int(val)
            elif tag == "#EXT-X-TARGETDURATION":
                if target is not None or not val.isdigit():
                    raise M3u8Error("bad target duration")
                target = int(val)
            elif tag == "#EXT-X-MEDIA-SEQUENCE":
                if seq is not None or not val.isdigit() or segs or pend is not None:
                    raise M3u8Error("bad media sequence")
                seq = int(val)
            elif tag == "#EXT-X-ALLOW-CACHE":
                if val not in ("YES", "NO"):
                    raise M3u8Error("bad allow-cache")
            elif tag == "#EXT-X-DISCONTINUITY":
                if val or pend is not None:
                    raise M3u8Error("bad discontinuity")
                disc = True
            elif tag == "#EXTINF":
                if pend is not None:
                    raise M3u8Error("EXTINF without URI")
                d, comma, _title = val.partition(",")
                ip, dot, fp = d.partition(".")
                if not ip.isdigit() or (dot and not fp.isdigit()):
                    raise M3u8Error("bad EXTINF duration %r" % d)
                fp = (fp + "000")[:3] if len(fp) <= 3 else None
                if fp is None:
                    raise M3u8Error("more than 3 decimals")
                pend = int(ip) * 1000 + int(fp)
            elif tag == "#EXT-X-ENDLIST":
                if val or pend is not None:
                    raise M3u8Error("bad endlist")
                end = True
            else:
                raise M3u8Error("unknown tag " + tag)
        elif ln.startswith("#"):
            continue
        else:
            if pend is None:
                raise M3u8Error("URI without EXTINF")
            segs.append((pend, ln, disc))
            pend = None; disc = False
    if pend is not None or disc:
        raise M3u8Error("dangling EXTINF / DISCONTINUITY")
    if target is None:
        raise M3u8Error("no EXT-X-TARGETDURATION")
    return dict(target=target, seq=seq or 0, segs=segs, end=end)


def parse_case(line):
    f = line.split(" ")
    stream = f[1]
    ms, num, thr, mode = [int(x) for x in f[2].split(":")[:4]]
    evs = [] if f[3] == "-" else [e.split(":") for e in f[3].split(",")]
    return stream, (ms, num, thr, mode), evs


def parse_groups(out):
    """c10.sm: the calls of each event"""
    f = out.split(" ")
    if len(f) != 4 or f[0] != "ev" or f[2] != "files":
        raise ValueError("unparsable output")
    if f[1] == "-":
        return []
    return [[] if g == "-" else [o.split(":") for o in g.split(";")] for g in f[1].split("|")]


def parse_out(out):
    f = out.split(" ")
    if len(f) != 4 or f[0] not in ("ops", "ev") or f[2] != "files":
        raise ValueError("unparsable output")
    if f[0] == "ev":
        ops = [o for g in parse_groups(out) for o in g]
    else:
        ops = [] if f[1] == "-" else [o.split(":") for o in f[1].split(";")]
    files = {}
    if f[3] != "-":
        for it in f[3].split(","):
            name, _, rest = it.partition("=")
            st, _, hx = rest.partition(":")
            files[name] = (bytes.fromhex(hx) if hx != "-" else b"", st == "c")
    return ops, files


def hexb(h):
    return b"" if h == "-" else bytes.fromhex(h)


def pid_of(pkt):
    return ((pkt[1] & 0x1F) << 8) | pkt[2]


def check(line, out):
    """returns list of (kind, message) failures of C10 on this observation; [] = holds; None = not applicable"""
    stream, (ms, num, thr, mode), evs = parse_case(line)
    ops, files = parse_out(out)
    d = ROOT + "/" + stream
    live, rec = d + "/playlist.m3u8", d + "/record.m3u8"

    # what was fed, per session (N .. D)
    sessions = []       # dict(frames=[(bytes, boundary)], patpmts=[(frame_index_before, bytes)], disposed)
    cur = None
    clean = True
    for e in evs:
        k = e[0]
        if k == "N":
            if cur is None:
                cur = dict(frames=[], pp=[], disposed=False)
                sessions.append(cur)
        elif cur is None:
            continue
        elif k == "P":
            b = tokb(e[1])
            if len(b) != 376 or b[0] != 0x47 or b[188] != 0x47 or pid_of(b[:188]) != 0:
                clean = False
            cur["pp"].append((len(cur["frames"]), b))
        elif k in ("A", "V"):
            b = tokb(e[5])
            if len(b) % 188 or len(b) == 0:
                clean = False
            if not cur["pp"]:
                clean = False
            cur["frames"].append((b, e[3] == "1"))
        elif k == "D":
            cur["disposed"] = True
            cur = None
    if not clean:
        return None

    fails = []
    if line.startswith("c10.sm"):
        # the delayed cleanup never removes the directory while a publisher (hence a muxer) is live for the name,
        # and nothing but a delayed cleanup ever removes it: liveness is read off the SCRIPT (N .. D), the
        # removal off the implementation's calls
        groups = parse_groups(out)
        cff = line.split(" ")[2].split(":")
        sw = cff[4] if len(cff) > 4 else "10"
        if sw == "00":
            # hls is off: no muxer, hence no call at all
            if any(g for g in groups):
                fails.append(("ops", "hls.enable and hls.enable_https are off but the hls file-system layer was called"))
            return fails
        # the delayed cleanup is armed as the cleanup mode says: a firing that finds no publisher removes the directory
        pend, alive0 = 0, False
        for n, (e, g) in enumerate(zip(evs, groups)):
            if e[0] == "N":
                alive0 = True
            elif e[0] == "D":
                if alive0 and mode in (1, 2):
                    pend += 1
                alive0 = False
            elif e[0] == "C" and pend > 0:
                pend -= 1
                if not alive0 and not any(o[0] == "ra" for o in g):
                    fails.append(("cleanup-armed", "event %d (C): cleanup mode %d, no publisher, but the stream directory was not removed" % (n, mode)))
        if len(groups) != len(evs):
            fails.append(("ops", "%d events but %d groups of calls" % (len(evs), len(groups))))
        alive = False
        for n, (e, g) in enumerate(zip(evs, groups)):
            for o in g:
                if o[0] == "ra":
                    if alive:
                        fails.append(("cleanup-live", "event %d (%s): the stream directory was removed while a publisher is live" % (n, e[0])))
                    elif e[0] != "C":
                        fails.append(("cleanup-live", "event %d (%s) removed the stream directory" % (n, e[0])))
                elif e[0] in ("T", "C"):
                    fails.append(("ops", "event %d (%s) made the call %s" % (n, e[0], o[0])))
            if e[0] == "N":
                alive = True
            elif e[0] == "D":
                alive = False
    fsys = {}           # name -> [bytearray, closed]
    versions = []       # parsed live playlists, one per replacement of the live file
    last_seq = None
    created = []        # per session: ts files in creation order
    sess = -1
    seg_writes = {}     # name -> list of payloads written through the handle (current incarnation)
    republished = False

    def consistent(i):
        """state predicate after op i"""
        if live not in fsys:
            return
        try:
            pl = parse_m3u8(bytes(fsys[live][0]))
        except M3u8Error as e:
            fails.append(("wellformed", "after op %d: live playlist is not a complete playlist: %s" % (i, e)))
            return
        for (dur, uri, disc) in pl["segs"]:
            if pl["target"] < (dur + 500) // 1000:
                fails.append(("target", "after op %d: #EXT-X-TARGETDURATION:%d but #EXTINF:%d.%03d rounds to %d" % (
                    i, pl["target"], dur // 1000, dur % 1000, (dur + 500) // 1000)))
        hist = versions[-(thr + 1):] if versions else []
        cur_uris = [u for (_, u, _) in pl["segs"]]
        for vi, v in enumerate(hist):
            for (dur, uri, disc) in v["segs"]:
                if d + "/" + uri not in fsys:
                    fails.append(("exists", "after op %d: segment %s listed by %s is gone" % (
                        i, uri, "the current playlist" if uri in cur_uris else "one of the last %d playlist versions" % (thr + 1))))
        for (dur, uri, disc) in pl["segs"]:
            f = fsys.get(d + "/" + uri)
            if f is None:
                if not hist:
                    fails.append(("exists", "after op %d: listed segment %s does not exist" % (i, uri)))
                continue
            data, closed = f
            if not closed:
                fails.append(("closed", "after op %d: listed segment %s is still open" % (i, uri)))
            if len(data) % 188:
                fails.append(("packets", "after op %d: listed segment %s has %d bytes" % (i, uri, len(data))))
            if len(data) < 376 or data[0] != 0x47 or data[188] != 0x47 or pid_of(data[:188]) != 0 or pid_of(data[188:376]) == 0:
                fails.append(("patpmt", "after op %d: listed segment %s does not begin with PAT/PMT" % (i, uri)))
            w = seg_writes.get(d + "/" + uri)
            if w is not None and len(w) >= 2 and not disc:
                if not w[1][1]:
                    fails.append(("keyframe", "after op %d: listed segment %s starts at a non-boundary frame without discontinuity" % (i, uri)))

    def pp_for(S, j):
        want = None
        for (idx, pp) in S["pp"]:
            if idx <= j:
                want = pp
        return want

    def session_end(sess, disposed):
        S = sessions[sess]
        first_boundary = next((j for j, (_, bd) in enumerate(S["frames"]) if bd), None)
        if first_boundary is None:
            if first_written is not None:
                fails.append(("keyframe", "session %d: a segment was opened although no boundary frame was fed" % sess))
        elif first_written != first_boundary:
            fails.append(("loss", "session %d: the first boundary frame is frame %d but segments start with frame %s" % (sess, first_boundary, first_written)))
        elif fi != len(S["frames"]):
            fails.append(("loss", "session %d: frames %d.. of %d were fed after the first open but never written" % (sess, fi, len(S["frames"]))))
        if not disposed or not created[sess]:
            return
        if live not in fsys:
            fails.append(("final", "session %d ended but there is no live playlist" % sess))
        else:
            try:
                pl = parse_m3u8(bytes(fsys[live][0]))
                if not pl["end"]:
                    fails.append(("final", "session %d ended but the live playlist has no #EXT-X-ENDLIST" % sess))
            except M3u8Error:
                pass
        if mode != 2:
            rp = None
            try:
                rp = parse_m3u8(bytes(fsys[rec][0])) if rec in fsys else None
            except M3u8Error as e:
                fails.append(("final", "record playlist unparsable: %s" % e))
            if rp is None:
                fails.append(("final", "session %d ended, cleanup mode %d, but no (parsable) record playlist" % (sess, mode)))
            else:
                uris = [u for (_, u, _) in rp["segs"]]
                want = [n[len(d) + 1:] for n in created[sess]]
                if uris[-len(want):] != want:
                    fails.append(("final", "record playlist does not list every segment of session %d in order" % sess))
                if not rp["end"]:
                    fails.append(("final", "record playlist has no end marker"))
                for (dur, uri, disc) in rp["segs"][-len(want):]:
                    if d + "/" + uri not in fsys:
                        fails.append(("final", "record playlist lists %s which does not exist" % uri))

    # replay
    fi = 0              # index of the next frame of the current session expected to be written
    first_written = None
    pending_pp = None   # PAT/PMT written to the first segment, checked once the opening frame is known
    session_versions = 0
    first_id = 0
    for i, o in enumerate(ops):
        k = o[0]
        S = sessions[sess] if 0 <= sess < len(sessions) else None
        if k == "mk":
            sess += 1
            if sess >= len(sessions):
                fails.append(("ops", "more MkdirAll calls than sessions"))
                break
            created.append([])
            fi = 0
            first_written = None
            pending_pp = None
            session_versions = 0
            # a muxer that finds a live playlist carries on with its numbering (media sequence, segment ids)
            first_id = 0
            if live in fsys:
                try:
                    pl0 = parse_m3u8(bytes(fsys[live][0]))
                    first_id = pl0["seq"] + len(pl0["segs"])
                except M3u8Error:
                    pass
        elif S is None:
            if k != "ra":
                fails.append(("ops", "op %d (%s) before any session" % (i, k)))
                break
            for n in [n for n in fsys if n.startswith(o[1] + "/")]:
                del fsys[n]
        elif k == "cr":
            if created[sess] and not fsys.get(created[sess][-1], [None, True])[1]:
                fails.append(("closed", "op %d: new segment created while %s is still open" % (i, created[sess][-1])))
            fsys[o[1]] = [bytearray(), False]
            seg_writes[o[1]] = []
            created[sess].append(o[1])
            ids = [int(n.rsplit("-", 1)[1][:-3]) for n in created[sess]]
            if ids != list(range(first_id, first_id + len(ids))):
                fails.append(("loss", "op %d: segment ids of the session are %s, expected to start at %d" % (i, ids[-3:], first_id)))
        elif k == "wr":
            b = hexb(o[2])
            if o[1] in fsys:
                fsys[o[1]][0] += b
            w = seg_writes.setdefault(o[1], [])
            if not created[sess] or o[1] != created[sess][-1]:
                fails.append(("loss", "op %d: write to %s which is not the newest segment" % (i, o[1])))
            if not w:
                # first write of a segment: the PAT/PMT in force
                if first_written is None:
                    pending_pp = (i, b)
                elif b != pp_for(S, fi):
                    fails.append(("patpmt", "op %d: %s does not start with the PAT/PMT in force" % (i, o[1])))
                w.append((b, True))
            else:
                if first_written is None:
                    j = 0
                    while j < len(S["frames"]) and S["frames"][j][0] != b:
                        j += 1
                    if j == len(S["frames"]):
                        fails.append(("loss", "op %d: written data are not a fed frame" % i))
                        j = 0
                    first_written = j
                    fi = j
                    if pending_pp is not None and pending_pp[1] != pp_for(S, j):
                        fails.append(("patpmt", "op %d: the first segment does not start with the PAT/PMT in force" % pending_pp[0]))
                if fi < len(S["frames"]) and S["frames"][fi][0] == b:
                    w.append((b, S["frames"][fi][1]))
                    fi += 1
                else:
                    fails.append(("loss", "op %d: frame written out of order / twice / not fed (expected frame %d)" % (i, fi)))
                    w.append((b, True))
        elif k == "cl":
            if o[1] in fsys:
                fsys[o[1]][1] = True
        elif k == "wf":
            fsys[o[1]] = [bytearray(hexb(o[2])), True]
        elif k == "rn":
            if o[1] in fsys:
                fsys[o[2]] = fsys.pop(o[1])
                if o[2] == live:
                    try:
                        pl = parse_m3u8(bytes(fsys[live][0]))
                        if last_seq is not None and pl["seq"] < last_seq:
                            fails.append(("seq", "op %d: media sequence went from %d to %d%s" % (
                                i, last_seq, pl["seq"], " (first playlist of a re-publication)" if session_versions == 0 else "")))
                        last_seq = pl["seq"]
                        versions.append(pl)
                        session_versions += 1
                    except M3u8Error:
                        pass      # reported by consistent()
        elif k == "rm":
            fsys.pop(o[1], None)
        elif k == "ra":
            for n in [n for n in fsys if n.startswith(o[1] + "/")]:
                del fsys[n]
            versions = []
            last_seq = None
        elif k == "rd":
            if (o[2] == "1") != (o[1] in fsys):
                fails.append(("fs", "op %d: ReadFile result differs from the replayed file system" % i))
        else:
            fails.append(("ops", "unknown op " + k))
        consistent(i)
        if len(fails) > 12:
            break
        # end of a session: the ops of Dispose are the last before the next mk / ra / end
        nxt = ops[i + 1][0] if i + 1 < len(ops) else None
        if nxt in (None, "mk", "ra") and k != "ra" and 0 <= sess < len(sessions):
            if sessions[sess]["disposed"] or nxt is None:
                session_end(sess, sessions[sess]["disposed"])
    # the replayed file system must be the directory the implementation ended with
    mine = {n: (bytes(v[0]), v[1]) for n, v in fsys.items()}
    if mine != files and len(fails) <= 12:
        fails.append(("fs", "final directory differs from the replay of the operation log (%s)" % sorted(set(mine) ^ set(files))[:4]))
    return fails


def oracle(c, out):
    if out.startswith(("panic@", "crash@", "timeout")):
        return (False, "implementation crashed: " + out)
    if c.line.startswith("c10.cleanup"):
        f = out.split(" ")
        if len(f) != 4 or f[0] != "ops" or f[2] != "then":
            return (False, "unreadable observation")
        if c.line.endswith(" 1") and "ra:" in f[1]:
            return (False, "the deferred cleanup removed the directory of a stream whose muxer is alive: " + f[1])
        return (True, "")
    try:
        fails = check(c.line, out)
    except Exception as e:      # unparsable observation
        return (False, "oracle could not read the observation: %r" % (e,))
    if fails is None:
        return None
    if not fails:
        return (True, "")
    return (False, "; ".join("%s: %s" % f for f in fails[:4]))


def classify_finding(c, out):
    if c.line.startswith("c10.cleanup"):
        return None
    return None       # both listed findings are fixed in lal: nothing is excused


def neighbors(c, rng):
    """cases near a disagreement: drop events, change the configuration"""
    f = c.line.split(" ")
    if f[0] == "c10.sm":
        evs = f[3].split(",") if f[3] != "-" else []
        ctl = [i for i, e in enumerate(evs) if e in ("T", "C", "D", "N")]
        for _ in range(24):
            e2 = list(evs)
            r = rng.random()
            if r < 0.4 and len(ctl) >= 2:
                i, j = rng.sample(ctl, 2)
                e2[i], e2[j] = e2[j], e2[i]
            elif r < 0.7 and ctl:
                del e2[rng.choice(ctl)]
            else:
                e2.insert(rng.randrange(len(e2) + 1), rng.choice(["T", "C"]))
            yield "%s %s %s %s" % (f[0], f[1], f[2], ",".join(e2) if e2 else "-")
        return
    if f[0] != "c10.run":
        return
    evs = f[3].split(",") if f[3] != "-" else []
    for _ in range(60):
        e2 = [e for e in evs if rng.random() < 0.85]
        cf = f[2].split(":")
        if rng.random() < 0.5:
            k = rng.randrange(1, 4)
            cf[k] = str(rng.choice([1, 2, 3, 6] if k == 1 else [0, 1, 2]))
        yield "%s %s %s %s" % (f[0], f[1], ":".join(cf), ",".join(e2) if e2 else "-")
