# helpers shared by the generators: the byte-token notation of the text protocol
import hashlib

def prng_byte(seed, i):
    x = (seed * 1000003 + i * 7919 + (i // 251) * 104729) & 0x7fffffff
    return (x ^ (x >> 8) ^ (x >> 16)) & 0xff

def tok_bytes(tok):
    """decode a bytes token (hex | - | r<len>.<seed> | a+b) to python bytes"""
    if "+" in tok:
        return b"".join(tok_bytes(t) for t in tok.split("+"))
    if tok in ("-", ""):
        return b""
    if tok[0] == "r":
        n, seed = tok[1:].split(".")
        n, seed = int(n), int(seed)
        return bytes(prng_byte(seed, i) for i in range(n))
    return bytes.fromhex(tok)

def hex_tok(b):
    return b.hex() if len(b) else "-"

def num(tok):
    return int(tok, 16) if tok.startswith("0x") else int(tok)

def payload_tok(rng, n):
    """a payload token of length n: literal hex when short, r-notation otherwise"""
    if n <= 24 and rng.random() < 0.7:
        return hex_tok(bytes(rng.randrange(256) for _ in range(n)))
    return "r%d.%d" % (n, rng.randrange(1 << 16))
