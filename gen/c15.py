# C15 - stalled consumer (bootstrap version)
from lib.vf import Case
from gen.common import *

ID = "C15"
RULE = "bootstrap"
ASSUMPTIONS = []
FULL_OUTPUT = True


def gen_cases(tier, rng):
    yield Case("c15.run flv:2 p0102,p0304,p0506,p0708", cls="t")
    yield Case("c15.run flv:2,flv:2 p0102,p0304,r0.1,p0506,p0708,s,s", cls="t")
    yield Case("c15.run wsflv:2 p0102,p0304,p0506", cls="t")
    yield Case("c15.run rtmp:1,rtmpv:2 p0102|0304,p0304,p0506,r1.1,f0.1,p0708,s,s", cls="t")
    yield Case("c15.run ts:1,wsts:2 p0102,p0304,d0,p0506", cls="t")
    yield Case("c15.run rtp:1,wsrtp:2 p8060000000000000000000000102,p80e1000000000000000000000304,p0000,p0506,s,s,s", cls="t")
    yield Case("c15.group 4 fwr p9:0:1701000000aabb,p9:40:2701000000cc,r0.2,r1.1,p8:50:af0111,s,r2.1,s,p9:90:2701000000dd", cls="t")


def nontrivial(c, out):
    return c.line
