# C15 - a stalled consumer cannot delay others or corrupt its own framing.
#
# Case formats (see harness/cmd/lalprobe/c15.go):
#   c15.run   <kind:cap,...> <op,op,...> [tag]
#   c15.group <cap> <subs f|w|r ...> <op,op,...> [tag]
#   c15.rgroup <cap> <rtsp kind,...> <op,op,...> [tag]   rtsp subscribers of a real logic.Group
#   c15.consts                      (implementation only: side conditions of the theorems)
#   c15.join <client bytes>         (implementation only: an rtmp player enters the fan-out set)
#   c15.cost <kind> <batches> <n>   (implementation only, measured: cost of a write to a full queue)
#   c15.fresh <gop> <kind> <cap> <npre> <npost>  (implementation only: a fresh player stalled from its first byte joins a
#                                   group with a GOP cache in mid-stream; a reading twin joined at the start)
# group / rgroup op I<kind>: the INPUT the group has (p<timeout_ms> ps pub, c customize pub)
# rtsp kinds: rtp / wsrtp (both tracks interleaved) or rtp.<v><a> / wsrtp.<v><a>, one letter per track:
#   n = never SETUP, u = UDP sockets, t = interleaved channel, b = both transports
#   c15.rt <n> <size> <wto> <pace>  (implementation only, thorough tier: measured runtime part)
# ops: p<buf>|<buf>  r<i>.<n>  f<i>.<n>  d<i>  s      (group: p<type>:<ts>:<payload>)
# output per consumer: codes;pre;q;h;state;wire;extra   (extra = connection write calls; rtsp kinds:
#   calls/session write counter/datagrams on the video socket/datagrams on the audio socket/connection read counter/
#   session read counter; other kinds: calls/connection read counter)
# inbound ops (what the PLAYER sends; harness c15in.go):  i<consumer>.<what>[.<arg>]
#   c<ch>.<n> interleaved packet  u<v|a><p|c>.<n> datagram to lal's rtp / rtcp socket  o<cseq>.<resp> OPTIONS  g<cseq> GET_PARAMETER
#   a rtmp ack  k<ts> rtmp ping request  b<n> bytes on an http subscription
import os
from lib import vf
from lib.vf import Case
from gen.common import *

ID = "C15"
RULE = ("per session kind (rtmp Write / Writev, http-flv, http-ts, rtsp interleaved, each also over WebSocket) and queue capacity 1..4: "
        "boundary sweep of the stall/resume point (0..cap+2 reads between publishes), of the queue-full instant relative to each write, "
        "of the byte offset at which a blocked write fails, of sweep/dispose positions, with 1..3 consumers (stalled, slow, healthy, twins "
        "around a disturber); then seeded random schedules; the same through a real logic.Group (fan-out + Tick sweep) for flv/ws-flv/rtmp "
        "subscribers; rtsp subscribers in every set-up state (per track: never SETUP / UDP sockets / interleaved channel / both): a player "
        "with one, both or no track set up that stops reading, with packets of its own and of the other track between sweeps, next to a "
        "reading twin, UDP tracks with datagrams read back from loopback sockets, random schedules over random set-up states, and the same "
        "through a real logic.Group (OnRtpPacket + Tick); the join of a real rtmp player (handshake..play over a conn that stalls inside "
        "OnNewRtmpSubSession, with a message written from there); the measured cost of 100 writes to a full queue per kind.  "
        "INBOUND traffic of the subscribers (their own read loops run and are fed): an interleaved rtsp player in every TCP set-up state that "
        "stops reading and keeps sending receiver reports on its RTCP channels / RTP on an RTP channel / packets on a channel of no track / "
        "GET_PARAMETER / OPTIONS (reply through the queue at every occupancy, rejected when full) between sweeps, next to a reading twin that "
        "sends the same; UDP players sending datagrams to lal's RTCP / RTP sockets; rtmp players that ack and ping (ping response at every "
        "occupancy); http-flv / http-ts / WebSocket subscriptions that receive bytes; all of it also through a real Group and in random "
        "schedules.  A case is non-trivial when the model output shows at least one rejected or dropped unit, a closed connection or a "
        "partially delivered unit (distinct by kind set, capacities and outcome signature)")
ASSUMPTIONS = [
    "PARTIAL: the latency bound and the firing of the OS write deadline are runtime behaviour; the thorough tier measures them on loopback TCP (coverage.runtime), no theorem covers them",
    "the writer goroutine is scheduled eagerly (it dequeues as soon as it is free): the only schedule the harness can realise deterministically; the theorems quantify over every dequeue schedule",
    "a net.Conn.Write is all-or-nothing except for the explicit fail-after-n-bytes op; net.Buffers on a non-TCP conn is one Write per buffer",
    "byte counters do not wrap (2^64 bytes)",
    "RTSP-over-WebSocket command responses (OPTIONS/PLAY/... replies) still use two connection writes; only media packets are covered",
    "rtsp UDP tracks: a datagram write succeeds while the session is not disposed (loopback sockets, packets <= 1412 bytes); the harness disposes the "
    "sub session when its command connection closed itself, as rtsp.Server.handleTcpConnect does after RunLoop returns",
    "rtsp subscribers are driven with the SDP of the harness (video = payload type 96 / channel 0, audio = 97 / channel 2)",
    "inbound: each inbound message is handed to the session's read loop whole, and the harness goes on when the loop waits for more (or has "
    "ended); a reply of the read loop is made by that goroutine alone (the interleaving of a reply with fan-out writes of another goroutine is "
    "covered by the theorems - units are atomic - not by the harness); at most 3 datagrams per socket kind and case are synchronised (lal logs "
    "only the first three); rtsp over WebSocket: only requests are fed (an interleaved packet inside a WebSocket frame is a parse error)",
    "relay pull as the group's input is not driven (a pull session is attached only once its upstream connection is up)",
    "cost of a write to a full queue: measured (fastest of 3 batches of 100 writes, bound 1 ms per write = about 600 x the measured 1-2 us); the proof part "
    "is c15_one_attempt (one connection write call per unit in every queue state) tied to the code by the counted Write/Writev calls",
]
FULL_OUTPUT = True
TIMEOUT = 900

class _Plain(dict):
    def __missing__(self, k):
        return dict.__getitem__(self, k.split(".")[0])


PLAIN = _Plain({"rtmp": "rtmp", "rtmpv": "rtmp", "flv": "flv", "wsflv": "flv", "ts": "ts", "wsts": "ts", "rtp": "rtp", "wsrtp": "rtp"})


class _Ws(set):
    def __contains__(self, k):
        return set.__contains__(self, k.split(".")[0])


WS = _Ws({"wsflv", "wsts", "wsrtp"})


def setup_of(kind):
    """rtsp: transport letters (video, audio)"""
    return kind.split(".")[1] if "." in kind else "tt"


def rtp_track(raw):
    """0 video, 1 audio, None: payload type outside the SDP (96 / 97)"""
    if len(raw) < 2:
        return None
    return {96: 0, 97: 1}.get(raw[1] & 0x7F)
FAMILIES = [["rtmp", "rtmpv"], ["flv", "wsflv"], ["ts", "wsts"], ["rtp", "wsrtp"]]
RTMP_CHUNK = 128          # chunk size of the python reference chunker used for c15.run units
FLV_HEADER = b"FLV\x01\x05\0\0\0\x09\0\0\0\0"


# ------------------------------------------------------------------ reference encoders (from the specs)
def ref_flv_tag(t, ts, p):
    return bytes([t]) + len(p).to_bytes(3, "big") + (ts & 0xFFFFFF).to_bytes(3, "big") + bytes([(ts >> 24) & 0xFF]) + b"\0\0\0" + p + (11 + len(p)).to_bytes(4, "big")


def ref_rtmp_chunks(csid, t, ts, msid, p, chunk):
    """RTMP 1.0 section 5.3.1: type-0 header, type-3 continuation chunks"""
    ext = ts >= 0xFFFFFF
    out = bytes([csid]) + (0xFFFFFF if ext else ts).to_bytes(3, "big") + len(p).to_bytes(3, "big") + bytes([t]) + msid.to_bytes(4, "little")
    if ext:
        out += ts.to_bytes(4, "big")
    out += p[:chunk]
    i = chunk
    while i < len(p):
        out += bytes([0xC0 | csid])
        if ext:
            out += ts.to_bytes(4, "big")
        out += p[i:i + chunk]
        i += chunk
    return out


def ref_ws_frame(p):
    n = len(p)
    if n < 126:
        h = bytes([0x82, n])
    elif n <= 0xFFFF:
        h = bytes([0x82, 126]) + n.to_bytes(2, "big")
    else:
        h = bytes([0x82, 127]) + n.to_bytes(8, "big")
    return h + p


def ref_interleaved(raw):
    pt = raw[1] & 0x7F
    ch = {96: 0, 97: 2}.get(pt)
    if ch is None:
        return None
    return b"$" + bytes([ch]) + len(raw).to_bytes(2, "big") + raw


# ------------------------------------------------------------------ reference parsers (from the specs)
class Trunc(Exception):
    """input ends inside a frame: (frames so far, remaining bytes)"""


def parse_flv_tags(b):
    out, i = [], 0
    while i < len(b):
        if len(b) - i < 11:
            return out, b[i:]
        size = int.from_bytes(b[i + 1:i + 4], "big")
        if len(b) - i < 15 + size:
            return out, b[i:]
        if b[i + 8:i + 11] != b"\0\0\0":
            raise ValueError("flv: stream id not zero at %d" % i)
        if int.from_bytes(b[i + 11 + size:i + 15 + size], "big") != 11 + size:
            raise ValueError("flv: previous tag size mismatch at %d" % i)
        out.append(bytes(b[i:i + 15 + size]))
        i += 15 + size
    return out, b""


def parse_ts(b):
    out, i = [], 0
    while i < len(b):
        if b[i] != 0x47:
            raise ValueError("ts: no sync byte at %d" % i)
        if len(b) - i < 188:
            return out, b[i:]
        out.append(bytes(b[i:i + 188]))
        i += 188
    return out, b""


def parse_interleaved(b):
    """RFC 2326 10.12: '$'-framed binary data and RTSP messages share the connection"""
    out, i = [], 0
    while i < len(b):
        if b[i:i + 5] == b"RTSP/"[:len(b) - i]:
            j = b.find(b"\r\n\r\n", i)
            if j < 0:
                return out, b[i:]
            if b"Content-Length" in b[i:j]:
                raise ValueError("rtsp: a response with a body is not expected at %d" % i)
            out.append(bytes(b[i:j + 4]))
            i = j + 4
            continue
        if b[i] != 0x24:
            raise ValueError("rtsp: no '$' at %d" % i)
        if len(b) - i < 4:
            return out, b[i:]
        n = int.from_bytes(b[i + 2:i + 4], "big")
        if len(b) - i < 4 + n:
            return out, b[i:]
        out.append(bytes(b[i:i + 4 + n]))
        i += 4 + n
    return out, b""


def parse_ws(b):
    """RFC 6455 frames -> payloads; every frame must be FIN, binary, unmasked, rsv 0"""
    out, i = [], 0
    while i < len(b):
        st = i
        if len(b) - i < 2:
            return out, b[st:]
        b0, b1 = b[i], b[i + 1]
        if b0 != 0x82:
            raise ValueError("ws: first byte %02x at %d is not FIN|binary" % (b0, i))
        if b1 & 0x80:
            raise ValueError("ws: masked server frame at %d" % i)
        i += 2
        n = b1 & 0x7F
        if n == 126:
            if len(b) - i < 2:
                return out, b[st:]
            n = int.from_bytes(b[i:i + 2], "big"); i += 2
        elif n == 127:
            if len(b) - i < 8:
                return out, b[st:]
            n = int.from_bytes(b[i:i + 8], "big"); i += 8
        if len(b) - i < n:
            return out, b[st:]
        out.append(bytes(b[i:i + n]))
        i += n
    return out, b""


def parse_rtmp(b, chunk):
    """RTMP chunk stream reader (type 0 and type 3 headers are all lal and the reference chunker emit)"""
    out, i = [], 0
    cur = {}   # csid -> [ts, length, type, msid, ext, payload so far]
    last_complete = 0
    while i < len(b):
        if not cur:
            last_complete = i
        fmt, csid = b[i] >> 6, b[i] & 0x3F
        if csid < 2:
            raise ValueError("rtmp: multi-byte csid not expected at %d" % i)
        j = i + 1
        if fmt == 0:
            if len(b) - j < 11:
                return out, b[last_complete:]
            ts = int.from_bytes(b[j:j + 3], "big")
            ln = int.from_bytes(b[j + 3:j + 6], "big")
            ty = b[j + 6]
            msid = int.from_bytes(b[j + 7:j + 11], "little")
            j += 11
            ext = ts == 0xFFFFFF
            if ext:
                if len(b) - j < 4:
                    return out, b[last_complete:]
                ts = int.from_bytes(b[j:j + 4], "big"); j += 4
            if csid in cur:
                raise ValueError("rtmp: new message on csid %d at %d while one is incomplete" % (csid, i))
            cur[csid] = [ts, ln, ty, msid, ext, b""]
        elif fmt == 3:
            if csid not in cur:
                raise ValueError("rtmp: continuation chunk without a message on csid %d at %d" % (csid, i))
            if cur[csid][4]:
                if len(b) - j < 4:
                    return out, b[last_complete:]
                j += 4
        else:
            raise ValueError("rtmp: unexpected chunk type %d at %d" % (fmt, i))
        m = cur[csid]
        need = min(chunk, m[1] - len(m[5]))
        if len(b) - j < need:
            return out, b[last_complete:]
        m[5] += bytes(b[j:j + need])
        j += need
        i = j
        if len(m[5]) == m[1]:
            out.append((m[2], m[0], m[3], m[5]))
            del cur[csid]
    if cur:
        return out, b[last_complete:]
    return out, b""


def is_subseq(a, b):
    it = iter(b)
    return all(any(x == y for y in it) for x in a)


# ------------------------------------------------------------------ unit builders for the generator
def mk_unit(rng, fam, big=False):
    """one published unit for a family: (token, bytes)"""
    if fam == "rtmp":
        n = rng.choice([1, 5, 60, RTMP_CHUNK - 1, RTMP_CHUNK, RTMP_CHUNK + 1, 2 * RTMP_CHUNK + 7] if not big else [700, 1500])
        t = rng.choice([8, 9, 18])
        ts = rng.choice([0, 1, 40, 0xFFFFFE, 0xFFFFFF, 0x1000000, rng.randrange(1 << 32)])
        b = ref_rtmp_chunks({8: 6, 9: 7, 18: 5}[t], t, ts, 1, bytes(rng.randrange(256) for _ in range(n)), RTMP_CHUNK)
    elif fam == "flv":
        n = rng.choice([0, 1, 5, 100, 125 - 15, 126 - 15, 127 - 15, 300] if not big else [70000, 65536 - 15, 65535 - 15])
        b = ref_flv_tag(rng.choice([8, 9, 18]), rng.choice([0, 40, 0xFFFFFF, 0x1000000, rng.randrange(1 << 32)]), bytes(rng.randrange(256) for _ in range(n)))
    elif fam == "ts":
        k = rng.choice([1, 1, 2, 3, 7]) if not big else 40
        b = b"".join(bytes([0x47]) + bytes(rng.randrange(256) for _ in range(187)) for _ in range(k))
    else:
        n = rng.choice([0, 1, 20, 111, 112, 113, 200]) if not big else rng.choice([1400, 65535 - 12])
        pt = rng.choice([96, 96, 97])
        b = bytes([0x80, pt | (0x80 if rng.random() < 0.3 else 0)]) + rng.randrange(1 << 16).to_bytes(2, "big") + \
            rng.randrange(1 << 32).to_bytes(4, "big") + b"\x12\x34\x56\x78" + bytes(rng.randrange(256) for _ in range(n))
    return b


def tok(b):
    return hex_tok(b)


def mk_rtp(rng, track, n=None):
    """an RTP packet of the video (0) / audio (1) track of the harness' SDP"""
    if n is None:
        n = rng.choice([1, 20, 111, 200])
    pt = 96 + track
    return bytes([0x80, pt | (0x80 if rng.random() < 0.3 else 0)]) + rng.randrange(1 << 16).to_bytes(2, "big") + \
        rng.randrange(1 << 32).to_bytes(4, "big") + b"\x12\x34\x56\x78" + bytes(rng.randrange(256) for _ in range(n))


_LAL_SERVER = None


def ref_options_reply(cseq):
    """what lal answers to OPTIONS (base.LalRtspResponseOptionsTmpl; the Server value carries lal's version)"""
    global _LAL_SERVER
    if _LAL_SERVER is None:
        import re
        txt = open(os.path.join(os.environ.get("LAL_REPO", "/repo"), "pkg/base/t_version.go")).read()
        ver = re.search(r'var LalVersion = "([^"]+)"', txt).group(1)
        lib = re.search(r'LalLibraryName\s*=\s*"([^"]*)"', txt).group(1)
        _LAL_SERVER = (lib + (ver[1:] if ver.startswith("v") else ver)).encode()
    return (b"RTSP/1.0 200 OK\r\nServer: " + _LAL_SERVER + b"\r\nCSeq: " + cseq +
            b"\r\nPublic: DESCRIBE, ANNOUNCE, SETUP, PLAY, PAUSE, RECORD, TEARDOWN\r\n\r\n")


def ref_rtmp_pong(ts):
    """RTMP 1.0 7.1.7: User Control message, event 7 (PingResponse) + the timestamp of the request"""
    return ref_rtmp_chunks(2, 4, 0, 0, b"\0\7" + ts.to_bytes(4, "big"), RTMP_CHUNK)


def in_op(i, what, *args):
    return "i%d.%s" % (i, ".".join([what] + [str(a) for a in args]))


def options_op(i, cseq):
    return in_op(i, "o%d" % cseq, tok(ref_options_reply(b"%d" % cseq)))


def parse_in(o):
    """inbound op -> (consumer, what, args)"""
    f = o[1:].split(".")
    return int(f[0]), f[1], f[2:]


def reply_unit(kind, o):
    """the unit the read loop of a consumer of this kind writes in answer to the inbound op, or None"""
    _, what, args = parse_in(o)
    fam = PLAIN[kind]
    if fam == "rtp" and what[0] == "o":
        r = ref_options_reply(what[1:].encode())
        return ref_ws_frame(r) if kind in WS else r
    if fam == "rtmp" and what[0] == "k":
        return ref_rtmp_pong(num(what[1:]))
    return None


SETUPS_TCP = ["tn", "nt", "nn", "tt"]                     # interleaved only
SETUPS_UDP = ["un", "nu", "uu", "ut", "tu"]               # at least one UDP track
SETUPS_BOTH = ["bn", "nb", "bt", "ub", "bb"]              # a track with both transports (SETUP sent twice)
_PLAY_BYTES = None


def play_bytes():
    """handshake, connect, createStream, play from the independent python RTMP client encoder of C04"""
    global _PLAY_BYTES
    if _PLAY_BYTES is None:
        from gen import c04enc as E
        c = E.Client(None)
        c.raw("hs", E.handshake("simple", 7))
        _PLAY_BYTES = c.connect().create_stream().play(b"c15").bytes()
    return _PLAY_BYTES


def gen_rtsp_setup(tier, rng):
    thorough = tier == "thorough"
    P = lambda t, n=None: "p" + tok(mk_rtp(rng, t, n))
    # ---- F-34: a player that set up ONE track (or none) and stops reading: the packets of the other track must not
    #      keep it alive.  Fill its queue with packets of its own track, sweep, then per sweep interval a packet of
    #      each track.
    for base in ("rtp", "wsrtp"):
        for su in SETUPS_TCP:
            own = [t for t in (0, 1) if su[t] == "t"]
            other = [t for t in (0, 1) if su[t] != "t"]
            for cap in (1, 2, 3):
                fill = [P(own[k % len(own)]) for k in range(cap + 2)] if own else []
                for variant in range(3):
                    ops = list(fill) + ["s"]
                    for _ in range(3):
                        if variant in (0, 2) and other:
                            ops.append(P(other[0]))
                        if variant in (1, 2) and own:
                            ops.append(P(own[0]))
                        if variant == 1 and not own:
                            ops.append(P(rng.choice([0, 1])))
                        ops.append("s")
                    yield Case(line([("%s.%s" % (base, su), cap)], ops), cls="rtsp-setup-stall")
                # the same next to a reading twin: the twin (consumer 1) gets every packet of its track and stays
                ops = []
                for k in range(cap + 2):
                    ops += [P(own[0] if own else 0), "r1.9"]
                ops.append("s")
                for _ in range(3):
                    ops += [P(other[0] if other else 0), P(own[0] if own else 1), "r1.9", "s"]
                if own:
                    yield Case(line([("%s.%s" % (base, su), cap), ("%s.%s" % (base, su), cap)], ops, "healthy1"), cls="rtsp-setup-healthy")
    # ---- UDP tracks: datagrams, counter, sweeps, dispose
    for su in SETUPS_UDP + (SETUPS_BOTH if thorough else SETUPS_BOTH[:2]):
        for base in (("rtp", "wsrtp") if thorough or su in ("un", "ut") else ("rtp",)):
            kind = "%s.%s" % (base, su)
            udp = [t for t in (0, 1) if su[t] in "ub"]
            quiet = [t for t in (0, 1) if su[t] == "n"]
            # every interval has a datagram: kept
            yield Case(line([(kind, 2)], ["s", P(udp[0]), "s", P(udp[0]), P(1 - udp[0]), "s", P(udp[0]), "s"]), cls="rtsp-udp")
            # an interval with packets of the other track only
            yield Case(line([(kind, 2)], ["s", P(udp[0]), "s", P(1 - udp[0]), P(1 - udp[0]), "s", P(udp[0]), P(1 - udp[0]), "s", P(udp[0])]), cls="rtsp-udp")
            # dispose closes the sockets; write failure on the command connection ends the session
            yield Case(line([(kind, 1)], [P(0), P(1), "d0", P(0), P(1), "s"]), cls="rtsp-udp")
            yield Case(line([(kind, 1)], [P(0), P(1), P(0), P(1), "f0.3", P(0), P(1), "s", "s"]), cls="rtsp-udp")
            yield Case(line([(kind, 1)], [P(0, 1400), P(1, 1400), P(0, 0), P(1, 0), "p80", "p-", "p8062000100000001000000020102", "r0.9"]), cls="rtsp-udp")
    # ---- random schedules over random set-up states
    allsu = SETUPS_TCP + SETUPS_UDP + SETUPS_BOTH
    for _ in range(260 if not thorough else 2500):
        ncons = rng.choice([1, 2, 3])
        pool = SETUPS_TCP if rng.random() < 0.6 else allsu
        cons = [("%s.%s" % (rng.choice(["rtp", "wsrtp"]), rng.choice(pool)), rng.choice([1, 1, 2, 3])) for _ in range(ncons)]
        ops = []
        for _ in range(rng.randrange(4, 24)):
            x = rng.random()
            i = rng.randrange(ncons)
            if x < 0.5:
                ops.append(P(rng.choice([0, 0, 1])))
            elif x < 0.7:
                ops.append("r%d.%d" % (i, rng.choice([1, 1, 2, 9])))
            elif x < 0.74:
                ops.append("f%d.%d" % (i, rng.choice([0, 1, 5, 1000])))
            elif x < 0.78:
                ops.append("d%d" % i)
            elif x < 0.8:
                ops.append(rng.choice(["p80", "p8062000100000001000000020102"]))
            else:
                ops.append("s")
        yield Case(line(cons, ops), cls="rtsp-setup-random")
    # ---- through a real Group: OnRtpPacket -> feedRtpPacket, Tick -> disposeInactiveSessions
    for cap in (1, 2):
        for su in SETUPS_TCP + ["un", "ut"]:
            own = [t for t in (0, 1) if su[t] in "tu"]
            ops = [P(own[k % len(own)] if own else 0) for k in range(cap + 2)] + ["s"]
            for _ in range(3):
                ops += [P(0), P(1), "s"]
            yield Case("c15.rgroup %d %s %s" % (cap, "rtp.%s,wsrtp.%s" % (su, su), ",".join(ops)), cls="rgroup-stall")
        # a reading consumer next to stalled ones
        ops = []
        for k in range(6):
            ops += [P(0), P(1), "r0.9"]
            if k % 2 == 1:
                ops.append("s")
        yield Case("c15.rgroup %d rtp.tn,rtp.tn,wsrtp.nt %s healthy0" % (cap, ",".join(ops)), cls="rgroup-healthy")
    for _ in range(40 if not thorough else 400):
        kinds = ["%s.%s" % (rng.choice(["rtp", "wsrtp"]), rng.choice(SETUPS_TCP + ["un", "ut"])) for _ in range(rng.choice([1, 2, 3]))]
        ops = []
        for _ in range(rng.randrange(4, 20)):
            x = rng.random()
            i = rng.randrange(len(kinds))
            if x < 0.55:
                ops.append(P(rng.choice([0, 1])))
            elif x < 0.75:
                ops.append("r%d.%d" % (i, rng.choice([1, 2, 9])))
            elif x < 0.8:
                ops.append("d%d" % i)
            else:
                ops.append("s")
        yield Case("c15.rgroup %d %s %s" % (rng.choice([1, 2, 3]), ",".join(kinds), ",".join(ops)), cls="rgroup")
    # ---- the moment an rtmp player enters the fan-out set (implementation only)
    yield Case("c15.join " + tok(play_bytes()), cls="join")
    # ---- measured: cost of a session write to a consumer whose queue is full (implementation only)
    for kind in ("rtp", "wsrtp", "rtp.tn", "rtmp", "rtmpv", "flv", "wsflv", "ts", "wsts"):
        yield Case("c15.cost %s 3 100" % kind, cls="cost")



def gen_inbound(tier, rng):
    """what the PLAYER sends while it is (or has stopped being) a reading subscriber"""
    thorough = tier == "thorough"
    P = lambda t, n=None: "p" + tok(mk_rtp(rng, t, n))
    cseq = [10]

    def opt(i):
        cseq[0] += 1
        return options_op(i, cseq[0])

    def getp(i):
        cseq[0] += 1
        return in_op(i, "g%d" % cseq[0])
    # F-35 witness (rtsp over WebSocket, fixed): the reply to an OPTIONS keep-alive arrives with one free place in the queue.
    # Before the fix its frame header was queued and its text rejected (then the session is closed): wire 82 <len> without payload
    for cap in (1, 2, 3):
        yield Case(line([("wsrtp", cap)], [P(0) for _ in range(cap)] + [opt(0), P(1), "s"]), cls="f35-witness")
        yield Case(line([("wsrtp", cap)], [P(0) for _ in range(cap - 1)] + [opt(0), opt(0), P(1), "r0.1", opt(0)]), cls="f35-witness")
    # ---- C15r4-2: an interleaved player stops reading but keeps sending receiver reports / keep-alives
    for base in ("rtp", "wsrtp"):
        for su in ("tt", "tn", "nt"):
            kind = "%s.%s" % (base, su)
            own = [t for t in (0, 1) if su[t] == "t"]
            for cap in (1, 2):
                fill = [P(own[k % len(own)]) for k in range(cap + 2)]
                for variant in range(4):
                    ops = list(fill) + ["s"]
                    for k in range(3):
                        if base == "rtp":
                            ops.append(in_op(0, "c%d" % (2 * own[0] + 1), rng.choice([8, 32, 60])))     # RR on an RTCP channel
                            if variant == 1:
                                ops += [in_op(0, "c%d" % (2 * own[0]), 20), in_op(0, "c9", 12)]        # RTP channel, no channel
                        if variant == 2:
                            ops.append(getp(0))
                        if variant == 3 and k == 1:
                            ops.append(opt(0))                                                        # rejected: ends the session
                        ops.append(P(own[0]))
                        if base == "rtp" and variant == 0:
                            ops.append(in_op(0, "c%d" % (2 * own[-1] + 1), 32))
                        ops.append("s")
                    yield Case(line([(kind, cap)], ops), cls="inbound-rtsp-stall")
                # a reading twin that sends the same stays connected and gets everything, replies included
                ops = []
                for k in range(5):
                    ops += [P(own[0]), "r1.9"]
                    if base == "rtp":
                        ops += [in_op(1, "c%d" % (2 * own[0] + 1), 32), in_op(0, "c%d" % (2 * own[0] + 1), 32)]
                    ops += [rng.choice([getp, opt])(1), "r1.9"]
                    if k % 2 == 1:
                        ops.append("s")
                yield Case(line([(kind, cap), (kind, cap)], ops, "healthy1"), cls="inbound-rtsp-healthy")
    # OPTIONS at every queue occupancy: the reply is one unit among the packets
    for base in ("rtp", "wsrtp"):
        for cap in (1, 2, 3):
            for m in range(0, cap + 2):
                ops = [P(0) for _ in range(m)] + [opt(0), P(1), opt(0), "r0.%d" % rng.choice([0, 1, 9]), opt(0), P(0), "r0.9"]
                yield Case(line([(base, cap)], ops), cls="inbound-rtsp-options")
    # UDP players: receiver reports to lal's RTCP socket, RTP to its RTP socket
    for su in ("uu", "un", "ut"):
        kind = "rtp." + su
        ops = ["s", P(0), in_op(0, "uvc", 32), "s", in_op(0, "uvc", 32), in_op(0, "uvp", 20), P(1) if su == "un" else in_op(0, "uac", 32), "s",
               in_op(0, "uvc", 32), "s"]
        yield Case(line([(kind, 1)], ops), cls="inbound-rtsp-udp")
        yield Case(line([(kind, 1)], ["s", P(0), in_op(0, "uvc", 8), "s", P(0), in_op(0, "uvc", 8), "s", P(0)]), cls="inbound-rtsp-udp")
    # ---- rtmp: acks and pings from a player that does not read
    for kind in ("rtmp", "rtmpv"):
        for cap in (1, 2, 3):
            U = lambda: pub_op(rng, "rtmp", None)
            yield Case(line([(kind, cap)], [U() for _ in range(cap + 2)] + ["s", in_op(0, "a"), U(), in_op(0, "a"), "s", in_op(0, "a"), "s"]), cls="inbound-rtmp")
            yield Case(line([(kind, cap)], [U(), "s", in_op(0, "k7"), in_op(0, "a"), U(), "s", in_op(0, "k8"), "s", in_op(0, "k9"), "s"]), cls="inbound-rtmp")
            for m in range(0, cap + 2):
                yield Case(line([(kind, cap)], [U() for _ in range(m)] + [in_op(0, "k%d" % (1000 + m)), U(), in_op(0, "k4294967295"), "r0.9", in_op(0, "k1"), U(), "r0.9"]), cls="inbound-rtmp-ping")
            ops = []
            for k in range(5):
                ops += [U(), "r1.9", in_op(1, "a"), in_op(1, "k%d" % k), "r1.9", in_op(0, "a")]
                if k % 2 == 1:
                    ops.append("s")
            yield Case(line([(kind, cap), (kind, cap)], ops, "healthy1"), cls="inbound-rtmp-healthy")
    # ---- http-flv / http-ts, plain and WebSocket: anything the player sends ends the subscription
    for fam in (["flv", "wsflv"], ["ts", "wsts"]):
        for kind in fam:
            U = lambda: pub_op(rng, PLAIN[kind], fam)
            yield Case(line([(kind, 2)], [U(), U(), "s", in_op(0, "b6"), U(), "s", "s"]), cls="inbound-http")
            yield Case(line([(kind, 2), (kind, 2)], [U(), "r1.9", in_op(0, "b1"), U(), "r1.9", in_op(0, "b300"), U(), "r1.9", "s", U(), "r1.9", "s"], "healthy1"), cls="inbound-http")
    # ---- through a real Group
    for cap in (1, 2):
        for kinds in ("rtp.tt,wsrtp.tn", "rtp.tn,rtp.nt"):
            ops = [P(0), P(1), P(0), P(1), P(0), P(1), "s"]
            for k in range(3):
                ops += [in_op(0, "c1", 32), in_op(0, "c3", 32), getp(1), in_op(1, "c1", 32) if kinds.endswith("rtp.nt") else getp(1), P(0), P(1), "s"]
            yield Case("c15.rgroup %d %s %s" % (cap, kinds, ",".join(ops)), cls="inbound-rgroup")
    # ---- rtmp / http-flv subscribers of a real Group (Tick -> disposeInactiveSessions) that send while stalled
    M = lambda k: "p9:%d:%s" % (k * 40, tok(b"\x27\x01\0\0\0" + bytes([k] * 9)))
    for subs in ("r", "rr", "fwr", "rf"):
        ri = subs.index("r")
        ops = [M(0), M(1), M(2), M(3), M(4), M(5), "s"]
        for k in range(3):
            ops += [in_op(ri, "a"), M(6 + k), in_op(ri, "a"), "s"]
        yield Case("c15.group 3 %s %s" % (subs, ",".join(ops)), cls="inbound-group")
        ops = [M(0), "s", in_op(ri, "k5"), in_op(ri, "a"), "s", in_op(ri, "k6"), M(1), "s", in_op(ri, "k7"), "s"]
        yield Case("c15.group 3 %s %s" % (subs, ",".join(ops)), cls="inbound-group")
        ops = []
        for k in range(6):
            ops += [M(k), "r0.9"] + ([in_op(0, "a"), in_op(0, "k%d" % k), "r0.9"] if subs[0] == "r" else [])
            if k % 2 == 1:
                ops.append("s")
        yield Case("c15.group 3 %s %s healthy0" % (subs, ",".join(ops)), cls="inbound-group")
    for subs in ("f", "w", "fw"):
        yield Case("c15.group 3 %s %s" % (subs, ",".join([M(0), M(1), "s", in_op(0, "b6"), M(2), "s", M(3), "s"])), cls="inbound-group")
    # ---- random schedules with inbound traffic
    for _ in range(300 if not thorough else 3000):
        fam = rng.choice(FAMILIES)
        famname = PLAIN[fam[0]]
        ncons = rng.choice([1, 2, 2])
        if famname == "rtp":
            cons = [("%s.%s" % (rng.choice(fam), rng.choice(SETUPS_TCP + SETUPS_TCP + ["un", "ut", "uu"])), rng.choice([1, 1, 2, 3])) for _ in range(ncons)]
        else:
            cons = [(rng.choice(fam), rng.choice([1, 1, 2, 3])) for _ in range(ncons)]
        ops, nudp = [], 0
        for _ in range(rng.randrange(4, 22)):
            x = rng.random()
            i = rng.randrange(ncons)
            kind = cons[i][0]
            if x < 0.4:
                ops.append(P(rng.choice([0, 0, 1])) if famname == "rtp" else pub_op(rng, famname, fam))
            elif x < 0.7:
                if famname == "rtp":
                    su = setup_of(kind)
                    ch = [lambda: in_op(i, "c%d" % rng.choice([0, 1, 2, 3, 7]), rng.choice([4, 32, 200])) if kind.startswith("rtp") else getp(i),
                          lambda: getp(i), lambda: opt(i)]
                    if "u" in su and nudp < 3:
                        t = "va"[su.index("u")]
                        ch.append(lambda: in_op(i, "u%s%s" % (t, "c"), 32))
                    o = rng.choice(ch)()
                    nudp += ".u" in o
                    ops.append(o)
                elif famname == "rtmp":
                    ops.append(rng.choice([in_op(i, "a"), in_op(i, "k%d" % rng.randrange(1 << 32))]))
                else:
                    ops.append(in_op(i, "b%d" % rng.choice([1, 2, 128, 129, 1000])))
            elif x < 0.85:
                ops.append("r%d.%d" % (i, rng.choice([1, 1, 2, 9])))
            elif x < 0.88:
                ops.append("f%d.%d" % (i, rng.choice([0, 3, 1000])))
            elif x < 0.9:
                ops.append("d%d" % i)
            else:
                ops.append("s")
        yield Case(line(cons, ops), cls="inbound-random")


# ps pub with timeout_ms (0 / below 1 s = no timeout), customize pub.  (A relay pull session is attached to its group only
# once its connection is up - OnPullSucc -: it would need a live upstream server; not driven here.)
INPUTS = ["Ip0", "Ip999", "Ip1000", "Ip5000", "Ic"]


def gen_inputs_fresh(tier, rng):
    thorough = tier == "thorough"
    M = lambda k: "p9:%d:%s" % (k * 40, tok(b"\x27\x01\0\0\0" + bytes([k] * 9)))
    P = lambda t, n=None: "p" + tok(mk_rtp(rng, t, n))
    # the subscribers' liveness sweep runs whatever feeds the group (C15r5-1: it was skipped for a ps pub without timeout)
    for inp in INPUTS:
        for subs in ("f", "w", "r", "fwr"):
            yield Case("c15.group 4 %s %s,s,%s,%s,s,%s,s,%s,s" % (subs, inp, M(0), M(1), M(2), M(3)), cls="input-sweep")
            yield Case("c15.group 4 %s %s,%s,s,s,s" % (subs, inp, M(0)), cls="input-sweep")
        ops = [inp]
        for k in range(8):
            ops += [M(k), "r0.9"]
            if k % 2 == 1:
                ops.append("s")
        yield Case("c15.group 3 fwr %s healthy0" % ",".join(ops), cls="input-sweep")
        for kinds in ("rtp.tt,wsrtp.tt", "rtp.tn,rtp.un"):
            ops = [inp, P(0), P(0), P(0), "s", P(0), P(1), "s", P(0), "s"]
            yield Case("c15.rgroup 1 %s %s" % (kinds, ",".join(ops)), cls="input-sweep")
        ops = [inp]
        for k in range(6):
            ops += [P(0), P(1), "r0.9"]
            if k % 2 == 1:
                ops.append("s")
        yield Case("c15.rgroup 2 rtp.tt,rtp.tt %s healthy0" % ",".join(ops), cls="input-sweep")
    # a FRESH player that is stalled from its very first byte joins in mid-stream (implementation only)
    for gop in (0, 1, 2):
        for kind in ("rtmp", "flv", "wsflv", "ts", "wsts", "rtp", "wsrtp"):
            for cap in ((1, 64) if not thorough else (1, 2, 4, 64, 1024)):
                for npre in ((2, 14, 30) if not thorough else (0, 2, 5, 14, 15, 30, 60)):
                    yield Case("c15.fresh %d %s %d %d 6" % (gop, kind, cap, npre), cls="fresh")


def pub_op(rng, fam, kinds, big=False):
    """publish op; for families with a Writev kind the unit may be several buffers"""
    if fam == "rtmp" and rng.random() < 0.5:
        bufs = [mk_unit(rng, fam, big) for _ in range(rng.choice([1, 2, 3]))]
        return "p" + "|".join(tok(x) for x in bufs)
    return "p" + tok(mk_unit(rng, fam, big))


def line(cons, ops, tag=None):
    s = "c15.run %s %s" % (",".join("%s:%d" % kc for kc in cons), ",".join(ops) if ops else "-")
    return s + (" " + tag if tag else "")


def gen_cases(tier, rng):
    thorough = tier == "thorough"
    yield Case("c15.consts", cls="consts")
    # ---- boundary sweep, one consumer: stall/resume point x capacity x kind
    for fam in FAMILIES:
        famname = PLAIN[fam[0]]
        for kind in fam:
            for cap in (1, 2, 3, 4):
                # stalled from the start: cap+3 publishes, nothing read
                yield Case(line([(kind, cap)], [pub_op(rng, famname, fam) for _ in range(cap + 3)]), cls="stall-start")
                # m publishes, r reads, more publishes: every resume point and queue-full instant
                for m in range(1, cap + 3):
                    for r in ([0, 1, cap, cap + 2] if not thorough else range(0, cap + 4)):
                        ops = [pub_op(rng, famname, fam) for _ in range(m)] + ["r0.%d" % r] + [pub_op(rng, famname, fam) for _ in range(cap + 2)]
                        yield Case(line([(kind, cap)], ops), cls="stall-resume")
                # blocked write fails after n bytes (write deadline): n around the unit length
                for n in (0, 1, 3, 11, 187, 188, 400, 100000):
                    ops = [pub_op(rng, famname, fam) for _ in range(2)] + ["r0.%d" % rng.choice([0, 1]), "f0.%d" % n, pub_op(rng, famname, fam), "s"]
                    yield Case(line([(kind, cap)], ops), cls="write-fail")
                # sweeps: stalled -> disposed by the second; progress -> kept; dispose then publish
                yield Case(line([(kind, cap)], ["s", pub_op(rng, famname, fam), pub_op(rng, famname, fam), "s", pub_op(rng, famname, fam), "s", pub_op(rng, famname, fam)]), cls="sweep")
                yield Case(line([(kind, cap)], ["s", pub_op(rng, famname, fam), "r0.1", "s", pub_op(rng, famname, fam), "r0.1", "s", pub_op(rng, famname, fam), "s", "s", pub_op(rng, famname, fam)]), cls="sweep")
                yield Case(line([(kind, cap)], [pub_op(rng, famname, fam), "s", "s", "s"]), cls="sweep")
                yield Case(line([(kind, cap)], [pub_op(rng, famname, fam), "d0", pub_op(rng, famname, fam), "r0.2", "s"]), cls="dispose")
        # ---- several consumers: stalled + healthy + slow, twins around a disturber
        for cap in (1, 2, 3):
            for _ in range(3 if not thorough else 12):
                kinds = [rng.choice(fam) for _ in range(3)]
                ops = []
                sweeps = rng.random() < 0.5
                for step in range(rng.choice([4, 6, 9])):
                    ops.append(pub_op(rng, famname, fam))
                    ops.append("r1.9")               # consumer 1 is healthy: reads everything at once
                    if rng.random() < 0.4:
                        ops.append("r2.1")           # consumer 2 is slow
                    if rng.random() < 0.15:
                        ops.append(rng.choice(["f0.%d" % rng.randrange(30), "d0"]))
                    if sweeps and rng.random() < 0.5:
                        ops.append("s")              # at least one publish+read of consumer 1 between two sweeps
                yield Case(line([(kinds[0], cap), (kinds[1], cap), (kinds[2], cap)], ops, "healthy1"), cls="multi")
            for _ in range(3 if not thorough else 12):
                k = rng.choice(fam)
                ops = []
                for step in range(rng.choice([5, 8])):
                    ops.append(pub_op(rng, famname, fam))
                    r = rng.choice([0, 0, 1, 2])
                    if r:
                        ops += ["r0.%d" % r, "r2.%d" % r]
                    ops += rng.choice([[], ["r1.1"], ["r1.5"], ["f1.%d" % rng.randrange(20)], ["d1"], ["s"]])
                yield Case(line([(k, cap), (rng.choice(fam), rng.choice([1, 2, 5])), (k, cap)], ops, "twins02"), cls="twins")
        # big units (length forms of the WebSocket header, multi-chunk rtmp, 16-bit interleaved length)
        for kind in fam:
            yield Case(line([(kind, 2)], [pub_op(rng, famname, fam, big=True) for _ in range(4)] + ["r0.1", pub_op(rng, famname, fam, big=True)]), cls="big")
    # rtsp: payload type that is not in the SDP is not written at all
    yield Case(line([("rtp", 2), ("wsrtp", 2)], ["p80620001000000010000000201", "p8060000100000001000000020102", "p80", "p-", "r0.1", "p80e1000100000001000000020304"]), cls="rtp-route")
    # ---- rtsp set-up states, Group with rtsp subscribers, join, cost
    for c in gen_rtsp_setup(tier, rng):
        yield c
    # ---- inbound traffic of the subscribers
    for c in gen_inbound(tier, rng):
        yield c
    # ---- the group's INPUT kinds under the subscribers' sweep; fresh stalled players joining a group with a GOP cache
    for c in gen_inputs_fresh(tier, rng):
        yield c
    # ---- seeded random schedules
    nrand = 1500 if not thorough else 12000
    for _ in range(nrand):
        fam = rng.choice(FAMILIES)
        famname = PLAIN[fam[0]]
        ncons = rng.choice([1, 2, 2, 3])
        cons = [(rng.choice(fam), rng.choice([1, 1, 2, 3, 4])) for _ in range(ncons)]
        ops = []
        for _ in range(rng.randrange(3, 26)):
            x = rng.random()
            i = rng.randrange(ncons)
            if x < 0.5:
                ops.append(pub_op(rng, famname, fam))
            elif x < 0.8:
                ops.append("r%d.%d" % (i, rng.choice([1, 1, 2, 3, 9])))
            elif x < 0.86:
                ops.append("f%d.%d" % (i, rng.choice([0, 1, 2, 5, 50, 188, 1000])))
            elif x < 0.9:
                ops.append("d%d" % i)
            else:
                ops.append("s")
        yield Case(line(cons, ops), cls="random")
    # ---- through a real Group
    for cap in (3, 4, 6):
        for subs in (["f", "w", "r", "fw", "wr", "fwr", "wwf", "rrf"] if not thorough else ["f", "w", "r", "ff", "fw", "wr", "fwr", "wwf", "rrf", "wfrw"]):
            for _ in range(6 if not thorough else 30):
                ops, ts = [], 0
                for _ in range(rng.randrange(3, 14)):
                    x = rng.random()
                    i = rng.randrange(len(subs))
                    if x < 0.55:
                        ts += rng.choice([0, 1, 40, 1000])
                        t = rng.choice([9, 9, 8])
                        head = b"\xaf\x01" if t == 8 else rng.choice([b"\x17\x01\0\0\0", b"\x27\x01\0\0\0"])
                        p = head + bytes(rng.randrange(256) for _ in range(rng.choice([1, 20, 110, 130, 300])))
                        ops.append("p%d:%d:%s" % (t, ts, tok(p)))
                    elif x < 0.85:
                        ops.append("r%d.%d" % (i, rng.choice([1, 2, 3, 9])))
                    elif x < 0.9:
                        ops.append("d%d" % i)
                    else:
                        ops.append("s")
                yield Case("c15.group %d %s %s" % (cap, subs, ",".join(ops)), cls="group")
    # healthy consumer next to stalled ones, through the Group, with and without sweeps
    for subs in ("ff", "ww", "rr", "fwr", "wfr", "rfw"):
        for sweeps in (False, True):
            ops = []
            for k in range(8):
                ops.append("p9:%d:%s" % (k * 40, tok(b"\x17\x01\0\0\0" + bytes([k] * 20))))
                ops.append("r0.9")
                if sweeps and k % 2 == 1:
                    ops.append("s")
            yield Case("c15.group 3 %s %s healthy0" % (subs, ",".join(ops)), cls="group-healthy")
    # Group sweep: stalled consumers of every kind are disposed by the second sweep, reading ones are kept
    for subs in ("f", "w", "r", "fwr"):
        m = lambda k: "p9:%d:%s" % (k * 40, tok(b"\x27\x01\0\0\0" + bytes([k] * 9)))
        yield Case("c15.group 4 %s s,%s,%s,s,%s,s,%s" % (subs, m(0), m(1), m(2), m(3)), cls="group-sweep")
        yield Case("c15.group 4 %s %s,s,s,s" % (subs, m(0)), cls="group-sweep")
        yield Case("c15.group 4 %s s,s" % subs, cls="group-sweep")


# ------------------------------------------------------------------ reading cases and outputs
def parse_case(c):
    f = c.line.split(" ")
    return f


def parse_out(out):
    res = []
    for part in out.split(" "):
        g = part.split(";")
        if len(g) != 7:
            return None
        x = dict(codes=g[0], pre=num(g[1]), q=num(g[2]), h=int(g[3]), state=g[4], wire=tok_bytes(g[5]))
        e = g[6].split("/")
        x["att"] = num(e[0])
        if len(e) == 6:
            x["acc"] = num(e[1])
            x["udp"] = [[] if d == "-" else [tok_bytes(t) for t in d.split(",")] for d in e[2:4]]
            x["crd"], x["rd"] = num(e[4]), num(e[5])
        elif len(e) == 2:
            x["crd"] = num(e[1])
        else:
            return None
        res.append(x)
    return res


def nontrivial(c, out):
    if not out or out.startswith(("bad", "model-", "unknown", "#")):
        return None
    f = c.line.split(" ")
    if f[0] == "c15.consts":
        return None
    cons = parse_out(out)
    if cons is None:
        return None
    if f[0] == "c15.run":
        ops = f[2].split(",") if f[2] != "-" else []
        npub = sum(1 for o in ops if o[0] == "p")
        kinds = f[1]
    else:
        ops = f[3].split(",") if f[3] != "-" else []
        npub = sum(1 for o in ops if o[0] == "p")
        kinds = f[1] + f[2]
    sig = []
    interesting = False
    for x in cons:
        if x["state"] == "c" or "2" in x["codes"] or "3" in x["codes"] or x["q"] > 0 or x["h"]:
            interesting = True
        sig.append("%s%s%d%d" % (x["state"], "d" if len(x["wire"]) == 0 else "w", min(x["q"], 4), x["h"]))
    if not interesting and npub < 2:
        return None
    return "%s|%s|%d|%s|%s" % (f[0], kinds, min(npub, 9), "".join(sig), c.line[-24:])


# ------------------------------------------------------------------ the oracle: C15 on the implementation's observation
def expected_units(kind, bufs):
    """what a consumer of this kind may legitimately see for one published unit
    (python reference encoders), or None when nothing is to be written"""
    payload = b"".join(bufs)
    fam = PLAIN[kind]
    if fam == "rtp":
        t = rtp_track(payload)
        if t is None or setup_of(kind)[t] not in "tb":
            return None        # not in the SDP, or the track has no interleaved channel
        payload = ref_interleaved(payload)
    if kind in WS:
        return ref_ws_frame(payload)
    return payload


def split_stream(kind, wire, chunk=RTMP_CHUNK):
    """parse with the reference parser of the kind's protocol: (frames, rest)"""
    fam = PLAIN[kind]
    if kind in WS:
        frames, rest = parse_ws(wire)
        inner_rest = b""
        for p in frames:
            # every frame payload must itself be whole units of the inner protocol
            fr, r2 = {"flv": parse_flv_tags, "ts": parse_ts, "rtp": parse_interleaved}[fam](p)
            if r2:
                raise ValueError("ws: frame payload ends inside a %s unit" % fam)
        return [ref_ws_frame(p) for p in frames], rest
    if fam == "flv":
        return parse_flv_tags(wire)
    if fam == "ts":
        return parse_ts(wire)
    if fam == "rtp":
        return parse_interleaved(wire)
    msgs, rest = parse_rtmp(wire, chunk)
    return msgs, rest


def oracle(c, out):
    f = c.line.split(" ")
    op = f[0]
    if op == "c15.consts":
        return oracle_consts(out)
    if op == "c15.rt":
        return None
    if op == "c15.join":
        return oracle_join(out)
    if op == "c15.cost":
        return oracle_cost(f, out)
    if op == "c15.fresh":
        return oracle_fresh(f, out)
    if out.startswith(("blocked", "stuck")) or "blocked@" in out:
        return (False, "the publisher side was parked waiting for a consumer: " + out)
    if out.startswith(("panic@", "crash@", "timeout")):
        return (False, "implementation crashed: " + out)
    cons = parse_out(out)
    if cons is None:
        return (False, "unreadable output: " + vf.short(out, 120))
    try:
        if op == "c15.run":
            return oracle_run(f, cons)
        if op == "c15.group":
            return oracle_group(f, cons)
        if op == "c15.rgroup":
            return oracle_rgroup(f, cons)
    except ValueError as e:
        return (False, "received stream is not well framed: %s" % e)
    return None


def oracle_consts(out):
    kv = {}
    for p in out.split(" "):
        if "=" not in p:
            return (False, "unreadable constants: " + out)
        k, v = p.split("=")
        kv[k] = num(v)
    for k in ("rtmp_chan", "flv_chan", "ts_chan", "rtsp_chan"):
        if kv.get(k, 0) < 1:
            return (False, "%s = %d: writes to this kind of subscriber are synchronous, a stalled one blocks the fan-out" % (k, kv.get(k, 0)))
    if kv.get("full_behavior") != 1:
        return (False, "connections are created with WriteChanFullBehavior=%d (not ReturnError): a full queue parks the publisher" % kv.get("full_behavior", -1))
    for k in ("rtmp_wto", "flv_wto", "ts_wto"):
        if kv.get(k, 0) < 1:
            return (False, "%s = 0: no write deadline for this kind of subscriber" % k)
    if kv.get("sweep_sec", 0) < 1:
        return (False, "liveness sweep interval is 0")
    return (True, "")


def rtsp_reference(ops, i, kind, cap):
    """An rtsp subscriber that never reads (no r / f op aimed at it), from the property and RFC 2326 alone:
    a packet is HANDED OVER when its track has a transport and that transport takes it - a UDP socket always
    (until the session is disposed), the command connection while fewer than cap+1 writes are outstanding (the
    queue plus the one the writer goroutine is parked with).  The session's byte counter is the bytes handed over;
    a sweep that finds nothing handed over since the previous sweep disconnects the session.
    Returns None when the consumer reads or has a track with both transports (which of the two results counts is
    lal's business), else dict(must_close, counter, dgrams=[video, audio])."""
    su = setup_of(kind)
    if "b" in su:
        return None
    outstanding, gone, counter = 0, False, 0
    dgrams = [[], []]
    since, swept, must_close = 0, False, False
    for o in ops:
        if o[0] in "rf" and int(o[1:].split(".")[0]) == i:
            return None
        if o[0] == "d" and int(o[1:]) == i:
            gone = True
        if o[0] == "i" and parse_in(o)[0] == i and parse_in(o)[1][0] == "o" and not gone:
            # what the player SENDS is never progress.  The reply to OPTIONS takes a place in the queue; when there
            # is none lal ends the session (it could as well drop the reply): from here on only the verdict
            # "must be closed" is checked, which holds either way
            if outstanding < cap + 1:
                outstanding += 1
            else:
                return dict(must_close=must_close, counter=None, dgrams=None)
        if o[0] == "p":
            raw = b"".join(tok_bytes(t) for t in o[1:].split("|"))
            t = rtp_track(raw)
            if t is None or gone:
                continue
            if su[t] == "u":
                dgrams[t].append(raw)
                counter += len(raw)
                since += 1
            elif su[t] == "t" and outstanding < cap + 1:
                outstanding += 1
                counter += len(raw)
                since += 1
        if o[0] == "s":
            if swept and since == 0:
                must_close = gone = True
            swept, since = True, 0
    return dict(must_close=must_close or gone, counter=counter, dgrams=dgrams)


def sched_facts(ops, ncons):
    """facts about the schedule that the spec-level checks need"""
    touched = [False] * ncons      # f / d aimed at the consumer
    stalled_between_sweeps = [False] * ncons
    since = [None] * ncons         # reads since the last sweep (None before the first sweep)
    pubs_since = 0
    for o in ops:
        if o[0] in "rfd":
            i = int(o[1:].split(".")[0])
            if i >= ncons:
                continue
            if o[0] in "fd":
                touched[i] = True
            if o[0] == "r" and int(o.split(".")[1]) > 0 and since[i] is not None:
                since[i] += 1
            if o[0] == "f" and since[i] is not None:
                since[i] += 1
        elif o[0] == "s":
            for i in range(ncons):
                if since[i] == 0:
                    stalled_between_sweeps[i] = True
                since[i] = 0
    return touched, stalled_between_sweeps


def rtmp_enc_len(m, chunk):
    t, ts, msid, p = m
    ext = 4 if ts >= 0xFFFFFF else 0
    nch = max(1, (len(p) + chunk - 1) // chunk)
    return 12 + ext + len(p) + (nch - 1) * (1 + ext)


def boundaries(kind, u, chunk):
    """byte offsets inside the unit u at which a frame of the kind's protocol starts"""
    frames, rest = split_stream(kind, u, chunk)
    offs, o = [0], 0
    for fr in frames:
        o += rtmp_enc_len(fr, chunk) if isinstance(fr, tuple) else len(fr)
        offs.append(o)
    return offs[:-1] if not rest else offs


def check_consumer(kind, x, offered, chunk=RTMP_CHUNK):
    """framing + sub-sequence + tail rule for one consumer; offered = reference encodings, in order"""
    frames, rest = split_stream(kind, x["wire"], chunk)
    want = []
    for u in offered:
        fr, r = split_stream(kind, u, chunk)
        if r:
            raise ValueError("generator produced a unit that is not whole frames")
        want += fr
    if not is_subseq(frames, want):
        return "received %s frames are not a sub-sequence of the published ones" % kind
    if rest:
        if x["state"] != "c":
            return "connection still open and idle but the stream ends inside a unit (%d stray bytes)" % len(rest)
        if not any(u[o:].startswith(rest) for u in offered for o in boundaries(kind, u, chunk)):
            return "stream of the closed connection ends with %d bytes that are not the beginning of any published frame" % len(rest)
    return None


def oracle_run(f, cons):
    specs = [kc.split(":") for kc in f[1].split(",")]
    ops = f[2].split(",") if f[2] != "-" else []
    tag = f[3] if len(f) > 3 else ""
    if len(cons) != len(specs):
        return (False, "wrong number of consumers in the output")
    pubs = [[tok_bytes(t) for t in o[1:].split("|")] for o in ops if o[0] == "p"]
    touched, stalled = sched_facts(ops, len(specs))
    for i, ((kind, cap), x) in enumerate(zip(specs, cons)):
        offered, nreply = [], 0
        for o in ops:
            if o[0] == "p":
                u = expected_units(kind, [tok_bytes(t) for t in o[1:].split("|")])
            elif o[0] == "i" and parse_in(o)[0] == i:
                u = reply_unit(kind, o)
                nreply += u is not None
            else:
                u = None
            if u is not None:
                offered.append(u)
        why = check_consumer(kind, x, offered)
        if why:
            return (False, "consumer %d (%s): %s" % (i, kind, why))
        if kind in ("rtmp", "rtmpv"):
            if len(x["codes"].replace("-", "")) != len(pubs) or any(ch not in "123" for ch in x["codes"].replace("-", "")):
                return (False, "consumer %d: publisher got results %s for %d writes" % (i, x["codes"], len(pubs)))
            if x["state"] == "o":
                n = len([m for m in parse_rtmp(x["wire"], RTMP_CHUNK)[0] if m[0] != 4])
                want = sum(len(parse_rtmp(b"".join(pubs[k]), RTMP_CHUNK)[0]) for k, ch in enumerate(x["codes"]) if ch == "1")
                if n != want:
                    return (False, "consumer %d: %d messages accepted by the queue but %d received after it drained" % (i, want, n))
        if stalled[i] and PLAIN[kind] != "rtp" and x["state"] != "c":
            return (False, "consumer %d completed no write between two sweeps and is still connected" % i)
        if not len(offered) - nreply <= x["att"] <= len(offered):
            return (False, "consumer %d (%s): %d connection write calls for %d units handed to the connection (one connection write per unit: a rejected "
                           "write is dropped at once, not retried, and a unit is not split over several writes)" % (i, kind, x["att"], len(offered)))
        if PLAIN[kind] != "rtp" and any(o[0] == "i" and parse_in(o)[0] == i and parse_in(o)[1][0] == "b" for o in ops) and x["state"] != "c":
            pass    # an http subscription that received bytes: lal ends it; the property does not ask for that
        if PLAIN[kind] == "rtp":
            why = oracle_rtsp(i, kind, int(cap), ops, x)
            if why:
                return (False, why)
        if tag == "healthy1" and i == 1:
            if x["state"] != "o" or x["wire"] != b"".join(offered):
                return (False, "consumer 1 reads everything at once but did not receive every published unit (others stalled)")
    if tag == "twins02":
        a, b = cons[0], cons[2]
        if (a["codes"], a["wire"], a["state"], a["q"], a["h"]) != (b["codes"], b["wire"], b["state"], b["q"], b["h"]):
            return (False, "consumers 0 and 2 have the same kind, capacity and read schedule but ended differently (disturbed by consumer 1)")
    return (True, "")


def oracle_rtsp(i, kind, cap, ops, x):
    if "acc" not in x:
        return "consumer %d (%s): no session byte counter in the output" % (i, kind)
    ref = rtsp_reference(ops, i, kind, cap)
    su = setup_of(kind)
    pubs = [b"".join(tok_bytes(t) for t in o[1:].split("|")) for o in ops if o[0] == "p"]
    for t in (0, 1):
        mine = [r for r in pubs if rtp_track(r) == t]
        if su[t] not in "ub" and x["udp"][t]:
            return "consumer %d (%s): datagrams on a track that has no UDP transport" % (i, kind)
        if not is_subseq(x["udp"][t], mine):
            return "consumer %d (%s): the datagrams of track %d are not a sub-sequence of its published packets" % (i, kind, t)
    if ref is None:
        return None
    if ref["must_close"] and x["state"] != "c":
        return ("consumer %d (%s) never reads; between two sweeps nothing was handed to any of its connections "
                "(queue full / track never SETUP), and it is still connected" % (i, kind))
    if ref["counter"] is None:
        return None
    if x["acc"] != ref["counter"]:
        return ("consumer %d (%s): the session counts 0x%x bytes as written, 0x%x bytes were handed to its connections "
                "(the liveness sweep compares this counter)" % (i, kind, x["acc"], ref["counter"]))
    if x["udp"] != ref["dgrams"]:
        return "consumer %d (%s): datagrams received differ from the packets of its UDP tracks published while it was connected" % (i, kind)
    return None


def oracle_rgroup(f, cons):
    """rtsp subscribers of a real Group: same rules as c15.run with every consumer at the given capacity"""
    kinds = f[2].split(",")
    g = ["c15.run", ",".join("%s:%s" % (k, f[1]) for k in kinds), f[3]] + f[4:]
    if len(g) > 3 and g[3] == "healthy0":
        x = cons[0]
        pubs = [[tok_bytes(t) for t in o[1:].split("|")] for o in f[3].split(",") if o[0] == "p"]
        offered = [u for u in (expected_units(kinds[0], b) for b in pubs) if u is not None]
        if x["state"] != "o" or x["wire"] != b"".join(offered):
            return (False, "consumer 0 reads everything at once but did not receive every published packet of its track (others stalled)")
        g = g[:3]
    return oracle_run(g, cons)


def oracle_join(out):
    kv = dict(p.split("=") for p in out.split(" ") if "=" in p)
    if not out.startswith("sub "):
        return (False, "the rtmp player never reached the observer: " + out)
    if kv.get("write") != "ok":
        return (False, "an rtmp player was handed to the upper layer (OnNewRtmpSubSession: it enters the group's fan-out set) while its "
                       "connection still writes synchronously; it stalls, a publisher message arrives: the write is %s - under the group "
                       "mutex this parks the publisher and every other subscriber (%s)" % (kv.get("write"), out))
    if num(kv.get("chan", "0")) < 1 or num(kv.get("wto", "0")) < 1 or num(kv.get("full_behavior", "0")) != 1:
        return (False, "an rtmp player entered the fan-out set without write queue / write timeout / ReturnError: " + out)
    if "session-stuck" in out:
        return (False, "the session did not end after its connection was closed")
    return (True, "")


COST_US_PER_WRITE = 1000     # measured 1-3 us per write; the bound is per-write mean of the fastest of 3 batches


def oracle_cost(f, out):
    kv = dict(p.split("=") for p in out.split(" ") if "=" in p)
    if "best_us" not in kv:
        return (False, "cost measurement did not complete: " + out)
    n = int(kv["n"])
    if int(kv["attempts"]) != n * int(f[2]):
        return (False, "%s: %s connection write calls for %d session writes to a full queue (retry)" % (f[1], kv["attempts"], n))
    if int(kv["best_us"]) > n * COST_US_PER_WRITE:
        return (False, "%s: %d session writes to a consumer whose queue is full took the publisher %s us (fastest of %s batches; bound "
                       "%d us): a stalled consumer delays the publisher and every other subscriber" % (f[1], n, kv["best_us"], f[2], n * COST_US_PER_WRITE))
    return (True, "")


def fresh_msg(k):
    """the k-th message of the c15.fresh publisher (harness c15FreshMsg): (type, timestamp, payload)"""
    if k == 0:
        return (9, 0, bytes([0x17, 0, 0, 0, 0, 1, 100, 0, 31, 255, 225, 0, 10, 39, 100, 0, 31, 172, 86, 128, 180, 10, 25, 1, 0, 4, 40, 238, 60, 176]))
    if k == 1:
        return (8, 20, bytes([0xaf, 0, 0x12, 0x10]))
    if k % 3 == 0:
        return (8, k * 20, bytes([0xaf, 1, 0x21, 0x10, 0x04, 0x60, 0x8c, k & 0xFF]))
    if (k // 3) % 4 == 0 and k % 3 == 1:
        p = bytearray([0x17, 1, 0, 0, 0, 0, 0, 0, 6, 0x65, 0x88, 0x84, 0, k & 0xFF, 0x80]) + bytes(40)
        p[8] = len(p) - 9
        return (9, k * 20, bytes(p))
    return (9, k * 20, bytes([0x27, 1, 0, 0, 0, 0, 0, 0, 5, 0x41, 0x9a, 0, k & 0xFF, 0x80]))


def oracle_fresh(f, out):
    gop, kind, cap, npre, npost = int(f[1]), f[2], int(f[3]), int(f[4]), int(f[5])
    if "blocked@" in out:
        return (False, "a fresh %s player that does not read from its first byte joined a group (gop cache %d) in mid-stream: the "
                       "publisher's next message did not return (%s) - a call that waits for that player's connection is made under the "
                       "group mutex, the publisher and every other subscriber are parked" % (kind, gop, out))
    kv = dict(p.split("=", 1) for p in out.split(" ") if "=" in p)
    if kv.get("pub") != "ok" or "healthy" not in kv:
        return (False, "unreadable output: " + vf.short(out, 120))
    st, wire = kv["healthy"].split(";")
    wire = tok_bytes(wire)
    if st != "o":
        return (False, "the reading %s twin was disconnected while a fresh player stalled" % kind)
    msgs = [fresh_msg(k) for k in range(npre + npost)]
    try:
        if kind == "rtmp":
            want = b"".join(ref_rtmp_chunks({8: 6, 9: 7}[m[0]], m[0], m[1], 1, m[2], 4096) for m in msgs)
            ok = wire == want
        elif kind in ("flv", "wsflv"):
            tags = [ref_flv_tag(*m) for m in msgs]
            want = b"H" + (FLV_HEADER + b"".join(tags) if kind == "flv" else ref_ws_frame(FLV_HEADER) + b"".join(ref_ws_frame(t) for t in tags))
            ok = wire == want
        else:
            body = wire[1:] if kind in ("ts", "wsts") else wire
            if kind in ("ts", "wsts") and wire[:1] != b"H":
                return (False, "no HTTP response in front of the reading twin's stream")
            frames, rest = split_stream(kind, body)
            # the remuxed outputs are not re-derived here: whole frames, and as many as the stream must have produced
            ok = not rest and (len(frames) >= (npre + npost) // 4 or npre + npost < 20)
        if not ok:
            return (False, "the reading %s twin did not receive every message while a fresh player stalled (%d bytes)" % (kind, len(wire)))
    except ValueError as e:
        return (False, "the reading twin's stream is not well framed: %s" % e)
    return (True, "")


FANOUT_FUNCS = ("broadcastByRtmpMsg", "feedRtpPacket", "feedTsPackets", "write2RtmpSubSessions", "writev2RtmpSubSessions",
                "write2HttpflvSubSessions", "write2HttptsSubSessions", "feedWaitRtspSubSessions")


def static_fanout_facts():
    """source fact: inside the fan-out functions of logic.Group no call that can wait on a subscriber's connection
    (Flush waits for its write goroutine, Close / Dispose of a connection may too) is made on a session"""
    import re
    path = os.path.join(os.environ.get("LAL_REPO", "/repo"), "pkg/logic/group__core_streaming.go")
    src = open(path).read()
    bad = []
    for m in re.finditer(r"^func \(group \*Group\) (\w+)\(.*?^}", src, re.S | re.M):
        if m.group(1) not in FANOUT_FUNCS:
            continue
        for n, ln in enumerate(m.group(0).split("\n")):
            code = ln.split("//")[0]
            if re.search(r"\b(session|s|sub)\.(Flush|Close|Dispose)\(", code):
                bad.append("%s: `%s`" % (m.group(1), code.strip()))
    return bad


def oracle_group(f, cons):
    cap, subs = int(f[1]), f[2]
    ops = f[3].split(",") if f[3] != "-" else []
    tag = f[4] if len(f) > 4 else ""
    if len(cons) != len(subs):
        return (False, "wrong number of consumers in the output")
    msgs = []
    for o in ops:
        if o[0] == "p":
            t, ts, p = o[1:].split(":")
            msgs.append((num(t), num(ts), tok_bytes(p)))
    touched, stalled = sched_facts(ops, len(subs))
    for i, (ch, x) in enumerate(zip(subs, cons)):
        wire = x["wire"]
        if ch in "fw":
            if wire[:1] == b"H":
                wire = wire[1:]
            elif wire:
                return (False, "consumer %d: stream does not start with the HTTP response" % i)
            kind = "flv" if ch == "f" else "wsflv"
            tags = [ref_flv_tag(*m) for m in msgs]
            if ch == "f":
                if wire and not (wire.startswith(FLV_HEADER) or FLV_HEADER.startswith(wire)):
                    return (False, "consumer %d: no FLV header after the HTTP response" % i)
                body = wire[len(FLV_HEADER):]
                if len(wire) < len(FLV_HEADER):
                    if wire and x["state"] != "c":
                        return (False, "consumer %d: FLV header cut on an open connection" % i)
                    body = b""
                y = dict(x, wire=body)
                why = check_consumer("flv", y, tags)
            else:
                frames, rest = parse_ws(wire)
                if frames and frames[0] != FLV_HEADER:
                    return (False, "consumer %d: first WebSocket frame is not the FLV header" % i)
                for p in frames[1:]:
                    fr, r2 = parse_flv_tags(p)
                    if r2 or len(fr) != 1:
                        return (False, "consumer %d: a WebSocket frame does not carry exactly one FLV tag" % i)
                if not is_subseq(frames[1:], tags):
                    return (False, "consumer %d: received tags are not a sub-sequence of the published ones" % i)
                why = None
                if rest:
                    if x["state"] != "c":
                        why = "connection still open and idle but the stream ends inside a WebSocket frame"
                    elif not any(ref_ws_frame(u).startswith(rest) for u in [FLV_HEADER] + tags):
                        why = "closed stream ends with bytes that are not the beginning of a frame lal wrote"
            if why:
                return (False, "consumer %d (%s): %s" % (i, kind, why))
            complete = b"H" + (FLV_HEADER + b"".join(tags) if ch == "f" else ref_ws_frame(FLV_HEADER) + b"".join(ref_ws_frame(t) for t in tags))
        else:
            units = []
            for o in ops:
                if o[0] == "p":
                    t, ts, pl = o[1:].split(":")
                    units.append(ref_rtmp_chunks({8: 6, 9: 7, 18: 5}[num(t)], num(t), num(ts), 1, tok_bytes(pl), 4096))
                elif o[0] == "i" and parse_in(o)[0] == i and parse_in(o)[1][0] == "k":
                    units.append(ref_rtmp_pong(num(parse_in(o)[1][1:])))
            why = check_consumer("rtmp", x, units, 4096)
            if why:
                return (False, "consumer %d (rtmp): %s" % (i, why))
            complete = b"".join(units)
        if stalled[i] and x["state"] != "c":
            return (False, "consumer %d completed no write between two sweeps and is still connected" % i)
        nreply = sum(1 for o in ops if ch == "r" and o[0] == "i" and parse_in(o)[0] == i and parse_in(o)[1][0] == "k")
        if not 0 <= x["att"] - (len(msgs) + (2 if ch in "fw" else 0)) <= nreply:
            return (False, "consumer %d: %d connection write calls for %d messages%s (one connection write per unit: a rejected write is dropped at once, not retried)"
                           % (i, x["att"], len(msgs), " + response header + FLV header" if ch in "fw" else ""))
        if tag == "healthy0" and i == 0:
            if x["state"] != "o" or x["wire"] != complete:
                return (False, "consumer 0 reads everything at once but did not receive every published message (others stalled)")
    return (True, "")


def classify_finding(c, out):
    return None


def neighbors(c, rng):
    f = c.line.split(" ")
    if f[0] != "c15.run":
        return
    ops = f[2].split(",") if f[2] != "-" else []
    # drop one op at a time, and vary capacities
    for k in range(len(ops)):
        yield "c15.run %s %s" % (f[1], ",".join(ops[:k] + ops[k + 1:]) or "-")
    specs = [kc.split(":") for kc in f[1].split(",")]
    for capd in (1, 2, 3, 4):
        yield "c15.run %s %s" % (",".join("%s:%d" % (k, capd) for k, _ in specs), f[2])


def shrink(ctx, c):
    """remove schedule ops while the oracle still fails on the implementation"""
    f = c.line.split(" ")
    if f[0] not in ("c15.run", "c15.group", "c15.rgroup"):
        return c.line
    idx = 2 if f[0] == "c15.run" else 3
    ops = f[idx].split(",")
    tagged = len(f) > idx + 1

    def fails(o):
        l = " ".join(f[:idx] + [",".join(o) or "-"] + f[idx + 1:])
        out = vf.run_lines(ctx["probe"], [l], full=True)[0]
        r = oracle(Case(l), out)
        return r is not None and not r[0]
    changed = True
    while changed and len(ops) > 1:
        changed = False
        for k in range(len(ops)):
            o = ops[:k] + ops[k + 1:]
            if fails(o):
                ops, changed = o, True
                break
    return " ".join(f[:idx] + [",".join(ops)] + f[idx + 1:])


# ------------------------------------------------------------------ pipeline: generic diff + implementation-only ops
def run(ctx, cases, cov, violations, known_hits, notes):
    impl_only = [c for c in cases if c.line.split(" ")[0] in ("c15.consts", "c15.rt", "c15.join", "c15.cost", "c15.fresh")]
    rest = [c for c in cases if c not in impl_only]
    import sys
    vf.generic_diff(sys.modules[__name__], ctx, rest, cov, violations, known_hits, notes)
    lines = [c.line for c in impl_only if c.line.startswith("c15.consts")] or ["c15.consts"]
    outs = vf.run_lines(ctx["probe"], lines, full=True)
    cov["constants"] = outs[0]
    r = oracle_consts(outs[0])
    cov["evaluations"] += len(lines)
    cov["oracle_evaluated"] += 1
    if not r[0]:
        cov["oracle_failed"] += 1
        path = vf.write_replay(ctx["prop"], dict(property=ctx["prop"], case=lines[0], impl=outs[0], oracle=False, why=r[1], broken=None))
        violations.append(("oracle", "side condition of the theorems fails on the working tree: " + r[1], path, False))
    # implementation-only ops judged by the oracle: the join of an rtmp player, the cost of a write to a full queue
    bad = static_fanout_facts()
    cov["static_fanout"] = bad or "no Flush / Close / Dispose of a session inside " + ", ".join(FANOUT_FUNCS)
    if bad:
        path = vf.write_replay(ctx["prop"], dict(property=ctx["prop"], case="static: pkg/logic/group__core_streaming.go", impl="; ".join(bad), oracle=False,
                                                 why="a call that can wait on a subscriber's connection inside the fan-out", broken=None))
        violations.append(("oracle", "a call that can wait on a subscriber's connection is made inside the fan-out (under the group mutex): " + "; ".join(bad), path, False))
    jl = [c.line for c in impl_only if c.line.split(" ")[0] in ("c15.join", "c15.cost", "c15.fresh")]
    if jl:
        jo = vf.run_lines(ctx["probe"], jl, full=True, timeout=120)
        cov["join_cost"] = [dict(case=vf.short(l, 60), observed=vf.short(o, 100)) for l, o in zip(jl, jo)]
        for l, o in zip(jl, jo):
            r = oracle(Case(l), o)
            cov["evaluations"] += 1
            cov["oracle_evaluated"] += 1
            if r is not None and not r[0]:
                cov["oracle_failed"] += 1
                path = vf.write_replay(ctx["prop"], dict(property=ctx["prop"], case=l, impl=o, oracle=False, why=r[1], broken=None))
                violations.append(("oracle", r[1], path, False))
    if ctx["tier"] == "thorough" or os.environ.get("C15_RUNTIME") == "1":
        rt_lines = ["c15.rt 4000 8192 1000 250", "c15.rt 1500 65536 500 500"]
        rouT = vf.run_lines(ctx["probe"], rt_lines, full=True, timeout=300)
        cov["runtime"] = []
        for l, o in zip(rt_lines, rouT):
            cov["runtime"].append(dict(case=l, measured=o))
            kv = dict(p.split("=") for p in o.split(" ") if "=" in p)
            notes.append("runtime (measured, not proved) `%s`: %s" % (l, o))
            gross = None
            if not kv:
                gross = "runtime measurement did not complete: " + o
            elif int(kv["lat_max_us"]) > 1000000:
                gross = "a fan-out call took %s us with one consumer stalled" % kv["lat_max_us"]
            elif int(kv["stalled_gone_ms"]) < 0:
                gross = "the stalled consumer was still connected %d s after its write deadline" % 10
            elif int(kv["healthy_bytes"]) < int(kv["healthy_expected"]):
                gross = "the healthy consumer received %s of %s bytes while another one was stalled" % (kv["healthy_bytes"], kv["healthy_expected"])
            if gross:
                path = vf.write_replay(ctx["prop"], dict(property=ctx["prop"], case=l, impl=o, oracle=False, why=gross, broken=None))
                violations.append(("runtime", gross, path, False))
