# C12 - RTP packetise/depacketise is lossless under size, reordering and wrap-around.
#
# ops (see harness/cmd/lalprobe/c12.go, ocaml/drv_c12.ml):
#   c12.seq <a> <b>                                   -> CompareSeq SubSeq
#   c12.pack <kind> <firstseq> <rate> <ssrc> <maxp> <frames>   -> raw packets per frame, next seq
#   c12.rt <kind> <firstseq> <rate> <maxp> <W> <frames> <schedule>
#                                                      -> #packets, emitted AvPackets, list state
#   c12.unpack <proto> <rate> <W> <seq:ts:body,...>    -> emitted AvPackets, list state
# frames = ms@unit|unit;ms@unit ; schedule = packet indices in arrival order, '*' = in order.
from lib.vf import Case
from gen.common import *

ID = "C12"
RULE = ("boundary sweep: every first NAL header byte (AVC F x NRI x type, HEVC F x type x layer msb) and HEVC second byte x unit sizes "
        "{1,2,maxp-1,maxp,maxp+1,2maxp-hdr-1..+1,3maxp-2hdr..} x first sequence numbers {0,65530,65535} x clock rates x media times at the "
        "2^32 wrap for RtpPacker.Pack; CompareSeq/SubSeq at every threshold; pack -> arrival schedule -> RtpUnpackContainer.Feed with "
        "in-order, adjacent swaps, block rotations, duplicates, stale repeats, window overflow (forced progress) and wrap-around; foreign "
        "packets (STAP-A, AP, multi-AU and fragmented AAC) and a mutation stream of truncated / bit-flipped bodies.  Non-trivial = distinct "
        "(op, kind, size class, header byte / schedule class) whose model output is not an error")
ASSUMPTIONS = ["media time * clock rate < 2^50 (float64 arithmetic of RtpPacker.Pack is exact there)",
               "max payload size = FU header size (2 / 3) is never run: PackNal does not terminate there",
               "the AVCC splitter of Pack (avc.SplitNaluAvcc) is fed well-formed AVCC with non-empty units (its own property is C19)",
               "packets reach the container as built by MakeRtpPacket (no padding, no extension: header parsing is C13)"]
FULL_OUTPUT = True
TIMEOUT = 1500

HDR = {"avc": 2, "avcf": 2, "hevc": 3, "hevcf": 3}
PT = {"avc": 96, "avcf": 96, "hevc": 98, "hevcf": 98, "aac": 97, "pcma": 8, "pcmu": 0, "opus": 101}
HEVC_KNOWN = set(range(48))   # every single NAL unit packet type of RFC 7798 (C07 fix b865944; was: the keys of hevc.NaluTypeMapping)


# ------------------------------------------------------------------ reference (written from the RFCs)
def ref_split_aggr(b):
    out = []
    i = 0
    while i < len(b):
        if len(b) - i < 2:
            raise ValueError("aggregation unit header truncated")
        n = (b[i] << 8) | b[i + 1]
        if i + 2 + n > len(b):
            raise ValueError("aggregation unit truncated")
        out.append(bytes(b[i + 2:i + 2 + n]))
        i += 2 + n
    return out


def ref_depack_h264(payloads):
    """RFC 6184 non-interleaved mode: list of NAL units"""
    out = []
    cur = None
    for p in payloads:
        if len(p) < 1:
            raise ValueError("empty payload")
        t = p[0] & 0x1F
        if 1 <= t <= 23:
            if cur is not None:
                raise ValueError("single NAL inside a fragmented unit")
            out.append(bytes(p))
        elif t == 24:
            if cur is not None:
                raise ValueError("STAP-A inside a fragmented unit")
            out += ref_split_aggr(p[1:])
        elif t == 28:
            if len(p) < 2:
                raise ValueError("short FU-A")
            s, e = p[1] >> 7, (p[1] >> 6) & 1
            hdr = (p[0] & 0xE0) | (p[1] & 0x1F)
            if s:
                if cur is not None:
                    raise ValueError("FU-A start inside a fragmented unit")
                cur = bytearray([hdr]) + p[2:]
            else:
                if cur is None:
                    raise ValueError("FU-A continuation without start")
                if hdr != cur[0]:
                    raise ValueError("FU-A fragments disagree on F/NRI/type: %02x vs %02x" % (hdr, cur[0]))
                cur += p[2:]
            if e:
                out.append(bytes(cur))
                cur = None
        else:
            raise ValueError("payload type %d not allowed" % t)
    if cur is not None:
        raise ValueError("unterminated FU-A")
    return out


def ref_depack_h265(payloads):
    """RFC 7798 (no DONL): list of NAL units"""
    out = []
    cur = None
    for p in payloads:
        if len(p) < 2:
            raise ValueError("short payload header")
        t = (p[0] >> 1) & 0x3F
        if t == 48:
            if cur is not None:
                raise ValueError("AP inside a fragmented unit")
            out += ref_split_aggr(p[2:])
        elif t == 49:
            if len(p) < 3:
                raise ValueError("short FU")
            s, e, ft = p[2] >> 7, (p[2] >> 6) & 1, p[2] & 0x3F
            if s:
                if cur is not None:
                    raise ValueError("FU start inside a fragmented unit")
                cur = bytearray([(p[0] & 0x81) | (ft << 1), p[1]]) + p[3:]
            else:
                if cur is None:
                    raise ValueError("FU continuation without start")
                if ((p[0] & 0x81) | (ft << 1), p[1]) != (cur[0], cur[1]):
                    raise ValueError("FU fragments disagree on the NAL header: %02x%02x vs %02x%02x" % ((p[0] & 0x81) | (ft << 1), p[1], cur[0], cur[1]))
                cur += p[3:]
            if e:
                out.append(bytes(cur))
                cur = None
        elif t == 50:
            raise ValueError("PACI not allowed")
        else:
            if cur is not None:
                raise ValueError("single NAL inside a fragmented unit")
            out.append(bytes(p))
    if cur is not None:
        raise ValueError("unterminated FU")
    return out


def ref_depack_aac(payloads):
    """RFC 3640 AAC-hbr (sizelength 13, indexlength 3), complete access units"""
    out = []
    for p in payloads:
        if len(p) < 2:
            raise ValueError("no AU-headers-length")
        bits = (p[0] << 8) | p[1]
        if bits % 16:
            raise ValueError("AU-headers-length is not a multiple of 16")
        n = bits // 16
        if len(p) < 2 + 2 * n:
            raise ValueError("AU headers truncated")
        sizes = [((p[2 + 2 * i] << 8) | p[3 + 2 * i]) >> 3 for i in range(n)]
        data = p[2 + 2 * n:]
        if sum(sizes) != len(data):
            raise ValueError("AU sizes %r do not add up to the data length %d" % (sizes, len(data)))
        i = 0
        for s in sizes:
            out.append(bytes(data[i:i + s]))
            i += s
    return out


def parse_rtp(raw):
    if len(raw) < 12:
        raise ValueError("short RTP packet")
    return dict(v=raw[0] >> 6, p=(raw[0] >> 5) & 1, x=(raw[0] >> 4) & 1, cc=raw[0] & 15, m=raw[1] >> 7, pt=raw[1] & 0x7F,
                seq=(raw[2] << 8) | raw[3], ts=int.from_bytes(raw[4:8], "big"), ssrc=int.from_bytes(raw[8:12], "big"),
                payload=raw[12:])


def n_packets(kind, n, maxp):
    """how many RTP packets a unit of n bytes needs (RFC arithmetic)"""
    if kind not in HDR or n <= maxp:
        return 1
    h = HDR[kind]
    body = n - (h - 1)
    chunk = maxp - h
    return -(-body // chunk)


def is_aud(kind, u):
    if kind == "avcf":
        return (u[0] & 0x1F) == 9
    if kind == "hevcf":
        return ((u[0] >> 1) & 0x3F) == 35
    return False


def unit_roundtrips(kind, u):
    """unit types for which the RFCs define a single-NAL / fragmented transport"""
    if kind in ("avc", "avcf"):
        return len(u) >= 1 and 1 <= (u[0] & 0x1F) <= 23
    if kind in ("hevc", "hevcf"):
        return len(u) >= 2 and ((u[0] >> 1) & 0x3F) not in (48, 49, 50)
    if kind == "aac":
        return len(u) < 8192
    return True


def unit_unpackable_by_lal(kind, u):
    """lal's depacketiser additionally needs a NAL type it knows as 'single'"""
    if kind in ("avc", "avcf"):
        return len(u) >= 1 and (u[0] & 0x1F) <= 23
    if kind in ("hevc", "hevcf"):
        return len(u) >= 2 and ((u[0] >> 1) & 0x3F) in HEVC_KNOWN
    if kind == "aac":
        return len(u) < 8192
    return len(u) >= 0


def parse_frames(tok):
    if tok == "-":
        return []
    out = []
    for fs in tok.split(";"):
        ms, us = fs.split("@", 1)
        out.append((num(ms), [tok_bytes(u) for u in us.split("|")]))
    return out


def frame_units(kind, units):
    if kind in ("avcf", "hevcf"):
        return [u for u in units if not is_aud(kind, u)]
    return units[:1]


def avcc(u):
    return len(u).to_bytes(4, "big") + u


# ------------------------------------------------------------------ oracle
def oracle_seq(a, b):
    d = (a - b + 32768) % 65536 - 32768       # signed distance, RFC 3550 / RFC 1982 serial arithmetic
    if (a - b) % 65536 == 32768:
        return None                            # undefined in serial number arithmetic
    cmp_ = (d > 0) - (d < 0)
    sub = d if abs(d) < 16384 else None
    return cmp_, sub


def sint(tok):
    return -num(tok[1:]) if tok.startswith("-") else num(tok)


def oracle(c, out):
    f = c.line.split(" ")
    op = f[0]
    if out.startswith(("crash@", "timeout")):
        return (False, "implementation crashed: " + out)
    try:
        if op == "c12.seq":
            a, b = num(f[1]), num(f[2])
            exp = oracle_seq(a, b)
            if exp is None:
                return None
            o = out.split(" ")
            if sint(o[0]) != exp[0]:
                return (False, "CompareSeq(%d,%d)=%d, serial-number order gives %d" % (a, b, sint(o[0]), exp[0]))
            if exp[1] is not None and sint(o[1]) != exp[1]:
                return (False, "SubSeq(%d,%d)=%d, expected %d" % (a, b, sint(o[1]), exp[1]))
            if (sint(o[1]) == 1) != ((a - b) % 65536 == 1):
                return (False, "SubSeq(%d,%d)==1 must hold exactly for successors" % (a, b))
            return (True, "")
        if op == "c12.pack":
            return oracle_pack(f, out)
        if op == "c12.rt":
            return oracle_rt(f, out)
        if op == "c12.unpack":
            return oracle_unpack(f, out)
    except ValueError as e:
        return (False, "reference depacketiser rejects the packets: %s" % e)
    return None


def pack_in_domain(kind, maxp, frames):
    if maxp <= 0:
        return False
    for ms, units in frames:
        for u in frame_units(kind, units):
            if len(u) == 0:
                return False
            if kind in HDR and len(u) > maxp and maxp <= HDR[kind]:
                return False
            if not unit_roundtrips(kind, u):
                return False
    return True


def oracle_pack(f, out):
    kind, first, rate, ssrc, maxp = f[1], num(f[2]), num(f[3]), num(f[4]), num(f[5])
    frames = parse_frames(f[6])
    if not pack_in_domain(kind, maxp, frames):
        return None
    if out.startswith("panic@"):
        return (False, "packer panics: " + out)
    o = out.split(" ")
    fouts = [] if o[0] == "-" else o[0].split(";")
    if len(fouts) != len(frames):
        return (False, "%d frames packed, %d returned" % (len(frames), len(fouts)))
    seq = first
    for (ms, units), fo in zip(frames, fouts):
        pk = [] if fo == "_" else [parse_rtp(tok_bytes(x)) for x in fo.split(",")]
        want_ts = (ms * rate // 1000) % (1 << 32)
        for i, p in enumerate(pk):
            if (p["v"], p["p"], p["x"], p["cc"]) != (2, 0, 0, 0):
                return (False, "RTP fixed header bits wrong")
            if p["pt"] != PT[kind] or p["ssrc"] != ssrc % (1 << 32):
                return (False, "payload type / ssrc wrong")
            if p["seq"] != seq:
                return (False, "sequence number %d, expected %d (previous + 1 mod 2^16)" % (p["seq"], seq))
            seq = (seq + 1) % 65536
            if p["ts"] != want_ts:
                return (False, "timestamp %d, expected floor(%d*%d/1000) mod 2^32 = %d" % (p["ts"], ms, rate, want_ts))
            if p["m"] != (1 if i == len(pk) - 1 else 0):
                return (False, "marker bit %d on packet %d of %d" % (p["m"], i + 1, len(pk)))
            if kind in HDR and len(p["payload"]) > maxp:
                return (False, "payload of %d bytes exceeds the limit %d" % (len(p["payload"]), maxp))
        pls = [p["payload"] for p in pk]
        want = frame_units(kind, units)
        if kind in ("avc", "avcf"):
            got = ref_depack_h264(pls)
        elif kind in ("hevc", "hevcf"):
            got = ref_depack_h265(pls)
        elif kind == "aac":
            got = ref_depack_aac(pls)
        else:
            got = [bytes(x) for x in pls]
        if got != want:
            k = next((i for i in range(min(len(got), len(want))) if got[i] != want[i]), min(len(got), len(want)))
            d = ""
            if k < len(got) and k < len(want):
                j = next((i for i in range(min(len(got[k]), len(want[k]))) if got[k][i] != want[k][i]), min(len(got[k]), len(want[k])))
                d = "; unit %d differs at byte %d: got %s.. want %s.. (lengths %d/%d)" % (
                    k, j, got[k][max(0, j - 1):j + 3].hex(), want[k][max(0, j - 1):j + 3].hex(), len(got[k]), len(want[k]))
            return (False, "RFC depacketiser returns %d units for %d packed%s" % (len(got), len(want), d))
        if sum(n_packets(kind, len(u), maxp) for u in want) != len(pk):
            return (False, "%d packets, RFC arithmetic gives %d" % (len(pk), sum(n_packets(kind, len(u), maxp) for u in want)))
    if num(o[1]) != seq:
        return (False, "next sequence number")
    return (True, "")


def out_ms(ms, rate):
    # milliseconds of an rtp timestamp: floor(ts * 1000 / rate)  (C07 fix 186fc1c; was ts // (rate // 1000))
    return ((ms * rate // 1000) % (1 << 32)) * 1000 // rate


def schedule_of(tok, n):
    if tok == "*":
        return list(range(n))
    if tok == "-":
        return []
    return [i for i in (num(x) for x in tok.split(",")) if i < n]


def ideal_run(frame_sizes, sched, W):
    """abstract reorder buffer over packet indices: returns (delivered frames,
    ok) where ok = the schedule stays inside the window the property speaks of"""
    bounds = []
    s = 0
    for k in frame_sizes:
        bounds.append((s, s + k))
        s += k
    recv = set()
    frontier = 0            # index of the first packet not consumed
    j = 0                   # frames delivered
    ok = True
    for t, i in enumerate(sched):
        if t == 0 and i != 0:
            ok = False
        if abs(i - frontier) >= 16384:
            ok = False
        if i >= frontier:
            recv.add(i)
        while j < len(bounds) and all(x in recv for x in range(*bounds[j])):
            for x in range(*bounds[j]):
                recv.discard(x)
            frontier = bounds[j][1]
            j += 1
        if len(recv) >= W:
            ok = False
    return j, ok, len(recv)


def oracle_rt(f, out):
    kind, first, rate, maxp, W = f[1], num(f[2]), num(f[3]), num(f[4]), num(f[5])
    frames = parse_frames(f[6])
    if not pack_in_domain(kind, maxp, frames) or rate < 1000:
        return None
    for ms, units in frames:
        for u in frame_units(kind, units):
            if not unit_unpackable_by_lal(kind, u):
                return None
    sizes = []
    exp = []
    for ms, units in frames:
        us = frame_units(kind, units)
        if not us:
            continue
        for u in us:
            sizes.append(n_packets(kind, len(u), maxp))
            exp.append((out_ms(ms, rate), avcc(u) if kind in HDR else u))
    n = sum(sizes)
    sched = schedule_of(f[7], n)
    j, ok, pending = ideal_run(sizes, sched, W)
    if not ok:
        return None
    if out.startswith("panic@"):
        return (False, "depacketiser panics: " + out)
    o = out.split(" ")
    if num(o[0]) != n:
        return (False, "%d packets, RFC arithmetic gives %d" % (num(o[0]), n))
    got = [] if o[1] == "-" else [(num(x.split(":")[0]), tok_bytes(x.split(":")[1])) for x in o[1].split(",")]
    want = exp[:j]
    if got != want:
        k = next((i for i in range(min(len(got), len(want))) if got[i] != want[i]), min(len(got), len(want)))
        d = ""
        if k < len(got) and k < len(want):
            d = ": got (%d, %s..[%d]) want (%d, %s..[%d])" % (got[k][0], got[k][1][:8].hex(), len(got[k][1]), want[k][0], want[k][1][:8].hex(), len(want[k][1]))
        return (False, "depacketised output differs from the in-order units at unit %d of %d/%d%s" % (k, len(got), len(want), d))
    nlist = 0 if o[2] == "-" else len(o[2].split("/"))
    if nlist != pending or sint(o[3]) != nlist:
        return (False, "reorder list holds %d packets, Size=%d, %d pending" % (nlist, sint(o[3]), pending))
    return (True, "")


def oracle_unpack(f, out):
    # foreign packets: only the list bookkeeping is part of the property here
    if out.startswith("panic@"):
        return None
    o = out.split(" ")
    if len(o) != 5:
        return None
    nlist = 0 if o[1] == "-" else len(o[1].split("/"))
    if sint(o[2]) != nlist:
        # A.3: the list is exactly the set of received, not yet consumed packets; Size is its length
        return (False, "RtpPacketList.Size=%d but the list holds %d packets (a drifting Size makes Full() lie: forced progress "
                       "inside the window)" % (sint(o[2]), nlist))
    meta = UNPACK_EXPECT.get(" ".join(f))
    if meta is not None:
        got = [] if o[0] == "-" else [(num(x.split(":")[0]), tok_bytes(x.split(":")[1])) for x in o[0].split(",")]
        if got != meta:
            return (False, "aggregated / multi-AU packets: emitted units differ from the reference")
        if sint(o[2]) != nlist:
            return (False, "Size=%d but the list holds %d packets" % (sint(o[2]), nlist))
        return (True, "")
    return None


UNPACK_EXPECT = {}


# ------------------------------------------------------------------ generator
def unit_tok(rng, first_bytes, n):
    """unit of n bytes starting with first_bytes"""
    fb = bytes(first_bytes[:n])
    rest = n - len(fb)
    if rest <= 0:
        return hex_tok(fb)
    if rest <= 20:
        return hex_tok(fb + bytes(rng.randrange(256) for _ in range(rest)))
    return "%s+r%d.%d" % (fb.hex(), rest, rng.randrange(1 << 16))


def sizes_around(maxp, hdr):
    c = maxp - hdr
    s = {1, 2, 3, maxp - 1, maxp, maxp + 1, maxp + 2, 2 * maxp - hdr - 1, 2 * maxp - hdr, 2 * maxp - hdr + 1,
         (hdr - 1) + 2 * c - 1, (hdr - 1) + 2 * c, (hdr - 1) + 2 * c + 1, (hdr - 1) + 3 * c, (hdr - 1) + 3 * c + 1, 5 * maxp + 3}
    return sorted(x for x in s if x >= 1)


def mk_schedule(rng, sizes, W, style):
    n = sum(sizes)
    idx = list(range(n))
    if style == "inorder":
        return idx
    if style == "swap":
        i = 1
        while i + 1 < n:
            if rng.random() < 0.5:
                idx[i], idx[i + 1] = idx[i + 1], idx[i]
                i += 2
            else:
                i += 1
        return idx
    if style == "rotate":
        out = [0]
        i = 1
        while i < n:
            k = rng.randrange(1, max(2, min(W - 1, 6)))
            blk = idx[i:i + k]
            r = rng.randrange(len(blk))
            out += blk[r:] + blk[:r]
            i += k
        return out
    if style == "dup":
        out = []
        for i in idx:
            out.append(i)
            if rng.random() < 0.4:
                out.append(i)
            if rng.random() < 0.3 and i > 0:
                out.append(rng.randrange(0, i + 1))      # stale or pending repeat
        return out
    if style == "mix":
        base = mk_schedule(rng, sizes, W, "rotate")
        out = []
        for i in base:
            out.append(i)
            if rng.random() < 0.25:
                out.append(rng.choice(out))
        return out
    if style == "late":
        # one packet held back beyond the window: forced progress
        if n < 3:
            return idx
        h = rng.randrange(0, n - 1)
        out = [i for i in idx if i != h]
        pos = min(len(out), h + rng.randrange(1, W + 4))
        out.insert(pos, h)
        return out
    if style == "reverse":
        return idx[::-1]
    if style == "shuffle":
        rng.shuffle(idx)
        return idx
    if style == "lossy":
        return [i for i in idx if rng.random() < 0.8]
    return idx


def sched_tok(s, n):
    if s == list(range(n)):
        return "*"
    return ",".join(str(i) for i in s) if s else "-"


AVC_TYPES_OK = list(range(1, 24))


def gen_cases(tier, rng):
    thorough = tier == "thorough"
    # ---- CompareSeq / SubSeq ----
    pts = [0, 1, 2, 16383, 16384, 16385, 32767, 32768, 32769, 49151, 49152, 49153, 65534, 65535]
    for a in pts:
        for b in pts:
            yield Case("c12.seq %d %d" % (a, b), cls="seq")
    for base in [0, 1000, 40000, 65535, 32768]:
        for d in [0, 1, 2, 16382, 16383, 16384, 16385, 32766, 32767, 32768, 32769, 49151, 49152, 49153, 65534, 65535]:
            yield Case("c12.seq %d %d" % ((base + d) % 65536, base), cls="seq")
            yield Case("c12.seq %d %d" % (base, (base + d) % 65536), cls="seq")
    for _ in range(1000 if not thorough else 20000):
        yield Case("c12.seq %d %d" % (rng.randrange(65536), rng.randrange(65536)), cls="seq")

    # ---- RtpPacker.Pack: header byte sweep ----
    seqs = [0, 65530, 65535]
    k = 0
    for b0 in range(256):
        # AVC: F x NRI x type, one unit below and two above the limit
        for maxp, n in ((12, 5), (12, 13), (9, 30)):
            k += 1
            yield Case("c12.pack avc %d 90000 0x%x %d %d@%s" % (seqs[k % 3], rng.randrange(1 << 32), maxp, rng.randrange(1 << 20),
                                                              unit_tok(rng, [b0], n)), cls="pack-avc-hdr")
        for b1 in (1, 0xA3 ^ (b0 & 0x5A), rng.randrange(256)):
            for maxp, n in ((12, 6), (12, 13), (7, 23)):
                k += 1
                yield Case("c12.pack hevc %d 90000 0x%x %d %d@%s" % (seqs[k % 3], rng.randrange(1 << 32), maxp, rng.randrange(1 << 20),
                                                                   unit_tok(rng, [b0, b1], n)), cls="pack-hevc-hdr")
    for b1 in range(256):
        for b0 in (0x26, 0x02, 0x40 | (b1 & 1), 0x81 ^ ((b1 * 2) & 0x7E)):
            yield Case("c12.pack hevc %d 90000 7 10 %d@%s" % (seqs[b1 % 3], b1, unit_tok(rng, [b0, b1], 27)), cls="pack-hevc-hdr2")
    # ---- sizes around the limit ----
    for kind, hdr, fb in (("avc", 2, [0x65]), ("avc", 2, [0xE1]), ("hevc", 3, [0x26, 0xA3]), ("hevc", 3, [0x03, 0xFF])):
        for maxp in ([hdr + 1, hdr + 2, 8, 100, 1200] if not thorough else [hdr + 1, hdr + 2, hdr + 3, 8, 9, 100, 500, 1200, 1400]):
            for n in sizes_around(maxp, hdr):
                if n > 40000:
                    continue
                yield Case("c12.pack %s %d 90000 0x%x %d %d@%s" % (kind, rng.choice(seqs), rng.randrange(1 << 32), maxp, rng.randrange(1 << 24),
                                                                 unit_tok(rng, fb, n)), cls="pack-size")
        # limits that cannot hold an FU header
        for maxp in (0, 1, hdr - 1):
            for n in (1, 2, 3, 5):
                yield Case("c12.pack %s 3 90000 7 %d 5@%s" % (kind, maxp, unit_tok(rng, fb, n)), cls="pack-tiny-limit")
    # ---- media time, clock rate, sequence wrap over several frames ----
    for rate in (90000, 8000, 16000, 44100, 48000, 1000, 999, 1):
        for ms in (0, 1, 999, 1000, 47721858, 47721859, 89478485, 89478486, (1 << 31), (1 << 32) - 1, (1 << 32), 1234567890123 % (1 << 33)):
            if ms * rate >= 1 << 50:
                continue
            kind = rng.choice(["avc", "hevc", "aac", "pcma", "pcmu", "opus"])
            fb = {"avc": [0x41], "hevc": [0x02, 0x01]}.get(kind, [])
            yield Case("c12.pack %s %d %d 0x%x 1200 %d@%s" % (kind, rng.choice(seqs), rate, rng.randrange(1 << 32), ms, unit_tok(rng, fb, rng.choice([3, 50, 1300]))), cls="pack-ts")
    for kind in ("avc", "hevc", "avcf", "hevcf", "aac", "pcma", "opus"):
        for first in (0, 65530, 65535, 65533):
            fr = []
            for i in range(6):
                if kind in ("avcf", "hevcf"):
                    us = []
                    for _ in range(rng.randrange(1, 4)):
                        fb = [rng.choice([0x67, 0x68, 0x65, 0x41, 0x09, 0x06])] if kind == "avcf" else [rng.choice([0x40, 0x42, 0x44, 0x26, 0x02, 0x46, 0x4E]), rng.choice([1, 0x0B])]
                        us.append(unit_tok(rng, fb, rng.choice([2, 5, 19, 20, 21, 45])))
                    fr.append("%d@%s" % (i * 40, "|".join(us)))
                else:
                    fb = {"avc": [0x41], "hevc": [0x02, 0x09]}.get(kind, [])
                    fr.append("%d@%s" % (i * 40, unit_tok(rng, fb, rng.choice([2, 5, 19, 20, 21, 45, 77]))))
            yield Case("c12.pack %s %d 90000 0x%x 20 %s" % (kind, first, rng.randrange(1 << 32), ";".join(fr)), cls="pack-stream")
    # ---- audio sizes ----
    for n in (0, 1, 2, 31, 32, 33, 255, 256, 1196, 1200, 1201, 4000, 8190, 8191, 8192, 8193, 9000):
        yield Case("c12.pack aac %d 44100 9 1200 %d@%s" % (rng.choice(seqs), rng.randrange(100000), unit_tok(rng, [], n)), cls="pack-aac")
    for kind in ("pcma", "pcmu", "opus"):
        for n in (0, 1, 2, 160, 1199, 1200, 1201, 5000):
            yield Case("c12.pack %s %d 8000 9 1200 %d@%s" % (kind, rng.choice(seqs), rng.randrange(100000), unit_tok(rng, [], n)), cls="pack-raw")
        yield Case("c12.pack %s 1 8000 9 0 5@0102" % kind, cls="pack-raw")
    yield Case("c12.pack aac 1 8000 9 0 5@0102", cls="pack-aac")

    # ---- round trip through the reorder container ----
    styles = ["inorder", "swap", "rotate", "dup", "mix", "late", "reverse", "shuffle", "lossy"]
    # every header byte once through pack -> unpack (in order and with a swap), first packet first
    for b0 in range(256):
        for kind in ("avc", "hevc"):
            hdr = HDR[kind]
            b1 = rng.choice([1, 0xA3, 0x0B, rng.randrange(256)])
            fb = [b0] if kind == "avc" else [b0, b1]
            n = rng.choice([hdr, 7, 9, 10, 11, 25])
            frames = "0@%s;40@%s;80@%s" % (unit_tok(rng, [0x41] if kind == "avc" else [0x02, 0x01], 3), unit_tok(rng, fb, n),
                                           unit_tok(rng, [0x41] if kind == "avc" else [0x02, 0x01], 4))
            sizes = [1, n_packets(kind, n, 10), 1]
            st = rng.choice(["inorder", "swap", "rotate", "dup"])
            s = mk_schedule(rng, sizes, 8, st)
            yield Case("c12.rt %s %d 90000 10 8 %s %s" % (kind, rng.choice(seqs + [65533, 65529]), frames, sched_tok(s, sum(sizes))), cls="rt-hdr-" + st)
    nrt = 8000 if not thorough else 60000
    for it in range(nrt):
        kind = rng.choice(["avc", "avc", "hevc", "hevc", "avcf", "hevcf", "aac", "pcma", "opus"])
        maxp = rng.choice([5, 6, 8, 10, 16, 50])
        W = rng.choice([1, 2, 3, 4, 5, 8, 16, 64])
        first = rng.choice([0, 1, 65530, 65535, 65536 - rng.randrange(1, 40), rng.randrange(65536)])
        rate = rng.choice([90000, 90000, 48000, 8000, 44100, 1000])
        nfr = rng.choice([1, 2, 3, 5, 8, 12])
        fr = []
        sizes = []
        for i in range(nfr):
            ms = i * 40 + rng.randrange(3)
            if kind in ("avcf", "hevcf"):
                us = []
                for _ in range(rng.randrange(1, 4)):
                    if kind == "avcf":
                        fb = [rng.choice([0x67, 0x68, 0x65, 0x41, 0x09, 0x06, 0x21, 0xE5])]
                    else:
                        fb = [rng.choice([0x40, 0x42, 0x44, 0x26, 0x02, 0x46, 0x4E, 0x27, 0x80 | 0x26]), rng.choice([1, 0x0B, 0xA3])]
                    n = rng.choice([2, 3, maxp - 1, maxp, maxp + 1, 2 * maxp, 3 * maxp + 1, rng.randrange(2, 6 * maxp)])
                    n = max(2, n)
                    u = unit_tok(rng, fb, n)
                    us.append(u)
                    if not is_aud(kind, bytes(fb)):
                        sizes.append(n_packets(kind, n, maxp))
                fr.append("%d@%s" % (ms, "|".join(us)))
            else:
                if kind == "avc":
                    fb = [rng.choice([0x65, 0x41, 0x67, 0x01, 0x7F & rng.randrange(256)])]
                    if (fb[0] & 0x1F) > 23 or (fb[0] & 0x1F) == 0:
                        fb = [0x65]
                elif kind == "hevc":
                    fb = [2 * rng.choice(sorted(HEVC_KNOWN)) | rng.choice([0, 0, 1]), rng.randrange(256)]
                else:
                    fb = []
                n = rng.choice([1, 2, 3, maxp - 1, maxp, maxp + 1, 2 * maxp, 3 * maxp + 1, rng.randrange(1, 6 * maxp)])
                n = max(len(fb) if fb else 1, n)
                fr.append("%d@%s" % (ms, unit_tok(rng, fb, n)))
                sizes.append(n_packets(kind, n, maxp))
        st = styles[it % len(styles)] if rng.random() < 0.8 else rng.choice(styles)
        s = mk_schedule(rng, sizes, W, st)
        yield Case("c12.rt %s %d %d %d %d %s %s" % (kind, first, rate, maxp, W, ";".join(fr), sched_tok(s, sum(sizes))), cls="rt-" + st)
    # long runs across the 2^16 wrap with a realistic window
    for it in range(12 if not thorough else 80):
        kind = rng.choice(["avc", "hevc"])
        fr = []
        sizes = []
        for i in range(60):
            n = rng.choice([3, 30, 100, 400])
            fb = [0x65] if kind == "avc" else [0x26, 0x01]
            fr.append("%d@%s" % (i * 33, unit_tok(rng, fb, n)))
            sizes.append(n_packets(kind, n, 40))
        s = mk_schedule(rng, sizes, 64, rng.choice(["rotate", "mix", "swap"]))
        yield Case("c12.rt %s %d 90000 40 64 %s %s" % (kind, 65536 - rng.randrange(1, 200), ";".join(fr), sched_tok(s, sum(sizes))), cls="rt-wrap-long")
    # realistic sizes
    for kind, fb in (("avc", [0x65]), ("hevc", [0x26, 0x01]), ("hevc", [0x28, 0xA3])):
        for n in ([1199, 1200, 1201, 2397, 2398, 2399, 30000] + ([100000, 307200, 307201] if thorough else [])):
            yield Case("c12.rt %s 65500 90000 1200 1024 0@%s;40@%s *" % (kind, unit_tok(rng, fb, n), unit_tok(rng, fb, 5)), cls="rt-big")
            yield Case("c12.pack %s 65500 90000 7 1200 0@%s" % (kind, unit_tok(rng, fb, n)), cls="pack-big")

    # ---- foreign packets for the depacketisers ----
    for c in gen_foreign(rng, 4000 if not thorough else 30000):
        yield c


def ref_aggr(units):
    return b"".join(len(u).to_bytes(2, "big") + u for u in units)


def gen_foreign(rng, nmut):
    base = []
    # STAP-A / AP in order, with singles around them
    for it in range(30):
        for proto in ("avc", "hevc"):
            units = [bytes([rng.choice([0x67, 0x68, 0x65, 0x41]) if proto == "avc" else rng.choice([0x40, 0x42, 0x44, 0x26])]) +
                     bytes(rng.randrange(256) for _ in range(rng.choice([0, 1, 2, 9, 30]))) for _ in range(rng.randrange(1, 4))]
            seq = rng.choice([0, 65534, 65535, 100])
            ts = rng.randrange(1 << 32)
            body = (bytes([0x18]) if proto == "avc" else bytes([0x60, 0x01])) + ref_aggr(units)
            single = bytes([0x41, 0x9A]) if proto == "avc" else bytes([0x02, 0x01, 0x55])
            arr = [(seq, ts, body), ((seq + 1) % 65536, (ts + 3000) % (1 << 32), single)]
            line = "c12.unpack %s 90000 8 %s" % (proto, ",".join("%d:%d:%s" % (s, t, hex_tok(b)) for s, t, b in arr))
            UNPACK_EXPECT[line] = [(ts // 90, b"".join(avcc(u) for u in units)), (((ts + 3000) % (1 << 32)) // 90, avcc(single))]
            base.append((proto, 90000, 8, arr))
            yield Case(line, cls="unpack-aggr")
    # AAC: several AUs in one packet, fragmented AU
    for it in range(30):
        rate = rng.choice([44100, 48000, 8000])
        aus = [bytes(rng.randrange(256) for _ in range(rng.choice([1, 2, 7, 100]))) for _ in range(rng.randrange(2, 5))]
        hdrs = b"".join(((len(a) << 3) | (i and 1)).to_bytes(2, "big") for i, a in enumerate(aus))
        body = (16 * len(aus)).to_bytes(2, "big") + hdrs + b"".join(aus)
        seq = rng.choice([0, 65535, 7])
        ts = rng.randrange(1 << 32)
        arr = [(seq, ts, body)]
        line = "c12.unpack aac %d 4 %s" % (rate, ",".join("%d:%d:%s" % (s, t, hex_tok(b)) for s, t, b in arr))
        UNPACK_EXPECT[line] = [(ts * 1000 // rate + (i * 1024000 // rate), a) for i, a in enumerate(aus)]
        base.append(("aac", rate, 4, arr))
        yield Case(line, cls="unpack-aac-multi")
        # fragmented
        au = bytes(rng.randrange(256) for _ in range(rng.choice([10, 50, 333])))
        k = rng.randrange(2, 5)
        cuts = sorted(rng.sample(range(1, len(au)), k - 1))
        parts = [au[a:b] for a, b in zip([0] + cuts, cuts + [len(au)])]
        arr = [((seq + i) % 65536, ts, (16).to_bytes(2, "big") + (len(au) << 3).to_bytes(2, "big") + p) for i, p in enumerate(parts)]
        arr.append(((seq + k) % 65536, (ts + 1024) % (1 << 32), (16).to_bytes(2, "big") + (3 << 3).to_bytes(2, "big") + b"abc"))
        order = list(range(len(arr)))
        if rng.random() < 0.5:
            i = rng.randrange(len(order) - 1)
            order[i], order[i + 1] = order[i + 1], order[i]
        base.append(("aac", rate, 8, [arr[i] for i in order]))
        yield Case("c12.unpack aac %d 8 %s" % (rate, ",".join("%d:%d:%s" % (arr[i][0], arr[i][1], hex_tok(arr[i][2])) for i in order)), cls="unpack-aac-frag")
    # FU sequences written by an independent encoder, with flag anomalies
    for it in range(40):
        proto = rng.choice(["avc", "hevc"])
        nal = (bytes([0x65]) if proto == "avc" else bytes([0x26, 0xA3])) + bytes(rng.randrange(256) for _ in range(rng.randrange(5, 40)))
        k = rng.randrange(2, 5)
        hl = 1 if proto == "avc" else 2
        data = nal[hl:]
        cuts = sorted(rng.sample(range(1, len(data)), k - 1))
        parts = [data[a:b] for a, b in zip([0] + cuts, cuts + [len(data)])]
        seq = rng.choice([0, 65534, 65535, 500])
        arr = []
        for i, p in enumerate(parts):
            fl = (0x80 if i == 0 else 0) | (0x40 if i == k - 1 else 0)
            if rng.random() < 0.1:
                fl = rng.choice([0, 0x40, 0x80, 0xC0])
            if proto == "avc":
                b = bytes([(nal[0] & 0xE0) | 28, fl | (nal[0] & 0x1F)]) + p
            else:
                b = bytes([(nal[0] & 0x81) | (49 << 1), nal[1], fl | ((nal[0] >> 1) & 0x3F)]) + p
            arr.append(((seq + i) % 65536, 9000, b))
        if rng.random() < 0.3:
            del arr[rng.randrange(len(arr))]
        if rng.random() < 0.5:
            rng.shuffle(arr)
        W = rng.choice([2, 3, 8])
        base.append((proto, 90000, W, arr))
        yield Case("c12.unpack %s 90000 %d %s" % (proto, W, ",".join("%d:%d:%s" % (s, t, hex_tok(b)) for s, t, b in arr)), cls="unpack-fu")
    # degenerate bodies / rates
    for proto in ("avc", "hevc", "aac", "raw"):
        for body in ("-", "00", "1c", "62", "6201", "60", "6001", "18", "1800", "180001", "0010", "001000", "00100008", "00200008", "0000", "ffff", "7c85", "1f"):
            yield Case("c12.unpack %s 90000 4 5:100:%s" % (proto, body), cls="unpack-degenerate")
        for rate in (0, 1, 999, 1000):
            yield Case("c12.unpack %s %d 4 5:100:%s" % (proto, rate, "4101" if proto != "aac" else "0010001041"), cls="unpack-rate")
        for W in (0, 1):
            yield Case("c12.unpack %s 90000 %d 5:100:%s,7:100:%s" % (proto, W, "4101" if proto != "aac" else "0010001041", "4101" if proto != "aac" else "0010001041"), cls="unpack-w")
    # mutation stream
    for it in range(nmut):
        proto, rate, W, arr = rng.choice(base)
        arr = list(arr)
        i = rng.randrange(len(arr))
        s, t, b = arr[i]
        b = bytearray(b)
        m = rng.randrange(5)
        if m == 0 and len(b) > 0:
            b = b[:rng.randrange(len(b))]
        elif m == 1 and len(b) > 0:
            b[rng.randrange(min(len(b), 4))] ^= 1 << rng.randrange(8)
        elif m == 2 and len(b) > 0:
            b[rng.randrange(len(b))] = rng.choice([0, 0xFF, 0x80])
        elif m == 3:
            s = (s + rng.choice([1, 2, 65535, 16384, 32768])) % 65536
        else:
            arr.append(arr[rng.randrange(len(arr))])
        arr[i] = (s, t, bytes(b))
        yield Case("c12.unpack %s %d %d %s" % (proto, rate, W, ",".join("%d:%d:%s" % (s, t, hex_tok(b)) for s, t, b in arr)), cls="unpack-mutated")


def nontrivial(c, out):
    if out.startswith(("err", "bad", "model-", "unknown", "panic")):
        return None
    f = c.line.split(" ")
    if f[0] == "c12.seq":
        return c.line
    if f[0] == "c12.pack":
        return "pack|%s|%s|%s|%d" % (f[1], f[5], f[6][:14], len(out) // 64)
    if f[0] == "c12.rt":
        return "rt|%s|%s|%s|%s" % (f[1], c.cls, f[5], hashlib.sha1(c.line.encode()).hexdigest()[:8])
    return "unpack|%s|%s" % (c.cls, hashlib.sha1(c.line.encode()).hexdigest()[:8])


def neighbors(c, rng):
    f = c.line.split(" ")
    if f[0] == "c12.pack" and ";" not in f[6] and "|" not in f[6]:
        ms, u = f[6].split("@", 1)
        b = tok_bytes(u)
        for d in (-2, -1, 1, 2, 7):
            n = max(1, len(b) + d)
            yield "c12.pack %s %s %s %s %s %s@%s" % (f[1], f[2], f[3], f[4], f[5], ms, unit_tok(rng, list(b[:2]), n))
        for mp in (4, 5, 8, 1200):
            yield "c12.pack %s %s %s %s %d %s@%s" % (f[1], f[2], f[3], f[4], mp, ms, u)
        for b0 in (0x65, 0x26, 0xE5, 0x27):
            yield "c12.pack %s %s %s %s %s %s@%s" % (f[1], f[2], f[3], f[4], f[5], ms, unit_tok(rng, [b0] + list(b[1:2]), len(b)))
    if f[0] == "c12.rt":
        yield " ".join(f[:7] + ["*"])
        for W in (2, 8, 1024):
            yield " ".join(f[:5] + [str(W)] + f[6:7] + ["*"])
