# C20 - lock-order deadlock freedom and guarded-field discipline.
#
# The tie between Coq and the code is a TRANSLATOR, not a differential run:
# harness/cmd/lockgraph regenerates Gen/LockGraph.v from $LAL_REPO on every
# check; Properties/C20.v is then re-checked by coqc against the regenerated
# graph (the committed coq/theories/Gen/LockGraph.v is only the baseline that
# keeps the normal `make` self-contained, and is diffed against the fresh one).
#
# Independent python side (the oracle): cycle search on the translator's JSON
# graph (must agree with Coq's acyclicb), and a textual scan of the Go sources
# for `.Lock()` / `.RLock()` / `<once>.Do(` sites that the translator must all
# have seen (translator blind-spot check).
import hashlib, json, os, re, shutil, subprocess, time

from lib import vf
from lib.vf import Case

ID = "C20"
RULE = ("evaluations = (function, held-lock-set) contexts walked by the translator over the SSA of lal + naza; "
        "distinct_nontrivial = distinct lock-order edges found; every edge carries one witness call chain")
ASSUMPTIONS = [
    "PARTIAL: decided by proof = lock-order deadlock freedom over the translator's graph (mutexes, RWMutex as exclusive, sync.Once.Do as a lock held around its function) and the guarded-field facts for EVERY struct of lal / naza that has a mutex field (guarded field = configured, or inferred: accessed at least once under the struct's mutex and written after construction) and for owner-guarded objects (structs without a mutex whose instances are only kept in fields - map, slice, pointer - of structs that have one: same inference with the owner's mutex); NOT decided = data races in general, channel operations (exitChan sends), WaitGroup/Cond, blocking I/O under a lock",
    "trusted: the translator harness/cmd/lockgraph (go/packages + go/ssa + VTA call graph refined from CHA, golang.org/x/tools v0.29.0) and its reviewed configuration harness/cmd/lockgraph/c20_config.json (whitelist with a justification per entry; entries used in a run are echoed in coverage.reviewed_assumptions_used)",
    "lock classes: two instances of one type.field are one node (two Groups = one class), so the theorem also excludes 'group A then group B'",
    "code outside the lal and naza modules (standard library) is not walked: function literals passed to it are assumed to be called synchronously with the caller's locks held; methods of lal/naza types matching a standard-library interface method are followed when such an object is passed; objects stored inside standard-library wrappers (bufio around a connection) and calls made by reflection (fmt verbs calling String/Error) are not followed",
    "locks of the standard library are not tracked (assumed leaf locks)",
    "the analysed build is the production one (no verif tag, pkg/innertest excluded)",
    "channel discipline: channels are classes (pkg.Type.field, func$variable), a class closed anywhere obliges all its send sites; recognised protocols: common mutex + flag the closer writes and the sender reads (syntactic: same functions), all sends and closes in one function with no send reachable after a close, WaitGroup Done in the sender / Wait before the close; channels handed around as parameters are classes of their own; every close site must run at most once per channel: inside a sync.Once.Do of the channel's object, behind a field of that object tested and set under its mutex (syntactic: a dominating branch on the field and a store to it in the same function), the maker closing its own channel once, or reviewed (close_once) - 'per instance' is by class, the once / mutex / flag must be fields of the struct that holds the channel; receive-side behaviour is not checked",
    "escaping guarded memory: sinks are returns, channel sends, arguments of function-value calls and of interface method calls (arguments of static calls are not sinks); only slice and map components (depth 2 through by-value structs, through local copies) are followed, pointers to structs are objects (owner-guarded / publication facts); 'fresh' is per function: a store of nil / make / a literal / a call result that dominates the load, other stores appends to itself; writes INTO the elements by other functions are not examined; interface-typed fields of a mutex-bearing struct own every mutex-less struct of lal / naza that implements the interface",
    "publication order: publication = a call into the consumer package (logic) that retains the object, a go statement, a channel send, a map store under a lock; 'shared' = reached by another goroutine through the published object (per type, not per instance); only plain stores count as writes (address-taking calls are followed into lal/naza code, not into the standard library); guessed standard-library callbacks are ignored for this fact; the Coq-checked traces unroll loops twice and are capped at 512 per function (coverage.publication_order.truncated_functions), order across activations beyond that is decided by the translator's walk (pub_walk_violations)",
]
FULL_OUTPUT = True

HERE = os.path.dirname(os.path.abspath(__file__))
ROOT = os.path.dirname(HERE)
CONFIG = os.path.join(ROOT, "harness", "cmd", "lockgraph", "c20_config.json")
BASELINE_V = os.path.join(ROOT, "coq", "theories", "Gen", "LockGraph.v")
PROP_V = os.path.join(ROOT, "coq", "theories", "Properties", "C20.v")
KNOWN_LEAK_IDS = {"(*nazalog.logger).Out": "C20-naza-log-lock-leak"}
# race reports whose innermost lal frame (either side) is listed here are a known finding; any other report is a violation
KNOWN_RACE_SITES = {}
# artefacts of the soak harness, not of the server: cmd/lalrace runs several server lifetimes in ONE process, and every
# NewLalServer re-initialises naza's global logger while goroutines of the previous lifetime may still log
HARNESS_RACE_SITES = ("nazalog.(*logger).Init", "logic.LoadConfAndInitLog")


def gen_cases(tier, rng):
    yield Case("lockgraph", cls="translator")


def nontrivial(case, out):
    return None


# ----------------------------------------------------------------------------
# independent python reference

def find_cycle(nodes, edges):
    """shortest cycle in a directed graph given as [(a, b)], or None.  Independent of Coq's acyclicb."""
    adj = {}
    for a, b in edges:
        adj.setdefault(a, []).append(b)
    best = None
    for start in sorted(nodes):
        # BFS back to start
        prev = {start: None}
        queue = [start]
        found = None
        while queue and found is None:
            x = queue.pop(0)
            for y in sorted(adj.get(x, [])):
                if y == start:
                    found = x
                    break
                if y not in prev:
                    prev[y] = x
                    queue.append(y)
        if found is not None:
            path = [found]
            while prev[path[-1]] is not None:
                path.append(prev[path[-1]])
            path.reverse()
            if best is None or len(path) < len(best):
                best = path
    return best


LOCK_RE = re.compile(r"([A-Za-z_][\w\.\[\]\(\)\*]*)\.(Lock|RLock)\(\)")
ONCE_RE = re.compile(r"(\w*[oO]nce\w*)\.Do\(")


def textual_lock_sites(repo, exclude_pkgs):
    """file:line of every textual Lock()/RLock()/xxxOnce.Do( in non-test, unconstrained Go files under pkg/"""
    sites = {}
    base = os.path.join(repo, "pkg")
    for d, _, fs in os.walk(base):
        rel_pkg = os.path.relpath(d, repo)
        if any(rel_pkg == x or rel_pkg.startswith(x + "/") for x in exclude_pkgs):
            continue
        for f in sorted(fs):
            if not f.endswith(".go") or f.endswith("_test.go"):
                continue
            p = os.path.join(d, f)
            try:
                txt = open(p, encoding="utf-8", errors="replace").read()
            except OSError:
                continue
            head = txt[:400]
            if re.search(r"^//go:build\s+.*\bverif\b", head, re.M) or re.search(r"^//go:build\s+(windows|ignore)", head, re.M):
                continue
            in_block = False
            for ln, line in enumerate(txt.split("\n"), 1):
                code = line
                if in_block:
                    if "*/" in code:
                        code = code.split("*/", 1)[1]
                        in_block = False
                    else:
                        continue
                if "/*" in code and "*/" not in code:
                    code = code.split("/*", 1)[0]
                    in_block = True
                code = code.split("//", 1)[0]
                if LOCK_RE.search(code) or ONCE_RE.search(code):
                    sites["%s:%d" % (os.path.relpath(p, repo), ln)] = line.strip()
    return sites


def parse_graph_v(path):
    """names and edges (by name) of a Gen/LockGraph.v"""
    if not os.path.exists(path):
        return None
    txt = open(path).read()
    names = dict((int(i), n) for i, n in re.findall(r'^\s*\((\d+), "([^"]+)"%string\)', txt.split("Definition lock_graph")[0], re.M))
    gtxt = txt.split("Definition lock_graph")[1].split("].")[0]
    edges = set()
    for a, b in re.findall(r"^\s*\((\d+), (\d+)\)", gtxt, re.M):
        edges.add((names.get(int(a), a), names.get(int(b), b)))
    return set(names.values()), edges


# ----------------------------------------------------------------------------

def pub_traces_safe(pub):
    """independent python version of Lock/PubOrder.v safeb over the extracted traces"""
    owner = pub.get("field_owner", {})
    shared = set(pub.get("shared_fields", {}))
    covers = set(tuple(c) for c in pub.get("covers", []))

    def exempt(t, f):
        for x in pub.get("exempt", []):
            if x["published"] in (t, "*") and (x["field"] == f or (x["field"].endswith(".*") and f.startswith(x["field"][:-1]))):
                return True
        return False

    def hazard(pubd, f):
        return [t for t in pubd if (t + "|" + f) in shared and (t, owner.get(f)) in covers and not exempt(t, f)]

    for tr in pub.get("traces", []):
        pubd = []
        for e in tr["events"]:
            if e["kind"] == "pub":
                pubd.append(e["type"])
            elif e["kind"] == "wr":
                h = hazard(pubd, e["field"])
                if h:
                    return False, (e["field"], h[0], tr["func"], tr)
            else:
                pubd = e.get("pubs", []) + pubd
                for f in e.get("writes", []):
                    h = hazard(pubd, f)
                    if h:
                        return False, (f, h[0], tr["func"], tr)
    return True, None


def coqc(args, cwd, timeout=300):
    return vf.sh(["timeout", str(timeout), "coqc"] + args, cwd=cwd, timeout=timeout + 30)


def describe_edge(e):
    return dict(thread_holds=e["from_name"], taken_at=e["held_at"], then_wants=e["to_name"], along=e["chain"])


def run(ctx, cases, cov, violations, known_hits, notes):
    prop = ID
    t0 = time.time()
    repo = vf.REPO
    work = os.path.join(vf.BUILD, "c20", hashlib.sha1(repo.encode()).hexdigest()[:8])
    fresh = os.path.join(work, "fresh")
    shutil.rmtree(work, ignore_errors=True)
    os.makedirs(fresh)

    def violation(kind, text, payload, nofail=False):
        payload = dict(payload, property=prop, case="lockgraph", tier=ctx["tier"])
        path = vf.write_replay(prop, payload)
        violations.append((kind, text, path, nofail))

    # 1. translator, rebuilt and re-run on the working tree
    with vf.Lock():
        ok, out, exe = vf.build_tool("lockgraph")
    if not ok:
        violation("build", "lockgraph does not build", dict(broken="translator build", log=out[-3000:]), True)
        return
    out_v = os.path.join(fresh, "LockGraph.v")
    out_json = os.path.join(work, "lockgraph.json")
    rc, out = vf.sh([exe, "-repo", repo, "-config", CONFIG, "-v", out_v, "-json", out_json], env=vf.GOENV, timeout=900)
    cov["translator_s"] = round(time.time() - t0, 2)
    cov["trusted_base"] = [x for x in cov["trusted_base"] if "extraction" not in x and "OCaml" not in x and "lalprobe" not in x] + [
        "translator /verif/harness/cmd/lockgraph (go/packages, go/ssa, VTA call graph: golang.org/x/tools v0.29.0) and its reviewed configuration c20_config.json",
        "python driver /verif/gen/c20.py (independent cycle search, textual lock-site scan, lock-trace comparison)"]
    if rc != 0 or not os.path.exists(out_json):
        violation("build", "the translator failed on the working tree (does lal still type-check?)",
                  dict(broken="translator run", log=out[-4000:]), True)
        return
    g = json.load(open(out_json))
    classes = {c["id"]: c["name"] for c in g["classes"]}
    edges = [(e["from"], e["to"]) for e in g["edges"]]
    edge_by = {(e["from"], e["to"]): e for e in g["edges"]}

    cov["evaluations"] = g["stats"].get("contexts", 0)
    cov["distinct_nontrivial"] = len(edges)
    cov["distribution"] = dict(("lock sites of " + c["name"], c["sites"]) for c in g["classes"])
    cov["lock_classes"] = len(classes)
    cov["lock_sites"] = len(g["lock_sites"])
    cov["translator_stats"] = g["stats"]
    cov["guarded_fields_seen"] = len(g["fields"])
    per = {}
    for gb in g.get("guarded_by", []):
        per.setdefault(gb["mutex"], []).append(gb["field"].rsplit(".", 1)[1] + ("" if gb["how"] == "configured" else "*"))
    cov["guarded_fields_by_mutex (* = inferred: accessed under the mutex and written after construction)"] = per
    cov["mutex_classes_without_guarded_fields"] = g.get("mutex_classes_without_guarded_fields", [])
    cov["mutable_fields_never_accessed_under_the_mutex (not checked)"] = g.get("mutable_fields_never_accessed_under_the_mutex", [])
    cov["accesses_without_guard_covered_by_whitelist"] = len(g["exempted"])
    cov["std_callable_locking_methods"] = g["std_callable_locking_methods"]
    cov["reviewed_assumptions_used"] = [dict(x) for x in g["infeasible_calls_used"]] + \
        [dict(exempt_func=x["func"], why=x["why"]) for x in g["exempt_funcs"]]
    step = max(1, len(g["edges"]) // 6)
    cov["samples"] = [dict(case="%s -> %s" % (e["from_name"], e["to_name"]), held_at=e["held_at"], chain=e["chain"][-4:])
                      for e in g["edges"][::step]][:8]

    # 2. independent reference: cycle search in python
    cyc = find_cycle(set(classes), edges)
    cov["oracle_evaluated"] = 1
    py_acyclic = cyc is None

    # 3. Coq: compile the regenerated graph and re-check Properties/C20.v against it
    rc1, log1 = coqc(["-Q", os.path.join(vf.COQ, "theories"), "Lal", "-Q", fresh, "LalFresh", "-w", "-notation-overridden", out_v], cwd=fresh, timeout=120)
    src = open(PROP_V).read()
    marker = "From Lal Require Import Gen.LockGraph."
    if marker not in src:
        violation("proof", "Properties/C20.v no longer imports the graph on its own line", dict(broken="C20.v layout"), True)
        return
    fresh_prop = os.path.join(fresh, "C20Fresh.v")
    open(fresh_prop, "w").write(src.replace(marker, "From LalFresh Require Import LockGraph."))
    rc2, log2 = (1, "graph file did not compile")
    if rc1 == 0:
        rc2, log2 = coqc(["-Q", os.path.join(vf.COQ, "theories"), "Lal", "-Q", fresh, "LalFresh", "-w", "-notation-overridden",
                          fresh_prop], cwd=fresh, timeout=600)
    coq_ok = rc1 == 0 and rc2 == 0
    cov["fresh_graph_recheck"] = "Properties/C20.v re-checked against the regenerated Gen/LockGraph.v: %s" % ("ok" if coq_ok else "FAILED")
    cov["checker_cmd"] += "; lockgraph -repo $LAL_REPO -v fresh/LockGraph.v && coqc fresh/LockGraph.v && coqc C20Fresh.v (= Properties/C20.v with Gen.LockGraph replaced by the fresh graph)"
    failing = None
    if not coq_ok:
        m = re.search(r"line (\d+), characters", log2 if rc1 == 0 else log1)
        if m and rc1 == 0:
            ln = int(m.group(1))
            for mm in re.finditer(r"^(?:Theorem|Corollary|Example)\s+(\w+)", src, re.M):
                if src[:mm.start()].count("\n") + 1 <= ln:
                    failing = mm.group(1)
        cov["discharged"] = 0 if failing is None else max(0, cov["theorems"].index(failing)) if failing in cov.get("theorems", []) else 0

    reported = False

    # 4. lock-order cycle: thread 1 takes A then wants B along chain 1 while thread 2 takes B then wants A along chain 2
    if not py_acyclic:
        cov["oracle_failed"] = cov.get("oracle_failed", 0) + 1
        cyc_edges = [edge_by[(cyc[i], cyc[(i + 1) % len(cyc)])] for i in range(len(cyc))]
        # have Coq confirm the cycle on the fresh graph
        cyc_v = os.path.join(fresh, "C20Cycle.v")
        open(cyc_v, "w").write(
            "From Coq Require Import List NArith.\nFrom Lal Require Import Lock.LockOrder Lock.LockOrderProofs.\n"
            "From LalFresh Require Import LockGraph.\nImport ListNotations.\nOpen Scope N_scope.\n"
            "Theorem c20_cycle_confirmed : is_cycleb lock_graph [%s] = true.\nProof. vm_compute. reflexivity. Qed.\n"
            "Theorem c20_not_acyclic : acyclicb lock_graph = false.\nProof. exact (is_cycleb_acyclicb_false _ _ c20_cycle_confirmed). Qed.\n"
            % "; ".join(str(x) for x in cyc))
        rc3, log3 = (1, "") if rc1 != 0 else coqc(["-Q", os.path.join(vf.COQ, "theories"), "Lal", "-Q", fresh, "LalFresh", cyc_v], cwd=fresh, timeout=120)
        kind = "self-deadlock: a goroutine acquires a lock class it already holds" if len(cyc) == 1 else \
               "lock-order inversion: %d goroutines, each holding one lock of the cycle and waiting for the next" % len(cyc)
        violation("oracle", "%s: %s" % (kind, " -> ".join(classes[x] for x in cyc + [cyc[0]])),
                  dict(oracle=False, broken=None, why=kind, cycle=[classes[x] for x in cyc],
                       failing_schedule=[dict(goroutine=i + 1, **describe_edge(e)) for i, e in enumerate(cyc_edges)],
                       coq_confirms_cycle=(rc3 == 0), coq_log=(log3[-800:] if rc3 != 0 else None)))
        reported = True

    # 5. guarded-field discipline
    for u in g["unguarded"][:8]:
        cov["oracle_failed"] = cov.get("oracle_failed", 0) + 1
        violation("oracle", "%s of %s without %s in %s (%s)" % (u["kind"], u["field"], u.get("missing_lock") or "its mutex", u["func"], u["pos"]),
                  dict(oracle=False, broken=None, why="guarded field accessed while the guarding mutex is not held",
                       access=dict(field=u["field"], kind=u["kind"], func=u["func"], pos=u["pos"], holding=u["holding"]),
                       failing_schedule=[dict(goroutine=1, runs=u["chain"], then="%s %s at %s with no lock" % (u["kind"], u["field"], u["pos"])),
                                         dict(goroutine=2, runs="any method that writes the field under the mutex, concurrently")]))
        reported = True

    # 5b. publication order: a plain write of a field other goroutines reach, after the object was published
    pub = g.get("publication") or {}
    cov["publication_order"] = dict(sites=len(pub.get("publication_sites", [])), types=len(pub.get("types", [])),
                                    shared_field_pairs=len(pub.get("shared_fields", {})), traces=len(pub.get("traces", [])),
                                    trace_functions=g["stats"].get("publication_trace_functions"),
                                    truncated_functions=g["stats"].get("publication_traces_truncated_functions"),
                                    walk_violations=len(pub.get("violations", [])),
                                    covered_by_reviewed_exemptions=len(pub.get("exempted", [])))
    seen_pairs = set()
    for v in pub.get("violations", []):
        key = (v["published"], v["func"])
        if key in seen_pairs or len(seen_pairs) >= 5:
            continue
        seen_pairs.add(key)
        cov["oracle_failed"] = cov.get("oracle_failed", 0) + 1
        violation("oracle", "write of %s in %s (%s) after %s was published at %s" % (v["field"], v["func"], v["written_at"], v["published"], v["published_at"]),
                  dict(oracle=False, broken=None, why="publication order: unsynchronised write of a shared field after the object was handed to other goroutines",
                       pair=dict(published=v["published"], published_at=v["published_at"], field=v["field"], written_at=v["written_at"], func=v["func"]),
                       failing_schedule=[dict(goroutine=1, runs=v["chain"], then="publishes %s at %s, then writes %s at %s without a lock" % (
                                              v["published"], v["published_at"], v["field"], v["written_at"])),
                                         dict(goroutine=2, reaches_the_field_by=v["read_or_written_elsewhere_by"])]))
        reported = True
    py_traces_ok, bad_trace = pub_traces_safe(pub)
    cov["oracle_evaluated"] += 1
    if not py_traces_ok and not pub.get("violations"):
        violation("oracle", "an extracted construction trace writes %s after publishing %s (%s)" % bad_trace[:3],
                  dict(oracle=False, broken=None, why="publication order (trace check)", trace=bad_trace[3]))
        reported = True

    # 5c. channel discipline: a send site of a channel that is closed somewhere, justified by no protocol
    ch = g.get("channel") or {}
    chans = ch.get("channels", [])
    cov["channel_discipline"] = dict(channel_classes=len(chans), closed_somewhere=[c["class"] for c in chans if c["closes"]],
                                     never_closed=dict((c["class"], len(c["sends"])) for c in chans if not c["closes"]),
                                     justified_send_sites=[dict(channel=c["class"], send=s["pos"], protocol=s["protocol"], why=s["why"])
                                                           for c in chans if c["closes"] for s in c["sends"] if s.get("protocol")],
                                     justified_close_sites=[dict(channel=c["class"], close=s["pos"], justification=s.get("protocol"), why=s["why"])
                                                            for c in chans for s in c["closes"] if s.get("protocol")],
                                     violations=len(ch.get("violations", [])))
    for v in [x for x in ch.get("violations", []) if x.get("kind") == "double-close"][:5]:
        cov["oracle_failed"] = cov.get("oracle_failed", 0) + 1
        chains = v.get("caller_chains") or []
        violation("oracle", "close of %s at %s (%s) may run twice: %s" % (v["class"], v["close"]["pos"], v["close"]["func"], v["why"]),
                  dict(oracle=False, broken=None, why="channel discipline: double close is possible",
                       pair=dict(channel=v["class"], close_site=v["close"]),
                       failing_schedule=[dict(goroutine=i + 1, runs=c, then="close at %s%s" % (v["close"]["pos"], "" if i == 0 else ": panic: close of closed channel"))
                                         for i, c in enumerate(chains[:2])]))
        reported = True
    for v in [x for x in ch.get("violations", []) if x.get("kind") != "double-close"][:5]:
        cov["oracle_failed"] = cov.get("oracle_failed", 0) + 1
        violation("oracle", "send on %s at %s (%s) can follow its close at %s (%s): %s" % (
            v["class"], v["send"]["pos"], v["send"]["func"], v["close"]["pos"], v["close"]["func"], v["why"]),
            dict(oracle=False, broken=None, why="channel discipline: send on a closed channel is possible",
                 pair=dict(channel=v["class"], close_site=v["close"], send_site=v["send"]),
                 failing_schedule=[dict(goroutine=1, runs=v["send"]["func"], reaches="the send at %s (past any flag test)" % v["send"]["pos"]),
                                   dict(goroutine=2, runs=v["close"]["func"], then="close at %s" % v["close"]["pos"]),
                                   dict(goroutine=1, then="sends: panic: send on closed channel")]))
        reported = True

    # 5d. escaping values that share guarded memory
    esc = g.get("escape") or {}
    cov["escaping_guarded_memory"] = dict(sites=[dict(function=s["func"], field=s["field"], sink=s["sink"], pos=s["pos"],
                                                      justification=s.get("justification"), why=s["why"]) for s in esc.get("sites", [])],
                                          violations=len(esc.get("violations", [])), unused_exemptions=esc.get("unused_exemptions") or [])
    for v in esc.get("violations", [])[:5]:
        cov["oracle_failed"] = cov.get("oracle_failed", 0) + 1
        violation("oracle", "%s (%s) hands out guarded memory of %s: %s" % (v["func"], v["pos"], v["field"], v["why"]),
                  dict(oracle=False, broken=None, why="escaping value shares guarded memory", function=v["func"], field=v["field"], sink=v["sink"],
                       failing_schedule=[dict(goroutine=1, then="calls %s, keeps the value and reads %s without the mutex" % (v["func"], v["field"])),
                                         dict(goroutine=2, then="calls %s again: rewrites the same backing array under the mutex (data race, goroutine 1 sees wrong entries)" % v["func"])]))
        reported = True
    for k in esc.get("unused_exemptions") or []:
        violation("translator", "escape_exempt entry matches nothing any more (stale reviewed input): %s" % k,
                  dict(broken="reviewed configuration out of date", entry=k), True)
        reported = True

    for x in g.get("exempted", []):
        m = re.match(r"known finding: known finding (\S+?):", x.get("exempt", ""))
        if m:
            known_hits.setdefault(m.group(1), "%s of %s without its mutex in %s" % (x["kind"], x["field"], x["func"]))

    # 6. lock leaks and sites the translator could not attribute
    for leak in g["lock_leaks"][:5]:
        violation("oracle", "function returns holding a lock it acquired: %s" % leak,
                  dict(oracle=False, broken=None, why="lock leak (a path returns without Unlock)", leak=leak))
        reported = True
    for fn in g["known_lock_leaks_hit"]:
        fid = KNOWN_LEAK_IDS.get(fn)
        if fid:
            known_hits.setdefault(fid, "%s returns holding its mutex on one path" % fn)
        else:
            violation("oracle", "lock leak listed in the config but not as a known finding: %s" % fn, dict(oracle=False, leak=fn))
            reported = True
    for u in g["unresolved"][:5]:
        violation("translator", "lock operation the translator cannot attribute to a class: %s" % u,
                  dict(broken="translator: unresolved lock site", site=u), True)
        reported = True

    # 7. blind-spot check: every textual Lock()/RLock()/once.Do( must be a site the translator saw
    cfg = json.load(open(CONFIG))
    excl = [p.split("github.com/q191201771/lal/", 1)[1] for p in cfg.get("exclude_packages", []) if "github.com/q191201771/lal/" in p]
    textual = textual_lock_sites(repo, excl)
    seen = set(s["pos"] for s in g["lock_sites"])
    missed = sorted(k for k in textual if k not in seen)
    cov["textual_lock_sites"] = len(textual)
    cov["textual_lock_sites_missed_by_translator"] = len(missed)
    if missed:
        violation("translator", "the source has lock sites the translator did not see: %s" % ", ".join(missed[:5]),
                  dict(broken="translator blind spot", sites=dict((k, textual[k]) for k in missed[:20])), True)
        reported = True

    # 8. Coq and python must agree; a failing re-check that nothing above explains is reported as such
    if coq_ok != (py_acyclic and not g["unguarded"] and not g["unresolved"] and not g["lock_leaks"]
                  and not pub.get("violations") and py_traces_ok and not ch.get("violations") and not esc.get("violations")):
        violation("proof", "Coq re-check (%s, failing %s) and the python reference (acyclic=%s, unguarded=%d) disagree" % (
            "ok" if coq_ok else "failed", failing, py_acyclic, len(g["unguarded"])),
            dict(broken="theorem %s on the regenerated graph" % failing, log=(log1 + log2)[-3000:]), True)
    elif not coq_ok and not reported:
        violation("proof", "Properties/C20.v does not check against the regenerated graph (%s)" % failing,
                  dict(broken="theorem %s" % failing, log=(log1 + log2)[-3000:]), True)

    # 9. drift against the committed baseline (evidence only)
    base = parse_graph_v(BASELINE_V)
    now = parse_graph_v(out_v)
    if base and now:
        added = sorted("%s -> %s" % e for e in now[1] - base[1])
        removed = sorted("%s -> %s" % e for e in base[1] - now[1])
        cov["graph_vs_committed_baseline"] = dict(new_edges=added, removed_edges=removed,
                                                  new_classes=sorted(now[0] - base[0]), removed_classes=sorted(base[0] - now[0]))
        if added or removed:
            notes.append("the regenerated lock graph differs from the committed baseline coq/theories/Gen/LockGraph.v "
                         "(%d new, %d removed edges); the theorems were re-checked on the regenerated one" % (len(added), len(removed)))

    # 10. dynamic cross-check of the translator: every nested acquisition that really happens must be an edge
    lock_trace(ctx, cov, violation, notes, g, work)

    # 11. thorough tier: race-detector soak = failing-schedule search, not a proof
    if ctx["tier"] == "thorough":
        ctx["known_hits"] = known_hits
        race_soak(ctx, cov, violation, notes)
    else:
        cov["race_soak"] = "not run in the quick tier"


DECL_RE = re.compile(r"\bsync\.(Mutex)\b")


def make_overlay(repo, work, excl):
    """build overlay: lal's `sync.Mutex` declarations become veriftrace.Mutex (same line numbers)"""
    ov = os.path.join(work, "overlay")
    os.makedirs(ov, exist_ok=True)
    replace = {}
    n = 0
    for d, _, fs in os.walk(os.path.join(repo, "pkg")):
        rel_pkg = os.path.relpath(d, repo)
        if any(rel_pkg == x or rel_pkg.startswith(x + "/") for x in excl):
            continue
        for f in sorted(fs):
            if not f.endswith(".go") or f.endswith("_test.go"):
                continue
            p = os.path.join(d, f)
            txt = open(p, encoding="utf-8", errors="replace").read()
            if not DECL_RE.search(txt) or not re.search(r'^[ \t]*"sync"[ \t]*$', txt, re.M):
                continue
            new = DECL_RE.sub("veriftrace.Mutex", txt)
            imp = '"github.com/q191201771/lal/pkg/veriftrace"'
            body_wo_import = re.sub(r'^[ \t]*"sync"[ \t]*$', "", new, flags=re.M)
            if re.search(r"\bsync\.", body_wo_import):
                new = re.sub(r'^([ \t]*)"sync"[ \t]*$', r'\1"sync"; ' + imp, new, count=1, flags=re.M)
            else:
                new = re.sub(r'^([ \t]*)"sync"[ \t]*$', r"\1" + imp, new, count=1, flags=re.M)
            if new.count("\n") != txt.count("\n"):
                raise RuntimeError("overlay changed the line count of " + p)
            n += 1
            dst = os.path.join(ov, "f%d_%s" % (n, f))
            open(dst, "w").write(new)
            replace[p] = dst
    vt = os.path.join(ov, "veriftrace.go")
    shutil.copy(os.path.join(ROOT, "harness", "cmd", "lalrace", "overlay", "veriftrace.go.txt"), vt)
    replace[os.path.join(repo, "pkg", "veriftrace", "veriftrace.go")] = vt
    path = os.path.join(ov, "overlay.json")
    json.dump(dict(Replace=replace), open(path, "w"), indent=1)
    return path, n


def lock_trace(ctx, cov, violation, notes, g, work):
    """run the churn scenario with traced mutexes: dynamic edges must be a subset of the static graph"""
    secs = int(os.environ.get("C20_TRACE_SECONDS") or (20 if ctx["tier"] == "thorough" else 4))
    repo = vf.REPO
    cfg = json.load(open(CONFIG))
    excl = [p.split("github.com/q191201771/lal/", 1)[1] for p in cfg.get("exclude_packages", []) if "github.com/q191201771/lal/" in p]
    t0 = time.time()
    try:
        ov, nfiles = make_overlay(repo, work, excl)
    except Exception as e:  # the overlay is best effort: say so, do not fail the check
        cov["lock_trace"] = "skipped: overlay generation failed (%s)" % e
        notes.append(cov["lock_trace"])
        return
    with vf.Lock():
        ok, out, exe = vf.build_tool("lalrace", extra_args=["-tags", "verif locktrace", "-overlay", ov], suffix="-trace")
    if not ok:
        cov["lock_trace"] = "skipped: traced build failed (%s)" % out.strip()[-300:]
        notes.append("lock trace skipped: traced build of cmd/lalrace failed")
        return
    out_file = os.path.join(work, "locktrace.txt")
    env = dict(os.environ, LALRACE_SECONDS=str(secs), LALRACE_SEED=str(ctx["rng"].randrange(1 << 30)), LALRACE_TRACE_OUT=out_file)
    try:
        p = subprocess.run([exe], env=env, stdout=subprocess.PIPE, stderr=subprocess.PIPE, timeout=secs + 120)
        so, err, rc = p.stdout.decode(errors="replace"), p.stderr.decode(errors="replace"), p.returncode
    except subprocess.TimeoutExpired as e:
        so, err, rc = (e.stdout or b"").decode(errors="replace"), (e.stderr or b"").decode(errors="replace"), "timeout"
    if rc != 0 or not os.path.exists(out_file):
        if "STUCK" in so or rc == "timeout":
            violation("race", "the churn scenario got stuck (possible deadlock): %s" % so.strip()[-200:],
                      dict(oracle=False, broken=None, why="watchdog: scenario stuck", stdout=so[-3000:], stderr=err[-3000:]))
        else:
            kind = vf.crash_summary(err, rc if isinstance(rc, int) else None)
            violation("race", "the server process died during the traced churn scenario: %s" % kind,
                      dict(oracle=False, broken=None, why="process abort", crash=kind, stderr=err[-6000:]))
        return
    site_class = dict((s["pos"], s["class"]) for s in g["lock_sites"] if s["op"] in ("Lock", "RLock"))
    static = set((e["from_name"], e["to_name"]) for e in g["edges"])
    dyn = {}
    unknown_sites = set()
    foreign = 0
    nsites = 0
    for line in open(out_file):
        t = line.split()
        if t[0] == "site":
            nsites += 1
            if os.path.relpath(t[1].rsplit(":", 1)[0], repo) + ":" + t[1].rsplit(":", 1)[1] not in site_class:
                unknown_sites.add(t[1])
        elif t[0] == "edge":
            a, b = [os.path.relpath(x.rsplit(":", 1)[0], repo) + ":" + x.rsplit(":", 1)[1] for x in (t[1], t[2])]
            ca, cb = site_class.get(a), site_class.get(b)
            if ca is None or cb is None:
                continue
            dyn.setdefault((ca, cb), (a, b, int(t[3])))
        elif t[0] == "foreign_unlock":
            foreign = int(t[1])
    traced = set(site_class[k] for k in site_class)  # classes of lal; those with traced declarations appear in dyn
    missed = sorted(k for k in dyn if k not in static)
    dyn_classes = set(x for k in dyn for x in k)
    comparable = set(e for e in static if e[0] in dyn_classes or e[1] in dyn_classes)
    m = re.search(r"^lalrace: (.*)$", so, re.M)
    cov["lock_trace"] = dict(seconds=round(time.time() - t0, 1), files_overlaid=nfiles, lock_sites_exercised=nsites,
                             dynamic_edges=sorted("%s -> %s (x%d, %s then %s)" % (k[0], k[1], v[2], v[0], v[1]) for k, v in dyn.items()),
                             dynamic_edges_missing_from_static_graph=len(missed),
                             static_edges_between_traced_classes_exercised="%d of %d" % (len(set(dyn) & static), len([e for e in static if e[0] in dyn_classes and e[1] in dyn_classes])),
                             unlock_by_other_goroutine=foreign, scenario=(m.group(1) if m else ""))
    for k in missed[:5]:
        a, b, n = dyn[k]
        violation("translator", "a nested acquisition observed at run time is not an edge of the translator's graph: %s -> %s" % k,
                  dict(broken="translator: missed edge", observed=dict(held=k[0], locked_at=a, then=k[1], at=b, times=n)), True)
    for s in sorted(unknown_sites)[:5]:
        violation("translator", "a Lock() executed at run time is not a lock site of the translator: %s" % s,
                  dict(broken="translator: missed lock site", site=s), True)
    if foreign:
        violation("translator", "a mutex was unlocked by a goroutine that did not lock it (%d times): outside the lock machine's assumptions" % foreign,
                  dict(broken="model assumption: release by owner", times=foreign), True)


def race_soak(ctx, cov, violation, notes):
    secs = int(os.environ.get("C20_RACE_SECONDS") or 60)
    env = dict(vf.GOENV, CGO_ENABLED="1")
    with vf.Lock():
        ok, out, exe = vf.build_tool("lalrace", extra_args=["-race"], env=env, suffix="-race")
    if not ok:
        cov["race_soak"] = "skipped: race-enabled build failed (%s)" % out.strip().split("\n")[-1][:200]
        notes.append("race soak skipped: " + cov["race_soak"])
        return
    env = dict(os.environ, GORACE="halt_on_error=0 exitcode=0 history_size=5", LALRACE_SECONDS=str(secs),
               LALRACE_SEED=str(ctx["rng"].randrange(1 << 30)))
    t0 = time.time()
    try:
        p = subprocess.run([exe], env=env, stdout=subprocess.PIPE, stderr=subprocess.PIPE, timeout=secs + 120)
        err = p.stderr.decode(errors="replace")
        so = p.stdout.decode(errors="replace")
        rc = p.returncode
    except subprocess.TimeoutExpired as e:
        err = (e.stderr or b"").decode(errors="replace")
        so = (e.stdout or b"").decode(errors="replace")
        rc = "timeout"
    reports = re.findall(r"WARNING: DATA RACE\n(.*?)\n==================", err, re.S)
    uniq = {}
    for r in reports:
        # innermost lal/naza frame of each of the two conflicting accesses (the first two stacks of the report)
        frames = []
        for stack in re.split(r"\n\s*\n", r)[:2]:
            fs = re.findall(r"^\s+(\S*q191201771/\S+?)\(\)", stack, re.M)
            if fs:
                frames.append(fs[0])
        key = tuple(sorted(set(f[f.rfind("/") + 1:] for f in frames))) or ("?",)
        uniq.setdefault(key, r)
    m = re.search(r"^lalrace: (.*)$", so, re.M)
    cov["race_soak"] = dict(seconds=round(time.time() - t0, 1), exit=rc, data_race_reports=len(reports), distinct=len(uniq),
                            scenario=(m.group(1) if m else so.strip()[-300:]))
    ignored = [k for k in uniq if any(site in x for x in k for site in HARNESS_RACE_SITES)]
    for k in ignored:
        del uniq[k]
    if ignored:
        cov["race_soak"]["harness_artefacts_ignored"] = [" / ".join(k) for k in ignored]
    shown = 0
    for key, rep in uniq.items():
        fid = None
        for site, f in KNOWN_RACE_SITES.items():
            if any(site in k for k in key):
                fid = f
        if fid:
            ctx["known_hits"].setdefault(fid, "race detector: %s" % " / ".join(key))
            continue
        shown += 1
        if shown > 5:
            break
        violation("race", "data race reported by the Go race detector at %s" % " / ".join(key),
                  dict(oracle=False, broken=None, why="data race (race detector, failing-schedule search)", race_report=rep[:6000]))
    if rc == "timeout":
        violation("race", "the churn scenario did not finish: server or a session is stuck (possible deadlock)",
                  dict(oracle=False, broken=None, why="watchdog: scenario timed out", stdout=so[-3000:], stderr=err[-3000:]))
    elif rc not in (0,):
        kind = vf.crash_summary(err, rc)
        violation("race", "the server process died during the churn scenario: %s" % kind,
                  dict(oracle=False, broken=None, why="process abort", crash=kind, stderr=err[-6000:]))
