# C19 part E: SDP.  sdp.Pack -> text -> ParseSdp2LogicContext, and hostile SDP text.
#
# base64 / hex are not part of the Coq model; this generator computes them with
# python (independently of Go) and hands the model a table `kind:text:ok:decoded`.
# The oracle is an RFC 4566 (section 5/6) reader with the RTP payload format
# parameters of RFC 6184 8.1, RFC 7798 7.1, RFC 3640 4.1 and the static types
# of RFC 3551; it knows nothing about lal's parser.
import base64
import binascii
import os
import re
from lib.vf import Case
from gen.common import *

OPS = {"c19.sdp_consts", "c19.sdp_atoi", "c19.sdp_fmtd", "c19.sdp_pack", "c19.sdp_parse"}
RULE = ("SDP: sdp.Pack over codec x nil/empty/1..65535-byte parameter sets x sampling rates (0, negative, 64-bit extremes) x "
        "AudioSpecificConfig lengths x tool strings, its text read by an RFC 4566/6184/7798/3640/3551 reader and by lal; hostile SDP "
        "text: every captured SDP of lal's parse_test.go and own ffmpeg/live555-style texts, truncated at every offset, line "
        "deletion/duplication/reordering, fmtp continuation lines, `;`/space variants, payload types 0/8/14/96..101/-1/huge, "
        "encoding names in other case, LF-only line ends, Atoi boundary strings; non-trivial = model output is ok and the case line is new")
ASSUMPTIONS = ["SDP text given to c19.sdp_parse is 7-bit ASCII (strings.TrimSpace / strings.EqualFold treat bytes >= 0x80 as UTF-8: "
               "U+0085/U+00A0 and the Kelvin / long-s folds are outside the model)",
               "base64.StdEncoding / encoding/hex are trusted: the model receives python's results as a table; for malformed text the "
               "table holds the prefix Go returns together with the error (re-implemented from encoding/base64 decodeQuantum)",
               "Pack is judged against the RFC reader for parameter sets of 1..65535 bytes, AudioSpecificConfig of >= 2 bytes, sampling "
               "rate > 0 and a tool string without CR/LF; other inputs are only compared model-vs-code",
               "G.711 at a rate other than 8000 Hz keeps the static payload type 0/8 with an explicit rtpmap; the reader lets the rtpmap "
               "override the RFC 3551 table (RFC 4566 section 6)"]

# ----------------------------------------------------------------------------
# Go-compatible decoders (for the model's table) ------------------------------
_B64 = b"ABCDEFGHIJKLMNOPQRSTUVWXYZabcdefghijklmnopqrstuvwxyz0123456789+/"
_B64MAP = {c: i for i, c in enumerate(_B64)}


def go_b64_decode(src):
    """encoding/base64 StdEncoding.DecodeString: (bytes decoded before the error, ok)"""
    out = bytearray()
    si, n = 0, len(src)
    while si < n:
        dbuf = [0, 0, 0, 0]
        dlen, err, j = 4, False, 0
        while j < 4:
            if si == n:
                if j == 0:
                    return bytes(out), True
                return bytes(out), False
            c = src[si]
            si += 1
            if c in _B64MAP:
                dbuf[j] = _B64MAP[c]
                j += 1
                continue
            if c in (10, 13):
                continue
            if c != 61 or j < 2:
                return bytes(out), False
            if j == 2:
                while si < n and src[si] in (10, 13):
                    si += 1
                if si == n or src[si] != 61:
                    return bytes(out), False
                si += 1
            while si < n and src[si] in (10, 13):
                si += 1
            if si < n:
                err = True
            dlen = j
            break
        val = dbuf[0] << 18 | dbuf[1] << 12 | dbuf[2] << 6 | dbuf[3]
        out += bytes([(val >> 16) & 255, (val >> 8) & 255, val & 255])[:dlen - 1]
        if err:
            return bytes(out), False
    return bytes(out), True


def go_hex_decode(src):
    """encoding/hex DecodeString: (bytes decoded before the error, ok)"""
    out = bytearray()
    for i in range(len(src) // 2):
        try:
            out.append(int(src[2 * i:2 * i + 1], 16) * 16 + int(src[2 * i + 1:2 * i + 2], 16))
        except ValueError:
            return bytes(out), False
    return bytes(out), len(src) % 2 == 0


def _entry(kind, text):
    dec, ok = (go_b64_decode if kind == "b" else go_hex_decode)(text)
    if ok and kind == "b" and not any(c in text for c in b"\r\n"):
        assert base64.b64decode(text, validate=True) == dec, text      # independent cross-check on valid text
    return "%s:%s:%d:%s" % (kind, hex_tok(text), 1 if ok else 0, hex_tok(dec))


_SPACE = b"\t\n\v\f\r "


def table_for_text(sdp):
    """every string lal may hand to base64 / hex while parsing this text (over-approximation)"""
    lines = sdp.split(b"\r\n")
    glued, cur = [], None
    for l in lines:                                # the second-pass lines: a=fmtp plus its continuation lines
        if cur is not None and not l.startswith(b"m=") and not l.startswith(b"a="):
            cur += l
            continue
        if cur is not None:
            glued.append(cur)
        cur = l if l.startswith(b"a=fmtp") else None
    if cur is not None:
        glued.append(cur)
    seen, out = set(), []

    def add(kind, text):
        if (kind, text) not in seen and len(out) < 400:
            seen.add((kind, text))
            out.append(_entry(kind, text))
    for l in [x for x in lines if x.startswith(b"a=fmtp")] + glued:
        rest = l.split(b":", 1)[-1].split(b" ", 1)[-1].strip(b";")
        for pp in rest.split(b";"):
            pp = pp.strip(_SPACE)
            if b"=" not in pp:
                continue
            v = pp.split(b"=", 1)[1]
            add("h", v)
            add("b", v)
            for x in v.split(b",", 1):
                add("b", x)
    return ",".join(out) if out else "-"


# ----------------------------------------------------------------------------
# RFC reader (oracle) ----------------------------------------------------------
STATIC_PT = {0: ("PCMU", 8000), 3: ("GSM", 8000), 4: ("G723", 8000), 8: ("PCMA", 8000), 9: ("G722", 8000),
             10: ("L16", 44100), 11: ("L16", 44100), 14: ("MPA", 90000), 18: ("G729", 8000), 26: ("JPEG", 90000),
             31: ("H261", 90000), 32: ("MPV", 90000), 33: ("MP2T", 90000), 34: ("H263", 90000)}      # RFC 3551 table 4/5
_SESSION_ORDER = "vosiuepcbtrzka"
_MEDIA_ORDER = "micbka"
_TOKEN = re.compile(rb"^[!#$%&'*+\-.0-9A-Z^_`a-z{|}~]+$")


class SdpError(ValueError):
    pass


def _int(b, what, lo=None, hi=None):
    if not re.match(rb"^[0-9]+$", b):
        raise SdpError("%s is not an unsigned integer: %r" % (what, b[:24]))
    v = int(b)
    if (lo is not None and v < lo) or (hi is not None and v > hi):
        raise SdpError("%s out of range: %d" % (what, v))
    return v


def rfc_read_sdp(text):
    """RFC 4566 section 5: returns (session_attrs, [media dict]); raises SdpError"""
    if not text.endswith(b"\r\n"):
        raise SdpError("last line is not terminated by CRLF")
    lines = text[:-2].split(b"\r\n")
    sess_attrs, medias, cur = [], [], None
    pos, seen = 0, ""
    for ln in lines:
        if len(ln) < 2 or ln[1:2] != b"=" or not (97 <= ln[0] <= 122):
            raise SdpError("not a <type>=<value> line: %r" % ln[:24])
        if b"\r" in ln or b"\n" in ln or b"\0" in ln:
            raise SdpError("control character inside a line")
        t, v = chr(ln[0]), ln[2:]
        order = _MEDIA_ORDER if (cur is not None and t != "m") else _SESSION_ORDER
        if t == "m":
            if not all(x in seen for x in "vost") and cur is None:
                raise SdpError("m= before the mandatory v/o/s/t lines")
            f = v.split(b" ")
            if len(f) < 4 or not _TOKEN.match(f[0]) or b"" in f:
                raise SdpError("malformed m= line")
            _int(f[1].split(b"/")[0], "port", 0, 65535)
            cur = dict(media=f[0], proto=f[2], fmts=f[3:], attrs=[])
            if f[2] in (b"RTP/AVP", b"RTP/SAVP", b"RTP/AVPF"):
                cur["fmts"] = [_int(x, "RTP payload type", 0, 127) for x in f[3:]]
            medias.append(cur)
            pos = 0
            continue
        if t not in order:
            raise SdpError("unknown or misplaced line type %s=" % t)
        p = order.index(t)
        if p < pos and not (t in "rt" and cur is None and order[pos] in "rt"):
            raise SdpError("%s= line out of order" % t)
        if p == pos and t not in "epbtrak" and (cur is None and t in seen or cur is not None):
            if t in ("v", "o", "s", "i", "u", "c", "z"):
                raise SdpError("%s= line repeated" % t)
        pos = p
        if cur is None:
            seen += t
        if t == "v" and (v != b"0" or seen != "v"):
            raise SdpError("v= must come first and be 0")
        if t == "o":
            f = v.split(b" ")
            if len(f) != 6 or f[3] != b"IN" or f[4] not in (b"IP4", b"IP6"):
                raise SdpError("malformed o= line")
            _int(f[1], "sess-id"), _int(f[2], "sess-version")
        if t == "s" and not v:
            raise SdpError("empty s= line")
        if t == "c":
            f = v.split(b" ")
            if len(f) != 3 or f[0] != b"IN" or f[1] not in (b"IP4", b"IP6") or not f[2]:
                raise SdpError("malformed c= line")
        if t == "t":
            f = v.split(b" ")
            if len(f) != 2:
                raise SdpError("malformed t= line")
            _int(f[0], "start-time"), _int(f[1], "stop-time")
        if t == "b":
            f = v.split(b":")
            if len(f) != 2 or not _TOKEN.match(f[0]):
                raise SdpError("malformed b= line")
            _int(f[1], "bandwidth")
        if t == "a":
            name, _, val = v.partition(b":")
            if not _TOKEN.match(name):
                raise SdpError("malformed attribute name")
            (sess_attrs if cur is None else cur["attrs"]).append((name, val if b":" in v else None))
    if not all(x in seen for x in "vost"):
        raise SdpError("missing mandatory v/o/s/t line")
    return sess_attrs, medias


_B64RE = re.compile(rb"^(?:[A-Za-z0-9+/]{4})*(?:[A-Za-z0-9+/]{2}==|[A-Za-z0-9+/]{3}=)?$")


def _b64_list(v, what):
    out = []
    for x in v.split(b","):
        if not _B64RE.match(x):                       # RFC 4648 section 4, canonical padding
            raise SdpError("%s is not base64: %r" % (what, x[:24]))
        out.append(base64.b64decode(x, validate=True))
        if not out[-1]:
            raise SdpError("%s holds an empty NAL unit" % what)
    return out


def rfc_rtp_view(m):
    """the RTP description of one media section: payload type of the m= line, its rtpmap / fmtp, control"""
    if m["proto"] != b"RTP/AVP" or len(m["fmts"]) < 1:
        raise SdpError("not RTP/AVP")
    pt = m["fmts"][0]
    rtpmaps, fmtps, controls = {}, {}, []
    for name, val in m["attrs"]:
        if name == b"rtpmap":
            mm = re.match(rb"^([0-9]+) ([^/ ]+)/([^/ ]+)(?:/([^/ ]+))?$", val or b"")
            if not mm:
                raise SdpError("malformed a=rtpmap: %r" % (val or b"")[:40])
            p = _int(mm.group(1), "rtpmap payload type", 0, 127)
            if p in rtpmaps:
                raise SdpError("payload type %d mapped twice" % p)
            rtpmaps[p] = (mm.group(2), _int(mm.group(3), "clock rate", 1, 2 ** 32 - 1), mm.group(4))
        elif name == b"fmtp":
            mm = re.match(rb"^([0-9]+) (.*)$", val or b"")
            if not mm:
                raise SdpError("malformed a=fmtp")
            params = {}
            for pp in mm.group(2).strip(b";").split(b";"):         # a trailing ";" is common in the wild
                pp = pp.strip(b" ")
                k, eq, v = pp.partition(b"=")
                if not eq or not _TOKEN.match(k) or b" " in v:
                    raise SdpError("malformed fmtp parameter %r" % pp[:24])
                if k in params:
                    raise SdpError("fmtp parameter %r repeated" % k)
                params[k] = v                  # observation O-5: names compared exactly, as lal does (MIME parameter names are case-insensitive)
            fmtps[_int(mm.group(1), "fmtp format", 0, 127)] = params
        elif name == b"control":
            controls.append(val)
    for p in list(rtpmaps) + list(fmtps):
        if p not in m["fmts"]:
            raise SdpError("rtpmap/fmtp for payload type %d, which the m= line does not list (%r)" % (p, m["fmts"]))
    if pt in rtpmaps:
        name, rate, par = rtpmaps[pt]
    elif pt in STATIC_PT:
        (nm, rate), par = STATIC_PT[pt], None
        name = nm.encode()
    else:
        raise SdpError("dynamic payload type %d without rtpmap" % pt)
    if len(controls) > 1:
        raise SdpError("several a=control")
    d = dict(media=m["media"], pt=pt, name=name, codec=name.upper(), rate=rate, chan=par, control=controls[0] if controls else None,
             sps=None, pps=None, vps=None, asc=None)
    f = fmtps.get(pt)
    if d["codec"] == b"H264":                                             # RFC 6184 8.1
        if rate != 90000:
            raise SdpError("H264 clock rate must be 90000")
        if f is not None:
            if f.get(b"packetization-mode", b"0") not in (b"0", b"1", b"2"):
                raise SdpError("packetization-mode")
            if b"profile-level-id" in f and not re.match(rb"^[0-9A-Fa-f]{6}$", f[b"profile-level-id"]):
                raise SdpError("profile-level-id is not 6 hex digits")
            if b"sprop-parameter-sets" in f:
                d["nals"] = _b64_list(f[b"sprop-parameter-sets"], "sprop-parameter-sets")
    elif d["codec"] == b"H265":                                           # RFC 7798 7.1
        if rate != 90000:
            raise SdpError("H265 clock rate must be 90000")
        if f is not None:
            for k in ("vps", "sps", "pps"):
                if b"sprop-" + k.encode() in f:
                    d[k + "s"] = _b64_list(f[b"sprop-" + k.encode()], "sprop-" + k)
    elif d["codec"] == b"MPEG4-GENERIC":                                  # RFC 3640 4.1
        if f is None or b"mode" not in f:
            raise SdpError("MPEG4-GENERIC without mode")
        if f[b"mode"].lower() in (b"aac-hbr", b"aac-lbr"):
            if b"config" not in f or not re.match(rb"^([0-9A-Fa-f]{2})+$", f[b"config"]):
                raise SdpError("AAC mode without hexadecimal config")
            for k in (b"sizelength", b"indexlength", b"indexdeltalength"):
                if k not in f:
                    raise SdpError("AAC mode without " + k.decode())
                _int(f[k], k.decode())
            d["asc"] = bytes.fromhex(f[b"config"].decode())
    return d


# ----------------------------------------------------------------------------
PT_NAME = {96: b"H264", 98: b"H265", 97: b"MPEG4-GENERIC", 8: b"PCMA", 0: b"PCMU", 101: b"OPUS"}


def parse_ctx(out):
    """the printed LogicContext -> dict"""
    d = {}
    for kv in out.split(" "):
        k, _, v = kv.partition("=")
        d[k] = v
    r = dict(raw=tok_bytes(d["raw"]))
    for k, key in (("a", "audio"), ("v", "video")):
        f = d[k].split(",")
        if len(f) != 6:
            return None
        r[key] = dict(has=f[0] == "1", rate=zint(f[1]), base=zint(f[2]), orig=zint(f[3]), ctl=tok_bytes(f[4]), setup=tok_bytes(f[5]))
    for k in ("asc", "vps", "sps", "pps"):
        r[k] = None if d[k] == "nil" else tok_bytes(d[k])
    return r


def zint(t):
    return -int(t[1:], 16) if t.startswith("-") else int(t, 16)


def ztok(v):
    return "-0x%x" % -v if v < 0 else "0x%x" % v


def opt_tok(b):
    return "nil" if b is None else hex_tok(b)


def opt_of(t):
    return None if t == "nil" else tok_bytes(t)


def pack_line(tool, vpt, vps, sps, pps, apt, rate, asc, tok=None):
    """tok: optional {id(bytes object): token} to keep r-notation for big parameter sets"""
    ents = []
    for x in (sps, pps, vps):
        if x is not None:
            ents.append("b:%s:1:%s" % (hex_tok(base64.b64encode(x)), (tok or {}).get(id(x), hex_tok(x))))
    if asc is not None:
        ents.append("h:%s:1:%s" % (hex_tok(binascii.hexlify(asc)), hex_tok(asc)))
    ents = list(dict.fromkeys(ents))
    f = lambda x: "nil" if x is None else (tok or {}).get(id(x), hex_tok(x))
    return "c19.sdp_pack %s %s %s %s %s %s %s %s %s" % (hex_tok(tool), ztok(vpt), f(vps), f(sps), f(pps), ztok(apt), ztok(rate), f(asc),
                                                       ",".join(ents) if ents else "-")


def pack_accepts(vpt, vps, sps, pps, apt, asc):
    v = (vpt == 96 and sps is not None and pps is not None) or (vpt == 98 and None not in (vps, sps, pps))
    a = (apt == 97 and asc is not None) or apt in (8, 0, 101)
    return v, a


SEEDS_OWN = [
    # ffmpeg-style H264 + AAC
    b"v=0\r\no=- 0 0 IN IP4 127.0.0.1\r\ns=No Name\r\nc=IN IP4 127.0.0.1\r\nt=0 0\r\na=tool:libavformat 58.29.100\r\n"
    b"m=video 0 RTP/AVP 96\r\nb=AS:212\r\na=rtpmap:96 H264/90000\r\n"
    b"a=fmtp:96 packetization-mode=1; sprop-parameter-sets=Z2QAIKzZQMApsBEAAAMAAQAAAwAyDxgxlg==,aOvssiw=; profile-level-id=640020\r\n"
    b"a=control:streamid=0\r\nm=audio 0 RTP/AVP 97\r\nb=AS:30\r\na=rtpmap:97 MPEG4-GENERIC/44100/2\r\n"
    b"a=fmtp:97 profile-level-id=1;mode=AAC-hbr;sizelength=13;indexlength=3;indexdeltalength=3; config=121056E500\r\na=control:streamid=1\r\n",
    # live555-style with absolute control URLs and H265
    b"v=0\r\no=- 1586759500 1 IN IP4 192.168.1.10\r\ns=Session streamed by x\r\ni=h265\r\nt=0 0\r\na=tool:LIVE555\r\na=type:broadcast\r\n"
    b"a=control:*\r\na=range:npt=0-\r\nm=video 0 RTP/AVP 98\r\nc=IN IP4 0.0.0.0\r\nb=AS:500\r\na=rtpmap:98 H265/90000\r\n"
    b"a=fmtp:98 profile-space=0;profile-id=1;tier-flag=0;level-id=93;sprop-vps=QAEMAf//AWAAAAMAkAAAAwAAAwBdlZgJ;"
    b"sprop-sps=QgEBAWAAAAMAkAAAAwAAAwBdoAKAgC0WWVmkkyuAQAAA+kAAF3AC;sprop-pps=RAHBcrRiQA==\r\n"
    b"a=control:rtsp://192.168.1.10:554/h265/track1\r\nm=audio 0 RTP/AVP 0\r\nc=IN IP4 0.0.0.0\r\nb=AS:64\r\na=control:track2\r\n",
    # G711A with rtpmap, opus, mp2 static
    b"v=0\r\no=- 0 0 IN IP4 127.0.0.1\r\ns=x\r\nt=0 0\r\nm=audio 0 RTP/AVP 8\r\na=rtpmap:8 pcma/8000/1\r\na=control:a\r\n",
    b"v=0\r\no=- 0 0 IN IP4 127.0.0.1\r\ns=x\r\nt=0 0\r\nm=audio 0 RTP/AVP 101\r\na=rtpmap:101 OPUS/48000/2\r\na=control:a\r\n"
    b"m=video 0 RTP/AVP 96\r\na=rtpmap:96 H264/90000\r\na=control:v\r\n",
    b"v=0\r\no=- 0 0 IN IP4 127.0.0.1\r\ns=x\r\nt=0 0\r\nm=audio 0 RTP/AVP 14\r\na=control:a\r\n",
]


def lal_test_seeds():
    """the captured SDP texts of lal's own parser test (read, not printed)"""
    p = os.path.join(os.environ.get("LAL_REPO", "/repo"), "pkg", "sdp", "parse_test.go")
    try:
        src = open(p, encoding="utf-8", errors="replace").read()
    except OSError:
        return []
    out = []
    for m in re.finditer(r"`([^`]*)`", src):
        s = m.group(1)
        if "m=" in s and "\n" in s:
            out.append(s.encode("utf-8", "replace").replace(b"\r\n", b"\n").replace(b"\n", b"\r\n"))
    m = re.search(r'var goldenSdp = ((?:"[^"\n]*"\s*\+?\s*\n?)+)', src)
    if m:
        parts = re.findall(r'"((?:[^"\\]|\\.)*)"', m.group(1))
        out.append("".join(parts).encode().decode("unicode_escape").encode("latin1"))
    return [s for s in out if all(c < 128 for c in s)]


def parse_case(sdp, cls):
    return Case("c19.sdp_parse %s %s" % (hex_tok(sdp), table_for_text(sdp)), cls=cls)


ATOI_STRINGS = [b"", b"0", b"-0", b"+0", b"+", b"-", b"96", b"+96", b"-96", b"096", b"00000000000000000000097", b"9 6", b" 96", b"96 ",
                b"9a", b"0x60", b"1_000", b"1e3", b"--1", b"+-1", b"999999999999999999", b"1000000000000000000", b"9223372036854775807",
                b"9223372036854775808", b"-9223372036854775808", b"-9223372036854775809", b"18446744073709551615", b"18446744073709551616",
                b"99999999999999999999", b"99999999999999999999x", b"9999999999999999999x", b"1844674407370955161", b"1844674407370955162",
                b"18446744073709551610", b"18446744073709551609", b"-18446744073709551616", b"+9223372036854775807", b"\xef\xbc\x91",
                b"1\r", b"\n1", b"184467440737095516150", b"-99999999999999999999x"]


def line_mutations(rng, sdp, n):
    """hostile variants built on the line structure"""
    lines = sdp.split(b"\r\n")
    subs = [(b"H264", b"h264"), (b"H264", b"H265"), (b"H265", b"h265"), (b"MPEG4-GENERIC", b"mpeg4-generic"), (b"MPEG4-GENERIC", b"Mpeg4-Generic"),
            (b"MPEG4-GENERIC", b"MPEG4-GENERIC "), (b"PCMA", b"pcMa"), (b"PCMU", b"pcmu"), (b"opus", b"OPUS"), (b"; ", b";"), (b";", b"; "),
            (b";", b";;"), (b";", b" ;\t"), (b"=", b" = "), (b"a=fmtp:", b"a=fmtp: "), (b"a=fmtp:", b"a=fmtp"), (b"a=rtpmap:", b"a=rtpmap"),
            (b"a=control:", b"a=control"), (b"a=control:", b"a=control: "), (b"m=video", b"m=Video"), (b"m=audio", b"m=audio "),
            (b"m=audio", b"m=application"), (b"RTP/AVP ", b"RTP/AVP"), (b"/90000", b"/"), (b"/90000", b"/0"), (b"/90000", b"/-90000"),
            (b"/90000", b"/90000/"), (b"/90000", b""), (b"/90000", b"/9223372036854775808"), (b"/2", b"/2/3"), (b",", b""), (b",", b",,"),
            (b"config=", b"config=0"), (b"config=", b"config=zz"), (b"config=", b"Config="), (b"config=", b"x=1;config=12;config="),
            (b"sprop-parameter-sets=", b"sprop-parameter-sets=!"), (b"sprop-parameter-sets=", b"sprop-parameter-sets"),
            (b"sprop-vps=", b"sprop-vps=="), (b"sprop-sps=", b"sprop-sps=A"), (b"sprop-pps=", b"sprop-xps="), (b"streamid=", b"rtsp://h/"),
            (b"a=control:", b"a=control:rtsp://"), (b"==", b"="), (b"=;", b";"), (b"\r\n", b"\n"), (b"\r\n", b"\r\n\r\n"), (b"\r\n", b"\r"),
            (b"\r\na=", b"\r\n a="), (b" ", b"  "), (b" ", b"\t")]
    pts = [b"0", b"8", b"14", b"96", b"97", b"98", b"101", b"-1", b"127", b"128", b"99999999999999999999", b"9223372036854775807", b"+8", b"08", b""]
    for _ in range(n):
        k = rng.randrange(12)
        ls = list(lines)
        if k == 0 and len(ls) > 1:
            del ls[rng.randrange(len(ls))]
        elif k == 1:
            i = rng.randrange(len(ls))
            ls.insert(rng.randrange(len(ls) + 1), ls[i])
        elif k == 2 and len(ls) > 2:
            i, j = rng.randrange(len(ls)), rng.randrange(len(ls))
            ls[i], ls[j] = ls[j], ls[i]
        elif k == 3:
            # continuation line: break a line at a random place
            i = rng.randrange(len(ls))
            if len(ls[i]) > 2:
                c = rng.randrange(1, len(ls[i]))
                ls[i:i + 1] = [ls[i][:c], ls[i][c:]]
        elif k in (4, 5, 6):
            a, b = rng.choice(subs)
            s = b"\r\n".join(ls)
            idx = [m.start() for m in re.finditer(re.escape(a), s)]
            if idx:
                if rng.random() < 0.3:
                    s = s.replace(a, b)
                else:
                    i = rng.choice(idx)
                    s = s[:i] + b + s[i + len(a):]
            yield s
            continue
        elif k == 7:
            # payload type in m= / rtpmap / fmtp
            s = b"\r\n".join(ls)
            idx = [(m.start(1), m.end(1)) for m in re.finditer(rb"(?:RTP/AVP |a=rtpmap:|a=fmtp:)(-?[0-9]+)", s)]
            if idx:
                a, b = rng.choice(idx)
                s = s[:a] + rng.choice(pts) + s[b:]
            yield s
            continue
        elif k == 8:
            i = rng.randrange(len(ls))
            ls.insert(i, rng.choice([b"m=", b"m=audio", b"m=video 0 RTP/AVP", b"m=video 0 RTP/AVP 96 97", b"a=rtpmap:", b"a=rtpmap:96", b"a=rtpmap:96 ",
                                     b"a=rtpmap:96 H264", b"a=rtpmap:x H264/90000", b"a=fmtp:96", b"a=fmtp:96 ", b"a=fmtp:96 ;", b"a=fmtp:96 a",
                                     b"a=fmtp:96 a=1;;b=2", b"a=fmtp:96 ;;a=1;b=2;a=3;;", b"a=fmtp:x a=1", b"a=control", b"a=control:", b"a=controlx:1",
                                     b"a=fmtpx", b"a=rtpmapx", b"m=audio 0 RTP/AVP 8", b"m=audio 0 RTP/AVP 0", b"m=audio 0 RTP/AVP 14", b"a=", b"", b"xyz",
                                     b"a=fmtp:97 config=1210", b"a=fmtp:97 config=121", b"a=fmtp:97 config=12", b"a=fmtp:97 config=12zz34",
                                     b"a=fmtp:96 sprop-parameter-sets=Zw==,aA", b"a=fmtp:96 sprop-parameter-sets=Z*==,aA==",
                                     b"a=fmtp:96 sprop-parameter-sets=Zw==,aA==,aQ==", b"a=fmtp:98 sprop-vps=QA==;sprop-sps=Qg==;sprop-pps=R",
                                     b"a=fmtp:98 sprop-vps=QA==;sprop-sps=Qg==", b"a=fmtp:98 sprop-sps=Qg==;sprop-pps=RA==;sprop-vps=QAE="]))
        elif k == 9:
            m = bytearray(b"\r\n".join(ls))
            for _ in range(rng.choice([1, 1, 2, 4])):
                m[rng.randrange(len(m))] = rng.choice([0, 9, 10, 13, 32, 47, 58, 59, 61, 44, 43, 45, 48, 57, 65, 97, 127])
            yield bytes(m)
            continue
        elif k == 10:
            s = b"\r\n".join(ls)
            c = rng.randrange(len(s))
            yield s[:c] + s[rng.randrange(c, len(s)):]
            continue
        else:
            rng.shuffle(ls)
        yield b"\r\n".join(ls)


def gen_cases(tier, rng):
    q = tier == "quick"
    yield Case("c19.sdp_consts", cls="sdp-consts")
    for s in ATOI_STRINGS:
        yield Case("c19.sdp_atoi " + hex_tok(s), cls="sdp-atoi")
    for _ in range(40 if q else 400):
        n = rng.choice([1, 2, 17, 18, 19, 20, 21])
        s = rng.choice([b"", b"", b"-", b"+"]) + bytes(rng.choice(b"0123456789") for _ in range(n))
        if rng.random() < 0.15:
            i = rng.randrange(len(s) + 1)
            s = s[:i] + bytes([rng.choice(b" _xa-+.\0")]) + s[i:]
        yield Case("c19.sdp_atoi " + hex_tok(s), cls="sdp-atoi")
    for z in [0, 1, -1, 9, 10, 11, 99, 100, 101, 8000, 44100, 48000, 90000, 2 ** 31 - 1, 2 ** 31, -2 ** 31, 10 ** 18,
              2 ** 63 - 1, -2 ** 63, -2 ** 63 + 1, 10 ** 18 - 1, -10 ** 18] + [rng.randrange(-2 ** 63, 2 ** 63) for _ in range(20 if q else 300)]:
        yield Case("c19.sdp_fmtd " + ztok(z), cls="sdp-fmtd")

    # ---- Pack: codec x nil-ness sweep
    SPS, PPS = bytes.fromhex("6764001facd9405005bb016a02020280000003008000001e478c18cb"), bytes.fromhex("68ebecb22c")
    HV, HS, HP = bytes.fromhex("40010c01ffff016000000300900000030000030099959809"), \
        bytes.fromhex("420101016000000300900000030000030099a001e020021c596565924caf016a02020208000003000800000300f040"), bytes.fromhex("4401c172b46240")
    ASC = bytes.fromhex("1210")
    tool = b"lal 0.37.4"
    opts = lambda x: [None, b"", x]
    for vpt in (96, 98, -1, 0, 97, 99):
        for vps in opts(HV):
            for sps in opts(SPS if vpt == 96 else HS):
                for pps in opts(PPS if vpt == 96 else HP):
                    for apt, rate, asc in ((97, 44100, ASC), (-1, -1, None), (97, 48000, None)):
                        if vpt not in (96, 98) and (vps, sps, pps) not in ((None, None, None), (HV, HS, HP), (b"", b"", b"")):
                            continue
                        yield Case(pack_line(tool, vpt, vps, sps, pps, apt, rate, asc), cls="sdp-pack-nil-sweep")
    for apt in (97, 8, 0, 101, 14, -1, 96, 98, 1, 2 ** 31):
        for asc in (None, b"", b"\x12", ASC, bytes.fromhex("11900000"), bytes.fromhex("1210") + bytes(range(13)), bytes.fromhex("f8e85000")):
            for rate in (44100, 8000, 48000, 16000, 1, 0, -1, -8000, 2 ** 31, 2 ** 63 - 1, -2 ** 63):
                if apt not in (97,) and asc not in (None, ASC):
                    continue
                for vid in ((-1, None, None, None), (96, None, SPS, PPS)):
                    if vid[0] == 96 and rate not in (44100, 8000, 0, -1):
                        continue
                    yield Case(pack_line(tool, vid[0], vid[1], vid[2], vid[3], apt, rate, asc), cls="sdp-pack-audio-sweep")
    # parameter-set lengths (base64 padding classes, emulation-prevention-like bytes, big sets)
    lens = list(range(1, 20)) + [63, 64, 65, 255, 256, 257, 1000]
    for n in lens:
        for vpt in (96, 98):
            s = bytes([0x67 if vpt == 96 else 0x42]) + bytes(rng.randrange(256) for _ in range(n - 1))
            p = bytes([0x68 if vpt == 96 else 0x44]) + bytes(rng.randrange(256) for _ in range(rng.choice([0, 1, 2, 3, n])))
            v = bytes([0x40]) + bytes(rng.randrange(256) for _ in range(rng.choice([0, 1, 2, 3, n])))
            yield Case(pack_line(tool, vpt, v if vpt == 98 else None, s, p, 97, 44100, ASC), cls="sdp-pack-lengths")
    for b in (b"\x00", b"\xff", b"\xfb\xef\xbe", b"\xff\xff\xff", b"\x00\x00\x00", b"\x00\x00\x03\x00", b";", b",", b" ", b"\r\n", b"=", b"a=b;c=d"):
        yield Case(pack_line(tool, 96, None, b, b, 97, 44100, ASC), cls="sdp-pack-lengths")
        yield Case(pack_line(tool, 98, b, b, b, 97, 44100, b + b), cls="sdp-pack-lengths")
    for n, seed in ((4096, 1), (65535, 2)) if q else ((4096, 1), (65535, 2), (65535, 3), (65536, 4), (30000, 5)):
        s = tok_bytes("r%d.%d" % (n, seed))
        p = tok_bytes("r%d.%d" % (n // 7 + 1, seed + 100))
        tk = {id(s): "r%d.%d" % (n, seed), id(p): "r%d.%d" % (n // 7 + 1, seed + 100)}
        yield Case(pack_line(tool, 96, None, s, p, -1, -1, None, tk), cls="sdp-pack-big")
        yield Case(pack_line(tool, 98, p, s, p, 97, 44100, ASC, tk), cls="sdp-pack-big")
    # tool strings (base.LalPackSdp is a variable; the a=tool line must not disturb anything)
    for t in (b"", b"lal", b"lal 0.37.4 ", b"m=video", b"a=fmtp:96 x", b"a=control:zz", b"x\r\nm=audio 0 RTP/AVP 8", b"x\ny", b"a=rtpmap:1 x/1\r", b"\r", b";=,"):
        yield Case(pack_line(t, 96, None, SPS, PPS, 97, 44100, ASC), cls="sdp-pack-tool")
        yield Case(pack_line(t, -1, None, None, None, 8, 8000, None), cls="sdp-pack-tool")
    # structured random
    for _ in range(250 if q else 4000):
        vpt = rng.choice([96, 96, 98, 98, -1, 97])
        rb = lambda lo, hi: bytes(rng.randrange(256) for _ in range(rng.randrange(lo, hi)))
        ro = lambda x: rng.choice([x, x, x, x, x, None, b""])
        sps = ro(bytes([0x67 if vpt == 96 else 0x42]) + rb(3, 60))
        pps = ro(bytes([0x68 if vpt == 96 else 0x44]) + rb(0, 12))
        vps = ro(bytes([0x40]) + rb(1, 30)) if vpt == 98 or rng.random() < 0.2 else None
        apt = rng.choice([97, 97, 97, 8, 0, 101, -1, 14])
        asc = rng.choice([rb(2, 3), rb(2, 8), rb(2, 3), None, b"", rb(1, 2)]) if apt == 97 or rng.random() < 0.1 else None
        rate = rng.choice([8000, 11025, 16000, 22050, 32000, 44100, 48000, 96000, 7350, rng.randrange(1, 200000), rng.randrange(-5, 5)])
        yield Case(pack_line(rng.choice([tool, b"lal 0.0.1", b"x y z"]), vpt, vps, sps, pps, apt, rate, asc), cls="sdp-pack-random")

    # ---- hostile SDP text
    seeds = lal_test_seeds() + SEEDS_OWN
    for s in seeds:
        yield parse_case(s, "sdp-parse-seed")
        yield parse_case(s.replace(b"\r\n", b"\n"), "sdp-parse-seed-lf")
    for s in [b"", b"\r\n", b"m=", b"m=audio", b"m=audio\r\n", b"a=rtpmap", b"a=fmtp", b"a=control", b"a=control:x", b"a=rtpmap:96 H264/90000",
              b"m=video 0 RTP/AVP 96\r\na=rtpmap:96 H264/90000", b"m=audio 0 RTP/AVP 0", b"m=audio 0 RTP/AVP 8\r\nm=audio 0 RTP/AVP 14\r\n",
              b"m=audio 0 RTP/AVP 97\r\na=rtpmap:97 MPEG4-GENERIC/44100/2\r\na=fmtp:97 config=1210\r\nm=audio 0 RTP/AVP 8\r\n",
              b"m=audio 0 RTP/AVP 0\r\na=rtpmap:0 G726/0\r\n", b"m=audio 0 RTP/AVP 8\r\na=rtpmap:8 x/16000\r\n",
              b"m=audio 0 RTP/AVP 8 0\r\na=rtpmap:0 PCMU/8000\r\n", b"m=video 0 RTP/AVP 96\r\na=fmtp:96 sprop-parameter-sets=Zw==\r\n,aA==\r\na=rtpmap:96 H264/90000\r\n",
              b"m=video 0 RTP/AVP 96\r\na=rtpmap:96 H264/90000\r\na=fmtp:96 a\r\n=1\r\nm=x\r\n", b"a=fmtp:96 a\r\nb\r\nc", b"a=fmtp:96 a\r\n=1\r\n\r\n",
              b"a=fmtp:1 \r\na=b", b"a=fmtp:1\r\n x=1\r\n"]:
        yield parse_case(s, "sdp-parse-boundary")
    # encoding names in every case on dynamic payload types (no static-type fallback)
    hdr = b"v=0\r\no=- 0 0 IN IP4 127.0.0.1\r\ns=x\r\nt=0 0\r\n"
    for name, rate in ((b"PCMA", b"8000"), (b"PCMU", b"8000"), (b"opus", b"48000/2"), (b"MPEG4-GENERIC", b"44100/2")):
        for nm in (name, name.lower(), name.upper(), name.capitalize(), name.swapcase(), name[:-1] + name[-1:].swapcase()):
            fm = b"a=fmtp:105 mode=AAC-hbr;sizelength=13;indexlength=3;indexdeltalength=3;config=1210\r\n" if name.startswith(b"MPEG") else b""
            yield parse_case(hdr + b"m=audio 0 RTP/AVP 105\r\na=rtpmap:105 " + nm + b"/" + rate + b"\r\n" + fm + b"a=control:t\r\n", "sdp-parse-names")
    for nm in (b"H264", b"h264", b"H265", b"h265", b"H266"):
        yield parse_case(hdr + b"m=video 0 RTP/AVP 107\r\na=rtpmap:107 " + nm + b"/90000\r\na=control:t\r\n", "sdp-parse-names")
    picks = seeds if not q else seeds[:3] + seeds[-5:-3]
    for s in picks:
        for k in range(len(s) + 1):
            yield parse_case(s[:k], "sdp-parse-truncated")
    for s in seeds:
        for m in line_mutations(rng, s, 30 if q else 400):
            if all(c < 128 for c in m):
                yield parse_case(m, "sdp-parse-mutated")


def nontrivial(c, out):
    if not out.startswith("ok") and not c.line.startswith(("c19.sdp_consts", "c19.sdp_atoi", "c19.sdp_fmtd")):
        return None
    return c.line


# ----------------------------------------------------------------------------
def _check_track(what, t, view, want_codec_pt):
    """lal's track description against the reader's view of the media section"""
    if view is None:
        if t["has"] or t["base"] != -1 or t["ctl"]:
            return "the text has no %s section; lal reports has=%s payload type base %d (%s)" % (
                what, t["has"], t["base"], {0: "G711U", -1: "unknown"}.get(t["base"], "?"))
        return None
    if PT_NAME.get(t["base"]) != view["codec"]:
        return "%s codec: reader %s, lal base payload type %d" % (what, view["codec"].decode(), t["base"])
    if t["base"] != want_codec_pt:
        return "%s base payload type %d, packed %d" % (what, t["base"], want_codec_pt)
    if t["orig"] != view["pt"]:
        return "%s payload type: m= line says %d, lal uses %d" % (what, view["pt"], t["orig"])
    if t["rate"] != view["rate"]:
        return "%s clock rate: reader %d, lal %d" % (what, view["rate"], t["rate"])
    if t["ctl"] != (view["control"] or b""):
        return "%s control: reader %r, lal %r" % (what, view["control"], t["ctl"])
    if t["setup"] != b"X/" + t["ctl"]:
        return "%s setup URI %r" % (what, t["setup"])
    return None


def oracle_pack(f, out):
    tool = tok_bytes(f[1])
    vpt, vps, sps, pps = zint(f[2]), opt_of(f[3]), opt_of(f[4]), opt_of(f[5])
    apt, rate, asc = zint(f[6]), zint(f[7]), opt_of(f[8])
    va, aa = pack_accepts(vpt, vps, sps, pps, apt, asc)
    # input classes the property speaks about (see ASSUMPTIONS)
    if b"\r" in tool or b"\n" in tool:
        return None
    if va and not all(x is None or 1 <= len(x) <= 65535 for x in (sps, pps) + ((vps,) if vpt == 98 else ())):
        return None
    if aa and ((apt == 97 and len(asc) < 2) or (apt != 101 and not 0 < rate < 2 ** 32)):
        return None
    if not (va or aa):
        return (out == "err other", "Pack accepted a stream without a usable track: " + out[:60])
    if not out.startswith("ok "):
        return (False, "Pack refused a valid stream: " + out[:60])
    c = parse_ctx(out[3:])
    if c is None:
        return (False, "unreadable context")
    try:
        sess, medias = rfc_read_sdp(c["raw"])
        views = [rfc_rtp_view(m) for m in medias]
    except SdpError as e:
        return (False, "RFC reader rejects the SDP lal generated: %s" % e)
    vv = [v for v in views if v["media"] == b"video"]
    av = [v for v in views if v["media"] == b"audio"]
    if len(vv) != (1 if va else 0) or len(av) != (1 if aa else 0) or len(views) != len(vv) + len(av):
        return (False, "reader finds %d video / %d audio sections, stream has %d / %d" % (len(vv), len(av), va, aa))
    if (b"tool", tool) not in sess and not (tool == b"" and (b"tool", b"") in sess):
        return (False, "a=tool is not the session attribute given")
    ctl = []
    if va:
        v = vv[0]
        ctl.append(v["control"])
        if v["pt"] != vpt or v["codec"] != PT_NAME[vpt] or v["rate"] != 90000:
            return (False, "video section: payload type %d %s/%d for lal type %d" % (v["pt"], v["codec"].decode(), v["rate"], vpt))
        got = (v.get("nals"),) if vpt == 96 else (v["vpss"] if "vpss" in v else None, v.get("spss"), v.get("ppss"))
        want = ([sps, pps],) if vpt == 96 else ([vps], [sps], [pps])
        if got != want:
            return (False, "parameter sets read from the SDP differ from the ones packed")
        if (c["sps"], c["pps"], c["vps"]) != (sps, pps, vps if vpt == 98 else None):
            return (False, "lal reads back other parameter sets than the ones packed (sps %s pps %s vps %s)" % (
                opt_tok(c["sps"])[:24], opt_tok(c["pps"])[:24], opt_tok(c["vps"])[:24]))
    elif (c["sps"], c["pps"], c["vps"]) != (None, None, None):
        return (False, "parameter sets without a video track")
    if aa:
        a = av[0]
        ctl.append(a["control"])
        want_rate = 48000 if apt == 101 else rate
        if a["pt"] != apt or a["codec"] != PT_NAME[apt] or a["rate"] != want_rate:
            return (False, "audio section: payload type %d %s/%d for lal type %d rate %d" % (a["pt"], a["codec"].decode(), a["rate"], apt, want_rate))
        if apt == 97 and (a["asc"] != asc or c["asc"] != asc):
            return (False, "AudioSpecificConfig: packed %s, reader %s, lal %s" % (asc.hex(), a["asc"] and a["asc"].hex(), opt_tok(c["asc"])))
        if apt != 97 and c["asc"] is not None:
            return (False, "AudioSpecificConfig without AAC")
    elif c["asc"] is not None:
        return (False, "AudioSpecificConfig without an audio track")
    if ctl != [b"streamid=%d" % i for i in range(len(ctl))]:
        return (False, "control values %r" % ctl)
    for what, t, view, pt in (("video", c["video"], vv[0] if va else None, vpt), ("audio", c["audio"], av[0] if aa else None, apt)):
        why = _check_track(what, t, view, pt)
        if why:
            return (False, why)
    return (True, "")


CODEC_PT = {b"H264": 96, b"H265": 98, b"MPEG4-GENERIC": 97, b"PCMA": 8, b"PCMU": 0, b"OPUS": 101, b"MPA": 14}


def oracle_parse(f, out):
    """foreign SDP that the RFC reader accepts, with at most one audio and one video section: lal's view must agree"""
    text = tok_bytes(f[1])
    try:
        sess, medias = rfc_read_sdp(text)
        views = [rfc_rtp_view(m) for m in medias if m["media"] in (b"audio", b"video")]
    except SdpError:
        return None
    vv = [v for v in views if v["media"] == b"video"]
    av = [v for v in views if v["media"] == b"audio"]
    if len(vv) > 1 or len(av) > 1:
        return None
    if " | ok " not in out:
        return None      # observation O-3: lal refuses some SDPs a reader accepts (a=fmtpx / a=controlx attributes)
    c = parse_ctx(out.split(" | ok ", 1)[1])
    for what, t, view in (("video", c["video"], vv[0] if vv else None), ("audio", c["audio"], av[0] if av else None)):
        if view is None:
            if t["has"] or t["base"] != -1:
                return (False, "no %s section, lal reports payload type base %d" % (what, t["base"]))
            continue
        want = CODEC_PT.get(view["codec"], -1)
        if what == "video" and view["name"] != view["codec"]:
            continue         # observation O-4: lal matches video encoding names case-sensitively
        if what == "audio" and view["codec"] not in CODEC_PT and view["pt"] in (0, 8, 14):
            continue         # unknown encoding name on a static payload type: lal falls back to the RFC 3551 table
        if what == "video" and want not in (96, 98) or what == "audio" and want in (96, 98):
            want = -1
        if t["base"] != want:
            return (False, "%s codec: reader %s, lal base payload type %d" % (what, view["codec"].decode(), t["base"]))
        if want == -1:
            continue
        if t["orig"] != view["pt"]:
            return (False, "%s payload type: reader %d, lal %d" % (what, view["pt"], t["orig"]))
        if t["rate"] != view["rate"] and want != 14:      # observation O-2: MP2 static type gets 8000, RFC 3551 says 90000
            return (False, "%s clock rate: reader %d, lal %d" % (what, view["rate"], t["rate"]))
        if t["ctl"] != (view["control"] or b""):
            return (False, "%s control: reader %r, lal %r" % (what, view["control"], t["ctl"]))
    if vv and vv[0]["name"] != vv[0]["codec"]:
        vv = []
    if vv and vv[0]["codec"] == b"H264" and len(vv[0].get("nals") or []) == 2 and [c["sps"], c["pps"]] != vv[0]["nals"]:
        return (False, "H264 parameter sets differ from the reader's")
    if vv and vv[0]["codec"] == b"H265" and all(len(vv[0].get(k) or []) == 1 for k in ("vpss", "spss", "ppss")) and \
            [c["vps"], c["sps"], c["pps"]] != [vv[0]["vpss"][0], vv[0]["spss"][0], vv[0]["ppss"][0]]:
        return (False, "H265 parameter sets differ from the reader's")
    if av and av[0]["codec"] == b"MPEG4-GENERIC" and av[0]["asc"] is not None and len(av[0]["asc"]) >= 2 and c["asc"] != av[0]["asc"]:
        return (False, "AudioSpecificConfig differs from the reader's")
    return (True, "")


def oracle(c, out):
    f = c.line.split(" ")
    if f[0] == "c19.sdp_pack":
        return oracle_pack(f, out)
    if f[0] == "c19.sdp_parse":
        return oracle_parse(f, out)
    if f[0] == "c19.sdp_atoi":
        s = tok_bytes(f[1])
        if re.match(rb"^[+-]?[0-9]+$", s) and -2 ** 63 <= int(s) < 2 ** 63:
            return (out == "%s 0x0" % ztok(int(s)), "Atoi(%r) = %s" % (s, out))
        return (not out.endswith(" 0x0"), "Atoi accepts %r" % s)
    if f[0] == "c19.sdp_fmtd":
        return (tok_bytes(out) == b"%d" % zint(f[1]), "%%d of %d" % zint(f[1]))
    return None


def classify_finding(c, out):
    return None


def neighbors(c, rng):
    f = c.line.split(" ")
    if f[0] == "c19.sdp_parse":
        s = tok_bytes(f[1])
        for m in line_mutations(rng, s, 30):
            if all(x < 128 for x in m):
                yield parse_case(m, "").line
    if f[0] == "c19.sdp_pack":
        for vpt, apt in ((96, 97), (98, 97), (-1, 97), (96, -1), (98, 8), (-1, 0), (96, 101)):
            yield pack_line(tok_bytes(f[1]), vpt, b"\x40\x01", b"\x67\x64\x00\x1f", b"\x68\xeb", apt, 44100, b"\x12\x10")
