# C19 reference side for H.264 / H.265 parameter sets, written from the
# specifications (ITU-T H.264 7.3.2.1 / 7.4.2.1.1, H.265 7.3.2.2, ISO/IEC
# 14496-15 5.2.4.1 / 8.3.3.1), independently of lal.
import random


class BitW:
    def __init__(self):
        self.bits = []

    def u(self, n, v):
        for i in range(n - 1, -1, -1):
            self.bits.append((v >> i) & 1)

    def ue(self, v):
        v += 1
        n = v.bit_length()
        self.u(n - 1, 0)
        self.u(n, v)

    def se(self, v):
        self.ue(2 * v - 1 if v > 0 else -2 * v)

    def trailing(self):
        self.bits.append(1)
        while len(self.bits) % 8:
            self.bits.append(0)

    def bytes(self):
        assert len(self.bits) % 8 == 0
        out = bytearray()
        for i in range(0, len(self.bits), 8):
            v = 0
            for b in self.bits[i:i + 8]:
                v = v * 2 + b
            out.append(v)
        return bytes(out)


def epb_insert(rbsp):
    """H.264 7.4.1 / H.265 7.4.2: emulation prevention"""
    out = bytearray()
    zeros = 0
    for b in rbsp:
        if zeros >= 2 and b <= 3:
            out.append(3)
            zeros = 0
        out.append(b)
        zeros = zeros + 1 if b == 0 else 0
    return bytes(out)


def epb_strip(nal):
    out = bytearray()
    zeros = 0
    for b in nal:
        if zeros >= 2 and b == 3:
            zeros = 0
            continue
        out.append(b)
        zeros = zeros + 1 if b == 0 else 0
    return bytes(out)


HIGH_PROFILES = (100, 110, 122, 244, 44, 83, 86, 118, 128, 138, 139, 134)


def avc_sps_rbsp(s):
    """s: dict of H.264 SPS syntax elements -> (rbsp bytes, bit offset just after the cropping fields)"""
    w = BitW()
    w.u(8, s["profile_idc"])
    w.u(8, s.get("constraint", 0))
    w.u(8, s["level_idc"])
    w.ue(s.get("sps_id", 0))
    if s["profile_idc"] in HIGH_PROFILES:
        w.ue(s["chroma_format_idc"])
        if s["chroma_format_idc"] == 3:
            w.u(1, s.get("separate_colour_plane_flag", 0))
        w.ue(s.get("bit_depth_luma_minus8", 0))
        w.ue(s.get("bit_depth_chroma_minus8", 0))
        w.u(1, s.get("qpprime", 0))
        lists = s.get("scaling_lists")
        w.u(1, 1 if lists is not None else 0)
        if lists is not None:
            n = 12 if s["chroma_format_idc"] == 3 else 8
            assert len(lists) == n
            for i, deltas in enumerate(lists):
                w.u(1, 1 if deltas is not None else 0)
                if deltas is None:
                    continue
                size = 16 if i < 6 else 64
                last, nxt, k = 8, 8, 0
                for j in range(size):
                    if nxt != 0:
                        d = deltas[k]
                        k += 1
                        w.se(d)
                        nxt = (last + d + 256) % 256
                    last = last if nxt == 0 else nxt
    w.ue(s.get("log2_max_frame_num_minus4", 0))
    w.ue(s["poc_type"])
    if s["poc_type"] == 0:
        w.ue(s.get("log2_max_poc_lsb_minus4", 0))
    elif s["poc_type"] == 1:
        w.u(1, s.get("delta_always_zero", 0))
        w.se(s.get("offset_non_ref", 0))
        w.se(s.get("offset_top_bottom", 0))
        offs = s.get("offsets_ref_frame", [])
        w.ue(len(offs))
        for o in offs:
            w.se(o)
    w.ue(s.get("max_num_ref_frames", 1))
    w.u(1, s.get("gaps", 0))
    w.ue(s["width_mbs_minus1"])
    w.ue(s["height_map_units_minus1"])
    w.u(1, s["frame_mbs_only_flag"])
    if not s["frame_mbs_only_flag"]:
        w.u(1, s.get("mbaff", 0))
    w.u(1, s.get("direct_8x8", 1))
    crop = s.get("crop")
    w.u(1, 1 if crop is not None else 0)
    if crop is not None:
        for c in crop:
            w.ue(c)
    dims_end = len(w.bits) + 8   # + NAL header byte
    vui = s.get("vui")
    w.u(1, 1 if vui is not None else 0)
    if vui is not None:
        ar = vui.get("aspect_ratio_idc")
        w.u(1, 1 if ar is not None else 0)
        if ar is not None:
            w.u(8, ar)
            if ar == 255:
                w.u(16, vui["sar_width"])
                w.u(16, vui["sar_height"])
        w.u(1, 0)  # overscan_info_present_flag
        vs = vui.get("video_signal")
        w.u(1, 1 if vs is not None else 0)
        if vs is not None:
            w.u(3, vs[0]); w.u(1, vs[1]); w.u(1, 0)
        w.u(1, 0)  # chroma_loc_info_present_flag
        ti = vui.get("timing")
        w.u(1, 1 if ti is not None else 0)
        if ti is not None:
            w.u(32, ti[0]); w.u(32, ti[1]); w.u(1, ti[2])
        w.u(1, 0); w.u(1, 0)  # nal_hrd, vcl_hrd
        w.u(1, 0)  # pic_struct_present_flag
        w.u(1, 0)  # bitstream_restriction_flag
    w.trailing()
    return w.bytes(), dims_end


def avc_sps_nal(s, nri=3):
    rbsp, dims_end = avc_sps_rbsp(s)
    return bytes([(nri << 5) | 7]) + epb_insert(rbsp), dims_end, rbsp


def avc_spec_dims(s):
    """H.264 7.4.2.1.1 (frame cropping semantics), equations 7-13..7-21"""
    high = s["profile_idc"] in HIGH_PROFILES
    cfi = s["chroma_format_idc"] if high else 1
    sep = s.get("separate_colour_plane_flag", 0) if (high and cfi == 3) else 0
    cat = 0 if sep else cfi
    fmo = s["frame_mbs_only_flag"]
    if cat == 0:
        cux, cuy = 1, 2 - fmo
    else:
        subw = 2 if cfi in (1, 2) else 1
        subh = 2 if cfi == 1 else 1
        cux, cuy = subw, subh * (2 - fmo)
    l, r, t, b = s.get("crop") or (0, 0, 0, 0)
    width = 16 * (s["width_mbs_minus1"] + 1) - cux * (l + r)
    height = 16 * (2 - fmo) * (s["height_map_units_minus1"] + 1) - cuy * (t + b)
    return width, height


def rand_avc_sps(rng, **force):
    prof = rng.choice([66, 77, 88, 100, 110, 122, 244, 44])
    s = dict(profile_idc=prof, constraint=rng.choice([0, 0x40, 0xc0, 0xe0]), level_idc=rng.choice([10, 30, 31, 40, 41, 51]),
             sps_id=rng.choice([0, 0, 1, 31]))
    if prof in HIGH_PROFILES:
        s["chroma_format_idc"] = rng.choice([0, 1, 1, 2, 3])
        if s["chroma_format_idc"] == 3:
            s["separate_colour_plane_flag"] = rng.randrange(2)
        s["bit_depth_luma_minus8"] = rng.choice([0, 0, 2])
        s["bit_depth_chroma_minus8"] = rng.choice([0, 0, 2])
        s["qpprime"] = rng.randrange(2)
        if rng.random() < 0.35:
            n = 12 if s["chroma_format_idc"] == 3 else 8
            lists = []
            for i in range(n):
                if rng.random() < 0.5:
                    lists.append(None)
                    continue
                size = 16 if i < 6 else 64
                mode = rng.randrange(3)
                if mode == 0:      # first delta -8: nextScale = 0, list falls back (one se only)
                    lists.append([-8] + [0] * size)
                else:
                    lists.append([rng.choice([0, 1, -1, 2, -3, 5, 127, -128]) if mode == 2 else rng.randrange(-2, 3) for _ in range(size)])
            s["scaling_lists"] = lists
    s["log2_max_frame_num_minus4"] = rng.choice([0, 4, 12])
    s["poc_type"] = rng.choice([0, 0, 1, 2])
    s["log2_max_poc_lsb_minus4"] = rng.choice([0, 2, 12])
    if s["poc_type"] == 1:
        s["delta_always_zero"] = rng.randrange(2)
        s["offset_non_ref"] = rng.choice([0, -1, 2, -(2**31) + 1, 2**31 - 1])
        s["offset_top_bottom"] = rng.choice([0, 1, -5])
        s["offsets_ref_frame"] = [rng.choice([0, 1, -1, 100, -1000]) for _ in range(rng.choice([0, 1, 2, 5, 255]))]
    s["max_num_ref_frames"] = rng.choice([0, 1, 4, 16])
    s["gaps"] = rng.randrange(2)
    s["frame_mbs_only_flag"] = rng.choice([1, 1, 0])
    s["width_mbs_minus1"] = rng.choice([0, 10, 19, 39, 44, 79, 119, 239, 543])
    s["height_map_units_minus1"] = rng.choice([0, 8, 14, 29, 33, 44, 67, 134])
    s["mbaff"] = rng.randrange(2)
    s["direct_8x8"] = rng.randrange(2)
    if rng.random() < 0.6:
        s["crop"] = tuple(rng.choice([0, 0, 1, 2, 3, 4, 7]) for _ in range(4))
    if rng.random() < 0.5:
        v = {}
        if rng.random() < 0.7:
            v["aspect_ratio_idc"] = rng.choice([0, 1, 2, 13, 16, 17, 100, 254, 255])
            v["sar_width"] = rng.choice([1, 4, 65535, 0])
            v["sar_height"] = rng.choice([1, 3, 65535, 0])
        if rng.random() < 0.5:
            v["timing"] = (rng.choice([1, 1001, 1000]), rng.choice([50, 60000, 30000, 0x10000]), 1)
        if rng.random() < 0.3:
            v["video_signal"] = (5, rng.randrange(2))
        s["vui"] = v
    s.update(force)
    return s


# ------------------------------------------------------------------ HEVC
def hevc_ptl(w, p, maxsub):
    w.u(2, p.get("space", 0)); w.u(1, p.get("tier", 0)); w.u(5, p.get("profile_idc", 1))
    w.u(32, p.get("compat", 0x60000000))
    w.u(48, p.get("constraint", 0x900000000000))
    w.u(8, p.get("level_idc", 93))
    subs = p.get("subs", [(0, 0)] * maxsub)
    for (pp, lp) in subs[:maxsub]:
        w.u(1, pp); w.u(1, lp)
    if maxsub > 0:
        for _ in range(maxsub, 8):
            w.u(2, 0)
    for (pp, lp) in subs[:maxsub]:
        if pp:
            w.u(2, 0); w.u(1, 0); w.u(5, 1); w.u(32, 0x60000000); w.u(32, 0x90000000); w.u(16, 0)  # 88 bits
        if lp:
            w.u(8, 90)


def hevc_vps_nal(v):
    w = BitW()
    w.u(4, v.get("vps_id", 0)); w.u(2, 3); w.u(6, v.get("max_layers_minus1", 0))
    w.u(3, v["max_sub_layers_minus1"]); w.u(1, v.get("nesting", 1)); w.u(16, 0xffff)
    hevc_ptl(w, v.get("ptl", {}), v["max_sub_layers_minus1"])
    w.u(1, 1)  # vps_sub_layer_ordering_info_present_flag
    for _ in range(v["max_sub_layers_minus1"] + 1):
        w.ue(1); w.ue(0); w.ue(0)
    w.u(6, 0); w.ue(0); w.u(1, 0); w.u(1, 0)
    w.trailing()
    return bytes([0x40, 0x01]) + epb_insert(w.bytes())


def hevc_sps_nal(s):
    w = BitW()
    m = s["max_sub_layers_minus1"]
    w.u(4, s.get("vps_id", 0)); w.u(3, m); w.u(1, s.get("nesting", 1))
    hevc_ptl(w, s.get("ptl", {}), m)
    w.ue(s.get("sps_id", 0))
    w.ue(s["chroma_format_idc"])
    if s["chroma_format_idc"] == 3:
        w.u(1, s.get("separate_colour_plane_flag", 0))
    w.ue(s["width"]); w.ue(s["height"])
    cw = s.get("conf_win")
    w.u(1, 1 if cw is not None else 0)
    if cw is not None:
        for c in cw:
            w.ue(c)
    dims_end = len(w.bits)
    w.ue(s.get("bit_depth_luma_minus8", 0)); w.ue(s.get("bit_depth_chroma_minus8", 0))
    w.ue(s.get("log2_max_poc_lsb_minus4", 4))
    ord_ = s.get("sub_layer_ordering_info_present_flag", 1)
    w.u(1, ord_)
    for _ in range((m + 1) if ord_ else 1):
        w.ue(4); w.ue(2); w.ue(0)
    w.ue(0); w.ue(3); w.ue(0); w.ue(3); w.ue(0); w.ue(0)
    w.u(1, 0)  # scaling_list_enabled_flag
    w.u(1, 1); w.u(1, 1)  # amp, sao
    w.u(1, 0)  # pcm_enabled
    w.ue(0)    # num_short_term_ref_pic_sets
    w.u(1, 0)  # long_term_ref_pics_present_flag
    w.u(1, 1); w.u(1, 1)  # temporal mvp, strong intra smoothing
    w.u(1, 0)  # vui_parameters_present_flag
    w.u(1, 0)  # sps_extension_present_flag
    w.trailing()
    rbsp = w.bytes()
    return bytes([0x42, 0x01]) + epb_insert(rbsp), dims_end, rbsp


def hevc_spec_dims(s):
    """H.265 7.4.3.2.1: conformance window in units of SubWidthC / SubHeightC"""
    cfi = s["chroma_format_idc"]
    sep = s.get("separate_colour_plane_flag", 0) if cfi == 3 else 0
    cat = 0 if sep else cfi
    subw = 2 if cat in (1, 2) else 1
    subh = 2 if cat == 1 else 1
    l, r, t, b = s.get("conf_win") or (0, 0, 0, 0)
    return s["width"] - subw * (l + r), s["height"] - subh * (t + b)


def rand_hevc(rng):
    m = rng.choice([0, 0, 0, 1, 2, 6])
    subs = [(rng.randrange(2), rng.randrange(2)) for _ in range(m)]
    ptl = dict(space=rng.choice([0, 0, 1, 3]), tier=rng.randrange(2), profile_idc=rng.choice([1, 2, 4, 31]),
               compat=rng.choice([0x60000000, 0x40000000, 0xffffffff, 0]), constraint=rng.choice([0x900000000000, 0xb00000000000, 0, 0xffffffffffff]),
               level_idc=rng.choice([30, 93, 120, 153, 255]), subs=subs)
    v = dict(max_sub_layers_minus1=m, ptl=dict(ptl), nesting=rng.randrange(2))
    if rng.random() < 0.3:
        v["ptl"]["level_idc"] = rng.choice([60, 150]); v["ptl"]["tier"] = rng.randrange(2); v["ptl"]["profile_idc"] = rng.choice([1, 3])
    s = dict(max_sub_layers_minus1=m, ptl=ptl, nesting=rng.randrange(2), sps_id=rng.choice([0, 1, 15]),
             chroma_format_idc=rng.choice([0, 1, 1, 2, 3]), separate_colour_plane_flag=rng.randrange(2),
             width=rng.choice([8, 176, 640, 1280, 1920, 3840, 7680]), height=rng.choice([8, 144, 480, 720, 1080, 1088, 2160, 4320]),
             bit_depth_luma_minus8=rng.choice([0, 0, 2, 4]), bit_depth_chroma_minus8=rng.choice([0, 0, 2]),
             sub_layer_ordering_info_present_flag=rng.randrange(2))
    if rng.random() < 0.5:
        s["conf_win"] = tuple(rng.choice([0, 0, 1, 2, 4]) for _ in range(4))
    return v, s


HEVC_PPS = bytes.fromhex("4401c172b46240")
AVC_PPS = bytes.fromhex("68ebecb22c")


# ------------------------------------------------------------------ ISO/IEC 14496-15 readers
def ref_parse_avcc_record(rec):
    """AVCDecoderConfigurationRecord (5.2.4.1.1) -> dict or ValueError"""
    if len(rec) < 7:
        raise ValueError("record too short")
    if rec[0] != 1:
        raise ValueError("configurationVersion != 1")
    out = dict(profile=rec[1], compat=rec[2], level=rec[3])
    if rec[4] >> 2 != 0x3f:
        raise ValueError("reserved bits before lengthSizeMinusOne not all 1")
    out["length_size"] = (rec[4] & 3) + 1
    if rec[5] >> 5 != 7:
        raise ValueError("reserved bits before numOfSequenceParameterSets not all 1")
    i = 6
    spss = []
    for _ in range(rec[5] & 31):
        n = int.from_bytes(rec[i:i + 2], "big"); i += 2
        if i + n > len(rec):
            raise ValueError("sps overruns record")
        spss.append(rec[i:i + n]); i += n
    if i >= len(rec):
        raise ValueError("no numOfPictureParameterSets")
    npps = rec[i]; i += 1
    ppss = []
    for _ in range(npps):
        if i + 2 > len(rec):
            raise ValueError("pps length overruns record")
        n = int.from_bytes(rec[i:i + 2], "big"); i += 2
        if i + n > len(rec):
            raise ValueError("pps overruns record")
        ppss.append(rec[i:i + n]); i += n
    out["sps"], out["pps"], out["rest"] = spss, ppss, rec[i:]
    return out


def ref_parse_hvcc_record(rec):
    """HEVCDecoderConfigurationRecord (8.3.3.1.2) -> dict or ValueError"""
    if len(rec) < 23:
        raise ValueError("record too short")
    if rec[0] != 1:
        raise ValueError("configurationVersion != 1")
    out = dict(space=rec[1] >> 6, tier=(rec[1] >> 5) & 1, profile_idc=rec[1] & 31,
               compat=int.from_bytes(rec[2:6], "big"), constraint=int.from_bytes(rec[6:12], "big"), level=rec[12])
    if rec[13] >> 4 != 0xf or rec[15] >> 2 != 0x3f or rec[16] >> 2 != 0x3f or rec[17] >> 3 != 0x1f or rec[18] >> 3 != 0x1f:
        raise ValueError("reserved bits not all 1")
    out["chroma"] = rec[16] & 3
    out["bdl"] = rec[17] & 7
    out["bdc"] = rec[18] & 7
    out["ntl"] = (rec[21] >> 3) & 7
    out["nested"] = (rec[21] >> 2) & 1
    out["length_size"] = (rec[21] & 3) + 1
    arrays = {}
    i = 23
    for _ in range(rec[22]):
        if i + 3 > len(rec):
            raise ValueError("array header overruns record")
        typ = rec[i] & 0x3f
        n = int.from_bytes(rec[i + 1:i + 3], "big"); i += 3
        for _ in range(n):
            l = int.from_bytes(rec[i:i + 2], "big"); i += 2
            if i + l > len(rec):
                raise ValueError("nal overruns record")
            arrays.setdefault(typ, []).append(rec[i:i + l]); i += l
    out["arrays"], out["rest"] = arrays, rec[i:]
    return out


def ref_split_annexb(b):
    """H.264 Annex B byte stream -> NAL units (leading_zero_8bits, 3-byte start code prefix, trailing_zero_8bits)"""
    out = []
    i = 0
    n = len(b)
    starts = []
    while i + 3 <= n:
        if b[i] == 0 and b[i + 1] == 0 and b[i + 2] == 1:
            starts.append(i)
            i += 3
        else:
            i += 1
    for k, st in enumerate(starts):
        end = starts[k + 1] if k + 1 < len(starts) else n
        nal = b[st + 3:end]
        while nal and nal[-1] == 0:
            nal = nal[:-1]
        out.append(nal)
    return out


# ------------------------------------------------------------------ reference DECODERS (spec side of the oracle)
class BitR:
    def __init__(self, data):
        self.d = data
        self.p = 0

    def left(self):
        return len(self.d) * 8 - self.p

    def u(self, n):
        if self.left() < n:
            raise ValueError("out of data")
        v = 0
        for _ in range(n):
            v = (v << 1) | ((self.d[self.p >> 3] >> (7 - (self.p & 7))) & 1)
            self.p += 1
        return v

    def ue(self):
        z = 0
        while self.u(1) == 0:
            z += 1
            if z > 32:
                raise ValueError("ue too long")
        return (1 << z) - 1 + (self.u(z) if z else 0)

    def se(self):
        k = self.ue()
        return (k + 1) // 2 if k & 1 else -(k // 2)


def _ref_hrd(r):
    n = r.ue()
    if n > 31:
        raise ValueError("cpb_cnt_minus1 > 31")
    r.u(4); r.u(4)
    for _ in range(n + 1):
        r.ue(); r.ue(); r.u(1)
    r.u(20)


def _ref_trailing(r):
    """rbsp_trailing_bits(): a one bit, then zero bits up to the end of the NAL unit"""
    if r.left() < 1 or r.left() > 8 or r.u(1) != 1:
        raise ValueError("rbsp_trailing_bits missing")
    while r.left():
        if r.u(1):
            raise ValueError("rbsp_trailing_bits not zero")


def ref_parse_avc_sps(nal):
    """H.264 7.3.1 + 7.3.2.1: returns dict(profile, level, width, height, dims_end_bit, epb_before_dims) or raises ValueError
    when the NAL is not a well-formed, semantically valid SPS."""
    if len(nal) < 1 or (nal[0] & 0x1f) != 7 or (nal[0] & 0x80):
        raise ValueError("not an SPS NAL")
    rbsp = epb_strip(nal[1:])
    r = BitR(rbsp)
    prof = r.u(8); r.u(8); lvl = r.u(8)
    if r.ue() > 31:
        raise ValueError("sps_id > 31")
    cfi, sep = 1, 0
    if prof in HIGH_PROFILES:
        cfi = r.ue()
        if cfi > 3:
            raise ValueError("chroma_format_idc > 3")
        if cfi == 3:
            sep = r.u(1)
        if r.ue() > 6 or r.ue() > 6:
            raise ValueError("bit depth > 14")
        r.u(1)
        if r.u(1):
            for i in range(8 if cfi != 3 else 12):
                if r.u(1):
                    last, nxt = 8, 8
                    for j in range(16 if i < 6 else 64):
                        if nxt != 0:
                            d = r.se()
                            if not -128 <= d <= 127:
                                raise ValueError("delta_scale out of range")
                            nxt = (last + d + 256) % 256
                        last = last if nxt == 0 else nxt
    if r.ue() > 12:
        raise ValueError("log2_max_frame_num_minus4 > 12")
    poc = r.ue()
    if poc > 2:
        raise ValueError("pic_order_cnt_type > 2")
    if poc == 0:
        if r.ue() > 12:
            raise ValueError("log2_max_pic_order_cnt_lsb_minus4 > 12")
    elif poc == 1:
        r.u(1); r.se(); r.se()
        n = r.ue()
        if n > 255:
            raise ValueError("num_ref_frames_in_pic_order_cnt_cycle > 255")
        for _ in range(n):
            r.se()
    r.ue(); r.u(1)
    wm = r.ue(); hm = r.ue()
    fmo = r.u(1)
    if not fmo:
        r.u(1)
    r.u(1)
    l = rr = t = b = 0
    if r.u(1):
        l = r.ue(); rr = r.ue(); t = r.ue(); b = r.ue()
    dims_end = r.p
    cat = 0 if sep else cfi
    if cat == 0:
        cux, cuy = 1, 2 - fmo
    else:
        cux, cuy = (2 if cfi in (1, 2) else 1), (2 if cfi == 1 else 1) * (2 - fmo)
    W = 16 * (wm + 1); H = 16 * (2 - fmo) * (hm + 1)
    if W >= 2**32 or H >= 2**32:
        raise ValueError("picture size beyond 32 bits")
    if cux * (l + rr) >= W or cuy * (t + b) >= H:
        raise ValueError("cropping rectangle empty")
    sar = None
    if r.u(1):   # vui_parameters() E.1.1
        if r.u(1):
            ari = r.u(8)
            sar = (r.u(16), r.u(16)) if ari == 255 else ari
        if r.u(1):
            r.u(1)
        if r.u(1):
            r.u(3); r.u(1)
            if r.u(1):
                r.u(24)
        if r.u(1):
            r.ue(); r.ue()
        if r.u(1):
            r.u(32); r.u(32); r.u(1)
        nal_hrd = r.u(1)
        if nal_hrd:
            _ref_hrd(r)
        vcl_hrd = r.u(1)
        if vcl_hrd:
            _ref_hrd(r)
        if nal_hrd or vcl_hrd:
            r.u(1)
        r.u(1)
        if r.u(1):
            r.u(1)
            for _ in range(6):
                r.ue()
    _ref_trailing(r)
    # position of dims_end in the NAL: count the emulation prevention bytes the stripped prefix skipped
    need = (dims_end + 7) // 8
    out = 0; zeros = 0; k = 0; epb = False
    body = nal[1:]
    while out < need and k < len(body):
        if zeros >= 2 and body[k] == 3:
            epb = True; zeros = 0; k += 1
            continue
        zeros = zeros + 1 if body[k] == 0 else 0
        out += 1; k += 1
    return dict(profile=prof, level=lvl, width=W - cux * (l + rr), height=H - cuy * (t + b), epb_before_dims=epb,
                fmo=fmo, cat=cat, cfi=cfi, crop=(l, rr, t, b), sar=sar)


def ref_hevc_ptl(r, maxsub):
    space = r.u(2); tier = r.u(1); pidc = r.u(5); compat = r.u(32); constr = r.u(48); lvl = r.u(8)
    fl = [(r.u(1), r.u(1)) for _ in range(maxsub)]
    if maxsub:
        for _ in range(maxsub, 8):
            r.u(2)
    for pp, lp in fl:
        if pp:
            r.u(32); r.u(32); r.u(24)
        if lp:
            r.u(8)
    return dict(space=space, tier=tier, profile_idc=pidc, compat=compat, constraint=constr, level=lvl)


def ref_parse_hevc_vps(nal):
    if len(nal) < 2 or ((nal[0] >> 1) & 0x3f) != 32:
        raise ValueError("not a VPS NAL")
    r = BitR(epb_strip(nal[2:]))
    r.u(4); r.u(2); r.u(6)
    m = r.u(3); r.u(1)
    if r.u(16) != 0xffff:
        raise ValueError("vps_reserved_0xffff_16bits")
    p = ref_hevc_ptl(r, m)
    p["max_sub_layers_minus1"] = m
    ordf = r.u(1)
    for _ in range((m + 1) if ordf else 1):
        r.ue(); r.ue(); r.ue()
    r.u(6)
    if r.ue() != 0:
        raise ValueError("unsupported by this reference: layer sets")
    if r.u(1):
        raise ValueError("unsupported by this reference: VPS timing info")
    if r.u(1):
        raise ValueError("unsupported by this reference: VPS extension")
    _ref_trailing(r)
    return p


def ref_parse_hevc_sps(nal):
    if len(nal) < 2 or ((nal[0] >> 1) & 0x3f) != 33:
        raise ValueError("not an SPS NAL")
    r = BitR(epb_strip(nal[2:]))
    r.u(4); m = r.u(3); nested = r.u(1)
    p = ref_hevc_ptl(r, m)
    if r.ue() > 15:
        raise ValueError("sps_id > 15")
    cfi = r.ue()
    if cfi > 3:
        raise ValueError("chroma_format_idc > 3")
    sep = r.u(1) if cfi == 3 else 0
    w = r.ue(); h = r.ue()
    l = rr = t = b = 0
    if r.u(1):
        l = r.ue(); rr = r.ue(); t = r.ue(); b = r.ue()
    bdl = r.ue(); bdc = r.ue()
    if bdl > 8 or bdc > 8:
        raise ValueError("bit depth > 16")
    if r.ue() > 12:
        raise ValueError("log2_max_pic_order_cnt_lsb_minus4 > 12")
    ordf = r.u(1)
    for _ in range((m + 1) if ordf else 1):
        r.ue(); r.ue(); r.ue()
    for _ in range(6):
        r.ue()
    if r.u(1):
        raise ValueError("unsupported by this reference: scaling_list_enabled_flag")
    r.u(1); r.u(1)
    if r.u(1):
        r.u(4); r.u(4); r.ue(); r.ue(); r.u(1)
    if r.ue() != 0:
        raise ValueError("unsupported by this reference: short-term reference picture sets")
    if r.u(1):
        raise ValueError("unsupported by this reference: long-term reference pictures")
    r.u(1); r.u(1)
    if r.u(1):
        raise ValueError("unsupported by this reference: VUI")
    if r.u(1):
        raise ValueError("unsupported by this reference: SPS extension")
    _ref_trailing(r)
    cat = 0 if sep else cfi
    subw = 2 if cat in (1, 2) else 1
    subh = 2 if cat == 1 else 1
    if w == 0 or h == 0 or subw * (l + rr) >= w or subh * (t + b) >= h:
        raise ValueError("conformance window empty")
    p.update(max_sub_layers_minus1=m, nested=nested, chroma=cfi, bdl=bdl, bdc=bdc, coded=(w, h),
             width=w - subw * (l + rr), height=h - subh * (t + b), conf_win=(l, rr, t, b))
    return p
