# C02 - every consumer starts decodable: headers, then a key frame, bounded GOP replay
from lib.vf import Case
from gen.common import *
from gen import fanout

ID = "C02"
RULE = ("the fan-out histories of C01 (real logic.Group, real sessions, one consumer of each kind joining at every index of 8 "
        "stream shapes x 7 cache configurations, plus random multi-epoch histories with mid-stream header changes and "
        "re-publishing; 1..3 players of each kind waiting for a key frame while metadata / sequence headers change, merge writer "
        "off / 1 / 8192, GOP cache 0 / 1 / 2) with TS blobs / PAT-PMT injected through OnTsPackets/OnPatPmt; each consumer's byte stream is parsed "
        "into units and checked for headers-first, header-in-force, headers-never-withheld, key-frame-first, exact GOP replay and no-video-no-wait; "
        "a case is non-trivial when a consumer joins while the input is live")
ASSUMPTIONS = ["TS packets / PAT-PMT are abstract blobs here (their production from RTMP messages is C06/C09)",
               "per-GOP cap: lal keeps SingleGopMaxFrameNum+1 entries per GOP (the code's <=); that is taken as 'the cap'",
               "RTSP consumers: every SDP of the histories announces video PT 96 / audio PT 97; RTP packets are handed to Group.OnRtpPacket as "
               "rtprtcp.ParseRtpPacket returns them (the RTP packetisation itself is C12, the SDP text C19)"]
FULL_OUTPUT = True

_last = {}


def gen_cases(tier, rng):
    yield from fanout.gen_wait_histories(tier, rng)
    yield from fanout.gen_histories(tier, rng, header_changes=True)
    yield from fanout.gen_enhanced_sweep(tier, rng)
    yield from fanout.gen_rtsp_histories(tier, rng)
    yield from fanout.gen_rtsp_audio_histories(tier, rng)


def split_impl(c, out):
    """popen= (relay-push sessions still open at the end) is observed on the implementation only"""
    return "|".join(p for p in out.split("|") if not p.startswith("popen=")) or "-"


def nontrivial(c, out):
    tail = c.line.split(" ")[2].split("I", 1)[-1]
    return c.line if (";J" in tail or ";Y" in tail) else None


def oracle(c, out):
    r = _oracle(c, out)
    _last[c.line] = r
    if r is None:
        return (True, "")
    return (False, "[%s] %s" % r)


def classify_finding(c, out):
    r = _last.get(c.line) or _oracle(c, out)
    return r[0] if r and r[0].startswith("F-") else None


def _oracle(c, out):
    if out.startswith(("panic@", "crash@", "timeout", "err", "bad")):
        return ("crash", "implementation failed: " + out)
    cfg, evs = fanout.parse_case(c.line)
    obs = fanout.parse_obs(out)
    msgs = []        # dict(t, ts, p, cls, epoch, pos)
    tsb = []         # dict(boundary, epoch, pos)
    pats = []        # dict(epoch, pos)
    joins, kinds, leaves = {}, {}, {}
    epoch, in_epoch = -1, False
    spans = []
    for pos, e in enumerate(evs):
        if e[0] == "I" and not in_epoch:
            epoch += 1
            in_epoch = True
            spans.append([pos, len(evs)])
        elif e[0] == "O" and in_epoch:
            in_epoch = False
            spans[-1][1] = pos
        elif e[0] == "P":
            p = tok_bytes(e[3])
            msgs.append(dict(t=int(e[1]), ts=int(e[2]), p=p, cls=fanout.classify_payload(int(e[1]), p), epoch=epoch if in_epoch else None, pos=pos))
        elif e[0] == "T":
            tsb.append(dict(boundary=e[2] == "1", epoch=epoch if in_epoch else None, pos=pos))
        elif e[0] == "A":
            pats.append(dict(epoch=epoch if in_epoch else None, pos=pos))
        elif e[0][0] == "J" and e[1] not in joins:
            joins[e[1]] = pos
            kinds[e[1]] = e[0][1]
        elif e[0] == "L":
            leaves.setdefault(e[1], pos)

    def content(i):
        """header content without the generator's trailing 2-byte unique filler"""
        return msgs[i]["p"]

    r = fanout.check_rtsp(cfg, evs, obs)
    if r:
        return r
    for cid, k in sorted(kinds.items()):
        segs = obs.get(cid)
        if segs is None:
            return ("missing", "consumer %s missing" % cid)
        if segs == [["!"]]:
            continue
        if k == "t":
            r = check_ts(cfg, segs[0][1:] if segs[0][:1] == ["H"] else None, tsb, pats, joins[cid], leaves.get(cid, len(evs)), cid, spans)
            if r:
                return r
            continue
        for si, seg in enumerate(segs):
            if k in ("f", "w"):
                if seg[:1] != ["HF"]:
                    return ("hdr", "HTTP-FLV consumer %s: no response/FLV header first" % cid)
                seg = seg[1:]
            idx = []
            for lab in seg:
                if lab[0] == "?":
                    return ("garbage", "consumer %s received unparseable bytes %s" % (cid, lab))
                idx.append(int(lab[1:]))
            a = joins[cid] if k != "p" else spans[si][0]
            b = leaves.get(cid, len(evs)) if k != "p" else spans[si][1]
            r = check_av(cfg, msgs, idx, k, a, cid, b)
            if r:
                return r
    return None


def gops_expected(cfg, msgs, k, upto, ep):
    """the GOPs lal is specified to replay for a consumer admitted just before message `upto`"""
    num, mx = (cfg["rg"], cfg["rm"]) if k in ("r", "p") else (cfg["fg"], cfg["fm"])
    enabled = cfg["re"] if k in ("r", "p") else cfg["fe"]
    if not enabled or num == 0:
        return []
    gops = []
    hdr = {}
    for i, m in enumerate(msgs[:upto]):
        if m["epoch"] != ep or len(m["p"]) == 0:
            continue
        if m["cls"] in ("vsh", "ash"):
            # a sequence header with other content makes the cached GOPs undecodable: they are dropped
            if m["cls"] in hdr and hdr[m["cls"]] != m["p"]:
                gops = []
            hdr[m["cls"]] = m["p"]
            continue
        if m["cls"] == "meta":
            continue
        if m["cls"] == "key":
            gops.append([i])
        elif gops and (mx == 0 or len(gops[-1]) <= mx):
            gops[-1].append(i)
    return gops[-num:]


def check_av(cfg, msgs, idx, k, a, cid, b):
    # E: metadata and sequence headers are no frames: a player receives every one published while it is attached,
    # whether it waits for a key frame or not (an admitted RTMP player may still have its tail in the merge buffer)
    if k in ("r", "f", "w"):
        got = set(idx)
        live = [i for i, m in enumerate(msgs) if a < m["pos"] < b and len(m["p"]) > 0]
        for i in live:
            if msgs[i]["cls"] in ("meta", "vsh", "ash") and i not in got:
                if k == "r" and cfg.get("mw", 0) > 0 and all(j not in got for j in live if j >= i):
                    break
                return ("hdr-wait", "consumer %s: %s %d, published while it was attached, was not delivered (its stream: %s)"
                        % (cid, {"meta": "metadata", "vsh": "video sequence header", "ash": "AAC sequence header"}[msgs[i]["cls"]], i, idx[:24]))
    if not idx:
        # never held back on a stream without video
        return no_video_rule(msgs, idx, a, cid, k, b)
    # split into prologue (published before the consumer's first live message) and live
    live_idx = [i for i in idx if msgs[i]["pos"] > a]
    first_media_pos = None
    for q, i in enumerate(idx):
        if msgs[i]["cls"] in ("key", "other"):
            first_media_pos = q
            break
    # C: first video frame is a key frame
    for q, i in enumerate(idx):
        m = msgs[i]
        if m["t"] == 9 and m["cls"] in ("key", "other"):
            if m["cls"] != "key":
                # did the consumer join while no video codec was known in that epoch?
                known_at_join = any(x["cls"] == "vsh" and x["epoch"] == m["epoch"] and x["pos"] < a for x in msgs)
                fid = "F-27" if not known_at_join else "key"
                return (fid, "consumer %s: first video frame received (message %d) is not a key frame" % (cid, i))
            break
    # B: header in force
    cur_vsh = cur_ash = None
    for q, i in enumerate(idx):
        m = msgs[i]
        if m["cls"] == "vsh":
            cur_vsh = i
        elif m["cls"] == "ash":
            cur_ash = i
        elif m["cls"] in ("key", "other") and m["t"] == 9:
            want = last_before(msgs, i, "vsh")
            if want is not None and (cur_vsh is None or msgs[cur_vsh]["p"] != msgs[want]["p"]):
                in_pro = msgs[i]["pos"] < a
                fid = "hdr-gop" if in_pro else "hdr-live"
                return (fid, "consumer %s: video frame %d was published under sequence header %d but is preceded by %s in its stream"
                        % (cid, i, want, cur_vsh))
        elif m["cls"] == "other" and m["t"] == 8 and len(m["p"]) > 1 and m["p"][0] >> 4 == 10:
            want = last_before(msgs, i, "ash")
            if want is not None and (cur_ash is None or msgs[cur_ash]["p"] != msgs[want]["p"]):
                in_pro = msgs[i]["pos"] < a
                fid = "hdr-gop" if in_pro else "hdr-live"
                return (fid, "consumer %s: AAC frame %d was published under sequence header %d but is preceded by %s"
                        % (cid, i, want, cur_ash))
    # A: metadata before media, when metadata was published before the consumer's first media frame
    if first_media_pos is not None:
        i0 = idx[first_media_pos]
        want = last_before(msgs, i0, "meta")
        got = [i for i in idx[:first_media_pos] if msgs[i]["cls"] == "meta"]
        if want is not None and len(msgs[want]["p"]) > 0 and not got:
            return ("meta", "consumer %s: media frame %d before any metadata although metadata %d had been published" % (cid, i0, want))
    # D: GOP replay = exactly the most recent cached GOPs, oldest first, then live data
    if live_idx:
        first_live = live_idx[0]
        ep = msgs[first_live]["epoch"]
        # admission happened when first_live (or, for a waiting consumer, an earlier message) was published:
        pro = [i for i in idx if msgs[i]["pos"] < a]
        pro_media = [i for i in pro if msgs[i]["cls"] in ("key", "other")]
        # the consumer became fresh-processed at the first non-empty publish after its join
        nxt = [i for i, m in enumerate(msgs) if m["pos"] > a and len(m["p"]) > 0]
        if nxt:
            exp = [i for g in gops_expected(cfg, msgs, k, nxt[0], msgs[nxt[0]]["epoch"]) for i in g]
            if pro_media != exp:
                return ("gop", "consumer %s: replayed frames %s, the most recent cached GOPs are %s" % (cid, pro_media[:24], exp[:24]))
    r = no_video_rule(msgs, idx, a, cid, k, b)
    if r:
        return r
    return None


def last_before(msgs, i, cls):
    ep = msgs[i]["epoch"]
    for j in range(i - 1, -1, -1):
        if msgs[j]["epoch"] == ep and msgs[j]["cls"] == cls and len(msgs[j]["p"]) > 0:
            return j
    return None


def no_video_rule(msgs, idx, a, cid, k, b):
    """while the current input has published no video sequence header and no video frame, a
    joined consumer must receive every non-empty message"""
    got = set(idx)
    seen_video = {}
    for i, m in enumerate(msgs):
        if m["epoch"] is None:
            continue
        if m["t"] == 9 and len(m["p"]) > 0:
            seen_video[m["epoch"]] = True
        if a < m["pos"] < b and len(m["p"]) > 0 and not seen_video.get(m["epoch"]) and i not in got:
            # messages still in the merge buffer at the end are allowed to be missing (C01 trailing clause)
            later = [j for j in range(i, len(msgs)) if a < msgs[j]["pos"] < b and len(msgs[j]["p"]) > 0 and msgs[j]["epoch"] == m["epoch"]]
            if k == "r" and all(j not in got for j in later):
                return None
            joined_epoch = None
            for x in msgs:
                if x["pos"] > a:
                    joined_epoch = x["epoch"]
                    break
            fid = "F-28" if m["epoch"] != joined_epoch else "novideo"
            return (fid, "consumer %s is held back on an input that has no video: message %d not delivered" % (cid, i))
    return None


def check_ts(cfg, seg, tsb, pats, a, b, cid, spans):
    if seg is None:
        return ("hdr", "HTTP-TS consumer %s: no response header first" % cid)
    cur_pat = None
    first = True
    for lab in seg:
        if lab[0] == "?":
            return ("garbage", "TS consumer %s received unparseable bytes %s" % (cid, lab))
        n = int(lab[1:])
        if lab[0] == "a":
            cur_pat = n
            continue
        blob = tsb[n]
        want = None
        for kk, p in enumerate(pats):
            if p["epoch"] == blob["epoch"] and p["pos"] < blob["pos"]:
                want = kk
        if want is not None and cur_pat != want:
            fid = "F-08iii" if cur_pat is not None or True else "pat"
            joined_this_epoch = any(s[0] < a < s[1] for s in spans if True) and not any(s[0] < a < s[1] and s[0] < blob["pos"] < s[1] for s in spans)
            return ("F-08iii" if not _same_epoch_join(spans, a, blob["pos"]) or cur_pat is not None else "pat",
                    "TS consumer %s: blob %d was produced under PAT/PMT %d but is preceded by %s" % (cid, n, want, cur_pat))
        if first and blob["pos"] > a and not blob["boundary"]:
            return ("boundary", "TS consumer %s: first live TS data (blob %d) does not start at a boundary" % (cid, n))
        first = False
    return None


def _same_epoch_join(spans, a, pos):
    for s in spans:
        if s[0] < pos < s[1]:
            return s[0] < a
    return True


def neighbors(c, rng):
    return []
