# C17 - relay pull and push start, retry and stop exactly when their rules say.
#
# Two case families (formats: see gen/c03.py for c17.run, which shares the state machine and harness):
#   c17.run <cfg> <ops>       the relay rules as event histories (cfg static=1 / push=N)
#   c17.pack <tree> <app> <tcUrl> <flashVer> <stream> <isPush>
#                             the RTMP client's signalling bytes for URL components of any length
import os, re, struct
from lib.vf import Case
from gen.common import tok_bytes, hex_tok
from gen import c03

ID = "C17"
RULE = ("relay histories through a real ServerManager and the extracted model: retry budget in {forever, never, 2} x auto-stop in "
        "{never, immediately, 5000 ms} x {attempt fails, succeeds, overtaken by a publisher, stopped / kicked while in flight or attached}, "
        "static relay pull, consumer present / gone for less / more than the window (clock shifted by the hook), relay push with 1-2 "
        "targets (connects, fails, closes, publisher leaves while connecting), requests through the real HTTP API server (start_relay_pull / "
        "stop_relay_pull / kick_session / start_rtp_pub with every numeric key absent / null / 0 / -1 / positive / malformed, required keys "
        "missing) each followed by the observation of the rule the key feeds, seeded random relay histories; plus the client message "
        "packer over a length sweep of app / tcUrl / stream+parameters around every buffer, chunk and AMF0 string boundary; "
        "a case is non-trivial when its line is new and the model reports no malformed op")
ASSUMPTIONS = c03.ASSUMPTIONS + [
    "the wall clock advances by less than 1 s during a case: auto-stop thresholds are tested at a distance of >= 1000 ms from the boundary "
    "(the exact >= boundary of shouldAutoStopPull is covered by the theorem about the model only)",
    "a group with a relay-push attempt still connecting is kept alive by a subscriber in the generated histories",
]
FULL_OUTPUT = True
TIMEOUT = 900

REPO = os.environ.get("LAL_REPO", "/repo")


def flash_ver_push():
    try:
        txt = open(os.path.join(REPO, "pkg/base/t_version.go")).read()
        m = re.search(r'var LalVersion = "v([^"]+)"', txt)
        return "FMLE/3.0 (compatible; lal%s)" % m.group(1)
    except Exception:
        return "FMLE/3.0 (compatible; lal0.37.4)"


FLASH_PULL = "LNX 9,0,124,2"


def line(ops, cfg="-"):
    return "c17.run %s %s" % (cfg, ",".join(ops))


def gen_relay():
    retries = ["n1", "0", "2"]
    autos = ["n1", "0", "5000"]
    for r, a, proto in [(r, a, "") for r in retries for a in autos] + [("n1", "n1", ".rtsp"), ("0", "0", ".rtsp"), ("2", "5000", ".rtsp")]:
        if True:
            cls = "pull-r%s-a%s%s" % (r, a, proto.replace(".", "-"))
            sp = "spull.1.%s.%s%s" % (r, a, proto)
            # failures until the budget is exhausted (no consumer)
            yield Case(line([sp, "pfail.1.0", "tick.1", "pfail.1.0", "tick.2", "pfail.1.0", "tick.3", "pfail.1.0", "tick.4", "tick.5"]), cls=cls)
            # with a consumer all along
            yield Case(line(["fs.1.90", sp, "pfail.1.0", "tick.1", "pfail.1.0", "tick.2", "pfail.1.0", "tick.3", "pfail.1.0", "tick.4", "psucc.1.0", "tick.5", "pdone.1.0", "tick.6", "tick.7"]), cls=cls)
            # success, consumer leaves, window
            yield Case(line(["fs.1.90", sp, "psucc.1.0", "tick.1", "gone.90", "tick.2", "adv.3000", "tick.3", "adv.3000", "tick.4", "tick.5", "fs.1.91", "tick.6", "psucc.1.0", "tick.7"]), cls=cls)
            # consumer seen at a tick refreshes the window
            yield Case(line([sp, "psucc.1.0", "adv.3000", "fs.1.90", "tick.1", "gone.90", "adv.3000", "tick.2", "adv.3000", "tick.3", "tick.4"]), cls=cls)
            # stop / kick while attached and while in flight
            yield Case(line(["fs.1.90", sp, "psucc.1.0", "xpull.1", "tick.1", "tick.2", sp, "kick.1.p1_2", "psucc.1.0", "kick.1.p1_2", "tick.3", "tick.4"]), cls=cls)
            yield Case(line(["fs.1.90", sp, "xpull.1", "psucc.1.0", "tick.1", "pdone.1.0", "tick.2", sp, "xpull.1", "pfail.1.0", "tick.3"]), cls=cls)
            # second start while in flight / attached; restart after stop
            yield Case(line(["fs.1.90", sp, sp, "psucc.1.0", sp, "xpull.1", sp, "psucc.1.0", "pdone.1.0", "tick.1", "psucc.1.0", "tick.2"]), cls=cls)
            # overtaken by a publisher
            yield Case(line(["fs.1.90", sp, "rp.1.1", "psucc.1.0", "tick.1", "gone.1", "tick.2", "psucc.1.0", "tick.3", "rp.1.2", "tick.4", "pdone.1.0", "gone.2", "tick.5"]), cls=cls)
            # every kind of consumer triggers / keeps the pull
            yield Case(line([sp, "pfail.1.0", "rs.1.90", "pfail.1.0", "ts.1.91", "pfail.1.0", "ds.1.92", "pl.92", "pfail.1.0", "gone.90", "gone.91", "gone.92", "tick.1", "tick.2"]), cls=cls)
    # attempts that fail by themselves before any connection exists (malformed url, scheme without pull session); budget 0
    for u in ("bad", "badrtsp", "http"):
        for a in autos:
            yield Case(line(["spull.1.0.%s.%s" % (a, u), "tick.1", "fs.1.90", "spull.1.0.%s.%s" % (a, u), "tick.2", "xpull.1", "spull.1.0.%s.%s" % (a, u), "rp.1.1",
                             "spull.1.0.%s.%s" % (a, u), "gone.1", "tick.3", "gone.90", "tick.4", "tick.5"]), cls="pull-selffail-" + u)
    # static relay pull (retry forever, auto-stop immediately)
    st = "static=1"
    yield Case(line(["fs.1.90", "psucc.1.0", "tick.1", "gone.90", "tick.2", "tick.3"], st), cls="static")
    yield Case(line(["tick.1", "fs.1.90", "pfail.1.0", "tick.2", "pfail.1.0", "tick.3", "psucc.1.0", "pdone.1.0", "tick.4", "gone.90", "pfail.1.0", "tick.5", "tick.6"], st), cls="static")
    yield Case(line(["fs.1.90", "rp.1.1", "psucc.1.0", "tick.1", "gone.1", "tick.2", "psucc.1.0", "xpull.1", "tick.3", "psucc.1.0", "kick.1.p1_3", "tick.4"], st), cls="static")
    yield Case(line(["rs.1.90", "xpull.1", "psucc.1.0", "tick.1", "spull.1.0.n1", "gone.90", "tick.2", "tick.3"], st), cls="static")
    yield Case(line(["ds.1.90", "tick.1", "pl.90", "psucc.1.0", "gone.90", "tick.2"], st), cls="static")
    # relay push
    for np in (1, 2):
        cfg = "push=%d" % np
        t = np - 1
        yield Case(line(["fs.1.90", "rp.1.1", "pushok.1.0", "pushfail.1.%d" % t, "tick.1", "pushok.1.%d" % t, "pushdone.1.0", "tick.2", "pushok.1.0", "media.1", "gone.1", "tick.3", "tick.4"], cfg), cls="push")
        yield Case(line(["fs.1.90", "rp.1.1", "gone.1", "pushok.1.0", "tick.1", "pushfail.1.%d" % t, "rp.1.2", "tick.2", "pushok.1.0", "pushok.1.%d" % t, "gone.2", "tick.3"], cfg), cls="push")
        yield Case(line(["fs.1.90", "ap.1.1", "pushok.1.0", "tick.1", "kick.1.c1", "gone.1", "tick.2", "cp.1.2", "tick.3", "gone.2", "pp.1.3", "tick.4", "kick.1.c3", "tick.5"], cfg), cls="push")
        yield Case(line(["fs.1.90", "rp.1.1", "rp.1.2", "pushok.1.0", "gone.2", "tick.1", "spull.1.0.n1", "tick.2", "gone.1", "tick.3", "psucc.1.0", "tick.4", "pdone.1.0"], cfg), cls="push")
        yield Case(line(["fs.1.90", "rp.1.1", "pushok.1.0", "dispose", "gone.1"], cfg), cls="push")
        # F-15 end to end: the publisher's URL parameters travel through a real relay push (client goroutine of lal)
        for n in (300, 3000, 5000):
            yield Case(line(["fs.1.90", "rp.1.1.L%d" % n, "pushok.1.0", "media.1", "tick.1", "gone.1", "tick.2"], cfg), cls="push-long-url")


def gen_httpapi():
    # the HTTP API in front of the rules: every numeric key of a request absent / null / 0 / -1 / positive / malformed, one at
    # a time and together, each followed by the observation of the rule the key feeds
    def hp(t="a", r="a", a="a", m="a", fl="-"):
        return "hpull.1.%s.%s.%s.%s.%s" % (t, r, a, m, fl)
    tails = {
        "idle": lambda h: [h, "pfail.1.0", "tick.1", "pfail.1.0", "tick.2", "pfail.1.0", "tick.3", "tick.4"],
        "watched": lambda h: ["fs.1.90", h, "psucc.1.0", "tick.1", "gone.90", "tick.2", "adv.6000", "tick.3", "tick.4", "fs.1.91", "tick.5", "pfail.1.0", "tick.6"],
    }
    one = [hp(t=v) for v in ("a", "z", "0", "7000", "30000", "q")] + [hp(r=v) for v in ("z", "0", "n1", "1", "2", "q")] + \
          [hp(a=v) for v in ("z", "0", "n1", "2000", "5000", "q")]  # no value near the real time a step takes (1 ms would race the wall clock) + [hp(m=v) for v in ("z", "0", "1", "q")]
    for h in one:
        for tk, tail in tails.items():
            yield Case(line(tail(h)), cls="httpapi-pull-one-" + tk)
    for r in ("0", "n1", "2"):
        for a in ("0", "n1", "5000"):
            for fl in ("-", "n", "r", "rn"):
                h = hp("30000", r, a, "0", fl)
                yield Case(line(tails["idle" if fl in ("-", "r") else "watched"](h)), cls="httpapi-pull-all")
    # required keys, second request replaces the settings, static pull + api
    yield Case(line([hp(fl="u"), hp(fl="un"), "tick.1", hp(a="0"), "fs.1.90", hp(a="0"), "pfail.1.0", "tick.2", hp(r="n1"), "pfail.1.0", "tick.3", "pfail.1.0", "tick.4"]), cls="httpapi-pull-req")
    yield Case(line(["fs.1.90", hp(r="q"), hp(a="q", fl="n"), hp(), "hxpull.a", "hxpull.2", "hxpull.1", "hxpull.1", "tick.1", hp(r="2"), "psucc.1.0", "hxpull.1", "tick.2"]), cls="httpapi-pull-req")
    yield Case(line(["fs.1.90", "psucc.1.0", hp(a="0"), "gone.90", "tick.1", "tick.2", hp(a="n1"), "tick.3", "hxpull.1", "tick.4"], "static=1"), cls="httpapi-pull-req")
    # kick_session: both keys required
    yield Case(line(["rp.1.1", "fs.1.90", "hkick.a.c1", "hkick.1.a", "hkick.a.a", "hkick.2.c1", "hkick.1.c7", "hkick.1.c90", "hkick.1.c1", "gone.1", "gone.90", "tick.1"]), cls="httpapi-kick")
    yield Case(line(["fs.1.90", hp(r="n1"), "hkick.1.p1_1", "psucc.1.0", "hkick.a.p1_1", "hkick.1.p1_1", "tick.1", "psucc.1.0", "hkick.1.p1_1", "tick.2"]), cls="httpapi-kick")
    # start_rtp_pub: port / timeout_ms / is_tcp_flag
    for i, (p_, t, f_) in enumerate([("a", "a", "a"), ("0", "0", "0"), ("z", "z", "z"), ("a", "70000", "1"), ("0", "5000", "5"), ("a", "999", "n1"),
                                     ("q", "a", "a"), ("a", "q", "a"), ("a", "a", "q")]):
        yield Case(line(["hpp.1.1.%s.%s.%s" % (p_, t, f_), "tick.1", "rp.1.2", "hpp.1.3.%s.%s.%s" % (p_, t, f_), "gone.2", "tick.2", "hkick.1.c1", "tick.3",
                         "hpp.1.4.a.a.a", "hpp.a.5.a.a.a", "kick.1.c4", "tick.4"]), cls="httpapi-rtppub")
    # a start_rtp_pub publisher over tcp ends like any other: kick, dispose
    yield Case(line(["fs.1.90", "hpp.1.1.a.a.1", "rp.1.2", "tick.1", "kick.1.c1", "gone.2", "rp.1.3", "tick.2", "hpp.2.4.a.0.1", "dispose"]), cls="httpapi-rtppub")


def rand_relay(rng, n_ops):
    ops = ["fs.1.90"] if rng.random() < 0.5 else []
    nid = [1]
    live = [(90, "fs", 1)] if ops else []
    for _ in range(n_ops):
        r = rng.random()
        if r < 0.05:
            ops.append("hpull.1.%s.%s.%s.%s.%s" % (rng.choice(["a", "30000", "z"]), rng.choice(["a", "n1", "0", "1", "2", "z"]),
                                                   rng.choice(["a", "n1", "0", "5000", "z"]), rng.choice(["a", "0"]), rng.choice(["-", "n", "r", "u"])))
        elif r < 0.18:
            ops.append("spull.1.%s.%s%s" % (rng.choice(["n1", "0", "1", "2"]), rng.choice(["n1", "0", "5000"]), rng.choice(["", "", ".rtsp"])))
        elif r < 0.42:
            ops.append("%s.1.0" % rng.choice(["psucc", "pfail", "pdone", "psuccm", "pfail"]))
        elif r < 0.50:
            ops.append(rng.choice(["xpull.1", "xpull.1", "hxpull.1", "hxpull.a"]))
        elif r < 0.68:
            ops.append("tick.%d" % rng.choice([1, 2, 3, 5, 7]))
        elif r < 0.76:
            ops.append("adv.%d" % rng.choice([1000, 3000, 5000, 8000]))
        elif r < 0.84:
            i = nid[0]; nid[0] += 1
            k = rng.choice(["fs", "rs", "ts"])
            ops.append("%s.1.%d" % (k, i)); live.append((i, k, 1))
        elif r < 0.92 and live:
            x = rng.choice(live); live.remove(x)
            ops.append("gone.%d" % x[0])
        elif r < 0.96:
            i = nid[0]; nid[0] += 1
            ops.append("rp.1.%d" % i); live.append((i, "rp", 1))
        else:
            ops.append("kick.1.p1_%d" % rng.choice([1, 2, 3]))
    return ops


def pack_line(app, tc, fv, stream, push):
    return "c17.pack fixed %s %s %s %s %d" % (app, tc, hex_tok(fv.encode()), stream, 1 if push else 0)


def gen_pack(tier, rng):
    fvp = flash_ver_push()
    app = hex_tok(b"live")
    tc = hex_tok(b"rtmp://127.0.0.1:1935/live")
    lens = [0, 1, 2, 50, 100, 150, 180, 190, 200, 210, 220, 230, 240, 250, 256, 260, 300, 400, 450, 470, 480, 490, 500, 512, 520, 700,
            1000, 1020, 1024, 1030, 2000, 3000, 3042, 4000, 4070, 4080, 4090, 4096, 4100, 4200, 8192, 8200, 12288, 20000]
    if tier == "thorough":
        lens += list(range(160, 280)) + list(range(4060, 4110)) + [65500, 65535, 65536, 65537, 70000, 200000]
    else:
        lens += [65535, 65536, 70000]
    for n in lens:
        for push in (True, False):
            s = "73313f" + ("+r%d.%d" % (n, rng.randrange(1000)) if n else "")
            yield Case(pack_line(app, tc, fvp if push else FLASH_PULL, s if n else "7331", push), cls="pack-stream")
    for n in [0, 1, 100, 200, 250, 300, 500, 1000, 3000, 5000, 66000]:
        a = "r%d.%d" % (n, rng.randrange(1000)) if n else "-"
        yield Case(pack_line(a, tc, fvp, "7331", True), cls="pack-app")
        yield Case(pack_line(app, a, FLASH_PULL, "7331", False), cls="pack-tcurl")
        yield Case(pack_line(a, a, fvp, "73313f+" + a if n else "7331", True), cls="pack-all")


def gen_cases(tier, rng):
    yield from gen_httpapi()
    yield from gen_relay()
    n = 120 if tier == "quick" else 20000
    for _ in range(n):
        cfg = rng.choice(["-", "-", "static=1"])
        yield Case(line(rand_relay(rng, rng.choice([8, 14, 22])), cfg), cls="random")
    yield from gen_pack(tier, rng)


def nontrivial(c, out):
    if "unknown-op" in out or "timeout" in out or "anomaly" in out or out.startswith(("bad", "err", "model-", "flashver", "panic")):
        return None
    return c.line


# ---------------------------------------------------------------- oracle: relay rules from the property text
FOREVER = -1


def ival(t):
    return -int(t[1:]) if t.startswith("n") else int(t)


def oracle_run(c, out):
    f = c.line.split(" ")
    cfg = dict(kv.split("=") for kv in f[1].split(",")) if f[1] != "-" else {}
    static = cfg.get("static") == "1"
    npush = int(cfg.get("push", "0"))
    # a request through the HTTP API is the direct call it must amount to (checked by c03.api_layer)
    err, ops, out = c03.api_layer(f[2].split(","), out)
    if err:
        return (False, err)
    try:
        steps = c03.parse_out(out)
    except ValueError as e:
        return (False, str(e))
    if len(steps) != len(ops):
        return (False, "the implementation answered %d of %d events" % (len(steps), len(ops)))
    now = 0
    S = {}            # stream -> dict(retry, autostop, last_out) for existing groups
    prev = {}
    outstanding = {}  # stream -> attempt name in flight or attached
    disposed = False
    for idx, (op, (res, groups, notes)) in enumerate(zip(ops, steps)):
        p = op.split(".")
        o = p[0]
        where = "event %d (%s): " % (idx + 1, op)
        if o == "adv":
            now += ival(p[1])
        if o == "dispose" and res == "-":
            disposed = True
        # groups that appeared / vanished
        for s in groups:
            if s not in prev:
                S[s] = dict(retry=FOREVER, autostop=0, last_out=now)
        for s in list(S):
            if s not in groups:
                del S[s]
                if outstanding.get(s):
                    return (False, where + "the group of %s was erased while relay pull %s was outstanding" % (s, outstanding[s]))
        ended = [n[1] for n in notes if n[0] == "RE"]
        # the stream this op may trigger a pull for, with the state the rule is evaluated on
        trig = None
        if o in ("fs", "rs", "ts") and res == "a":
            trig = "s" + p[1]
        elif o == "pl" and res == "a":
            trig = next((s for s, g in groups.items() if "c" + p[1] in g["ssubs"]), None)
        elif o == "spull":
            trig = "s" + p[1]
            if trig in S:
                S[trig]["retry"], S[trig]["autostop"] = ival(p[2]), ival(p[3])
        tick_streams = [s for s in prev if s in groups] if (o == "tick" and res == "-") else []
        for s, g in groups.items():
            b = prev.get(s)
            cnt_b = int(b["count"]) if b else 0
            pulling_b = b["pulling"] == "1" if b else False
            occ_b = c03.occupants(b) if b else []
            started = g["pulling"] == "1" and (not pulling_b or (outstanding.get(s) in ended))
            if o == "spull" and s == "s" + p[1] and len(p) > 4 and p[4] in ("bad", "badrtsp", "http"):
                # the attempt fails by itself within the step: it started iff the call names it and its end is reported
                started = res.startswith("0:") and res[2:] in ended
            consumers_after = bool(g["ssubs"]) or "a" in g["push"]
            expect = None
            why = ""
            if s == trig or s in tick_streams:
                st = S[s]
                consumers = consumers_after if s == trig else (bool(b["ssubs"]) or "a" in b["push"])
                api = (b["api"] == "1") if b else False
                if o == "spull" and s == trig:
                    api = True
                if s in tick_streams and b["ssubs"]:
                    st["last_out"] = now
                window_closed = st["autostop"] >= 0 and not consumers and (st["autostop"] == 0 or now - st["last_out"] >= st["autostop"])
                near = st["autostop"] > 0 and not consumers and abs((now - st["last_out"]) - st["autostop"]) < 1000
                if s in tick_streams and window_closed:
                    # stop rule: the last consumer has been gone for the window
                    cnt_b = 0
                    if not near:
                        if any(x != "-" for x in g["slots"][4:6]):
                            return (False, where + "relay pull of %s still attached although no consumer has been present for the window" % s)
                        if g["count"] != "0" and not started:
                            return (False, where + "retry counter of %s not reset by the auto stop" % s)
                    expect = False
                    why = "auto-stop window closed"
                else:
                    conds = [("enabled", static or api), ("no input", not occ_b), ("none in flight", not pulling_b),
                             ("budget", st["retry"] < 0 or cnt_b <= st["retry"]), ("window", not window_closed)]
                    expect = all(v for _, v in conds)
                    why = ", ".join(k for k, v in conds if not v) or "all conditions hold"
                if near:
                    expect = None
            else:
                expect = False
                why = "no subscriber arrival, start_relay_pull or tick for this stream"
            if expect is not None and started != expect:
                return (False, where + "relay pull attempt for %s %s but the rule says %s (%s)" % (
                    s, "started" if started else "not started", "start" if expect else "do not start", why))
            if started:
                if outstanding.get(s) and outstanding[s] not in ended:
                    return (False, where + "a second relay pull attempt for %s while %s is outstanding" % (s, outstanding[s]))
                outstanding[s] = "pending"
            # API truthfulness
            if s == "s" + p[1] if len(p) > 1 else False:
                if o == "spull":
                    if started != res.startswith("0:"):
                        return (False, where + "start_relay_pull answered %s but an attempt was %s" % (res, "started" if started else "not started"))
                    if res.startswith("0:"):
                        outstanding[s] = res[2:]
        for n in ended:
            st_ = "s" + n[1:].split("_")[0]
            outstanding[st_] = None if outstanding.get(st_) in (n, "pending") else outstanding.get(st_)
        if o == "xpull":
            s = "s" + p[1]
            b = prev.get(s)
            att = [x for x in b["slots"][4:6] if x != "-"] if b else []
            want = "1001" if b is None else ("0:" + att[0] if att else "1003")
            if res != want:
                return (False, where + "stop_relay_pull answered %s, expected %s" % (res, want))
            if att:
                g = groups.get(s)
                if g is None or any(x != "-" for x in g["slots"][4:6]) or att[0] not in ended:
                    return (False, where + "stop_relay_pull reported success but %s is still attached / its end was not reported" % att[0])
        if o == "kick" and p[2].startswith("p"):
            s = "s" + p[1]
            b = prev.get(s)
            att = [x for x in b["slots"][4:6] if x != "-"] if b else []
            want = "1001" if b is None else ("0" if p[2] in att else "1003")
            if res != want:
                return (False, where + "kick answered %s, expected %s" % (res, want))
            if p[2] in att and (any(x != "-" for x in groups[s]["slots"][4:6]) or p[2] not in ended):
                return (False, where + "kick reported success but the pull is still attached / its end was not reported")
        if o == "psucc" and res != "x":
            # F-14: a pull stopped through the API while connecting must not attach
            s = "s" + p[1]
            b = prev.get(s)
            if b and not static and b["api"] == "0" and res in c03.occupants(groups.get(s)):
                return (False, where + "relay pull %s attached although stop_relay_pull had disabled it" % res)
        # relay push
        for s, g in groups.items():
            if g["push"] == "-":
                if npush:
                    return (False, where + "push targets missing")
                continue
            flags = g["push"].split("+")
            if len(flags) != npush:
                return (False, where + "%d push entries for %d configured targets" % (len(flags), npush))
            netpub = g["slots"][0] != "-" or g["slots"][1] != "-"
            if any("a" in x for x in flags) and not netpub:
                return (False, where + "a relay push session is attached to %s although no RTMP/RTSP publisher is" % s)
            acc = (o in ("rp", "ap") and res == "a" and s == "s" + p[1])
            if (acc or (o == "tick" and res == "-" and not disposed)) and netpub and any(x[0] != "1" for x in flags):
                return (False, where + "a push target of %s has no attempt although a publisher is present (%s)" % (s, g["push"]))
        prev = groups
    return (True, "")


# ---------------------------------------------------------------- oracle: message bytes from the RTMP / AMF0 specifications
def amf_string(b):
    if len(b) < 65536:
        return b"\x02" + struct.pack(">H", len(b)) + b
    return b"\x0c" + struct.pack(">I", len(b)) + b


def amf_number(x):
    return b"\x00" + struct.pack(">d", float(x))


def amf_object(pairs):
    out = b"\x03"
    for k, v in pairs:
        out += struct.pack(">H", len(k)) + k
        if isinstance(v, bool):
            out += b"\x01" + (b"\x01" if v else b"\x00")
        elif isinstance(v, bytes):
            out += amf_string(v)
        else:
            out += amf_number(v)
    return out + b"\x00\x00\x09"


def chunked(csid, typeid, msid, body, chunk=4096):
    hdr = bytes([csid]) + b"\0\0\0" + len(body).to_bytes(3, "big") + bytes([typeid]) + msid.to_bytes(4, "little")
    out = hdr
    for i in range(0, max(len(body), 1), chunk):
        if i:
            out += bytes([0xC0 | csid])
        out += body[i:i + chunk]
    return out


def ref_seq(app, tc, fv, stream, push):
    out = chunked(2, 1, 0, struct.pack(">I", 4096))
    out += chunked(3, 20, 0, amf_string(b"connect") + amf_number(1) + amf_object(
        [(b"app", app), (b"type", b"nonprivate"), (b"flashVer", fv), (b"fpad", False), (b"tcUrl", tc)]))
    out += chunked(3, 20, 0, amf_string(b"createStream") + amf_number(2) + b"\x05")
    if push:
        out += chunked(5, 20, 1, amf_string(b"publish") + amf_number(3) + b"\x05" + amf_string(stream) + amf_string(b"live"))
    else:
        out += chunked(5, 20, 1, amf_string(b"play") + amf_number(3) + b"\x05" + amf_string(stream))
    return out


def oracle(c, out):
    if out.startswith(("panic@", "crash@", "timeout", "not-run")):
        return (False, "implementation crashed or hung: " + out[:80])
    f = c.line.split(" ")
    if f[0] == "c17.pack":
        if out.startswith("flashver-differs"):
            return None
        want = ref_seq(tok_bytes(f[2]), tok_bytes(f[3]), tok_bytes(f[4]), tok_bytes(f[5]), f[6] == "1")
        try:
            got = tok_bytes(out)
        except Exception:
            return (False, "output is not a byte string: " + out[:60])
        if got != want:
            k = next((i for i in range(min(len(got), len(want))) if got[i] != want[i]), min(len(got), len(want)))
            return (False, "client signalling bytes differ from the RTMP/AMF0 reference at offset %d (%d vs %d bytes)" % (k, len(got), len(want)))
        return (True, "")
    r = oracle_run(c, out)
    if r is not None and not r[0]:
        return r
    # the admission clauses (C03) hold on relay histories as well
    return c03.oracle(Case("c03.run " + " ".join(f[1:])), out)


def neighbors(c, rng):
    f = c.line.split(" ")
    if f[0] == "c17.pack":
        return
    ops = f[2].split(",")
    for i in range(len(ops)):
        if len(ops) > 1:
            yield "%s %s %s" % (f[0], f[1], ",".join(ops[:i] + ops[i + 1:]))
