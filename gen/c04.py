# C04 - no byte sequence from an RTMP peer can terminate the server.
import os, re, resource, struct, subprocess, time
from lib.vf import Case
from lib import vf
from gen.common import *
from gen import c04enc as E
from gen.c18 import mutations as amf_mutations, nest as amf_nest, ref_enc as amf_enc, rand_tree as amf_rand_tree

ID = "C04"
RULE = ("valid RTMP client sessions from an independent python encoder (simple / complex handshake with hashlib HMAC, connect, "
        "createStream, publish / play, metadata, audio, video, set chunk size, ack, user control, aggregate), then: truncation at "
        "every offset, every message type id 0..255 with bodies of length 0..8 (zero and random) in the states fresh / publisher / "
        "subscriber, every chunk fmt x csid form x extreme length and timestamp fields, Set Chunk Size / Window Ack Size / Ack / "
        "User Control bodies of every short length, short audio / video payloads with the log level at trace, acknowledgement "
        "counters preset around the 0xf0000000 / 2^32 wraps, AMF0 command bodies mutated with the C18 mutation stream, out-of-order and "
        "repeated commands, aggregates with sub-lengths past the end, handshake digest offsets at their extremes, and pure random "
        "bytes before and after the handshake; a case is non-trivial when it got past the handshake, counted by distinct "
        "(outcome, observer-call kinds, reply length)")
ASSUMPTIONS = ["64-bit Go int, amd64 float64->int conversion (NaN / out of range = -2^63) for the echoed transaction id",
               "the connection is a finite byte list handed out one byte per Read: the session only ever asks its reader for exact "
               "counts, so TCP fragmentation is not observable; input exhausted = session blocked in a read",
               "replies queued for the asynchronous writer during the callbacks of the very iteration that closes the session may or "
               "may not reach the peer in the real server; both sides leave them out",
               "S1 carries time.Now(): the comparison covers the handshake mode, S0 and all of S2",
               "memory: the model carries the capacity of every per-chunk-stream message buffer (nazabytes.Buffer.Grow rounding "
               "included) and both sides print their sum and the number of chunk streams; Go heap / GC behaviour is not modelled, "
               "the peak RSS of the declared-length cases is a regression guard in the thorough tier",
               "the acknowledgement sequence wrap at 0xf0000000 and the uint32 wrap of the sequence number are reached by presetting "
               "recvLastAck / seqNum of a session that has not started (hook VerifC04PresetAck; 0 / 0 in production)",
               "not modelled (runtime): goroutine scheduling, read / write timeouts"]
FULL_OUTPUT = True
TIMEOUT = 2400

T = E


def lal_consts():
    repo = os.environ.get("LAL_REPO", "/repo")
    txt = open(os.path.join(repo, "pkg/base/t_version.go")).read()
    ver = re.search(r'var LalVersion = "([^"]+)"', txt).group(1)
    lib = re.search(r'LalLibraryName\s*=\s*"([^"]*)"', txt).group(1)
    rep = re.search(r'LalGithubRepo\s*=\s*"([^"]*)"', txt).group(1)
    comma = ver[1:].replace(".", ",") if ver.startswith("v") else ver.replace(".", ",")
    hack = "random buf of rtmp handshake gen by %s %s (%s)" % (lib, ver, rep)
    return comma.encode(), hack.encode()


_CFG = None


def cfg_tok():
    global _CFG
    if _CFG is None:
        v, h = lal_consts()
        _CFG = hex_tok(v) + "." + hex_tok(h)
    return _CFG


def data_tok(b):
    return hex_tok(b)


def line(data, policy="A"):
    if isinstance(data, (bytes, bytearray)):
        data = data_tok(bytes(data))
    return "c04.sess %s %s %s" % (policy, cfg_tok(), data)


HS = {k: E.handshake(k, 7) for k in ("simple", "complex0", "complex1", "complexbad")}
HS_S = HS["simple"]


def client(hs="simple", chunk=128):
    c = E.Client(None, chunk=chunk)
    c.raw("hs", HS[hs])
    return c


def pub_prefix(hs="simple", name=b"test", chunk=128):
    return client(hs, chunk).connect().cmd("releaseStream").cmd("FCPublish").create_stream().publish(name)


def sub_prefix(hs="simple", name=b"test"):
    return client(hs).connect().create_stream().play(name)


def msg(csid, mtype, msid, body, **kw):
    """one message; when it is cut larger than the default 128 a Set Chunk Size precedes it"""
    pre = b""
    if kw.get("chunk", 128) > 128:
        pre = E.message(2, E.T_SET_CHUNK, 0, E.set_chunk_size_body(kw["chunk"]))
    return pre + E.message(csid, mtype, msid, body, **kw)


# --------------------------------------------------------------------------
def gen_cases(tier, rng):
    thorough = tier == "thorough"
    rb = lambda n: bytes(rng.randrange(256) for _ in range(n))

    # ---- (0) valid sessions, with an expectation for the oracle -----------------------------------------
    for hs in ("simple", "complex0", "complex1", "complexbad"):
        c = pub_prefix(hs).metadata().audio(b"\xaf\x00\x12\x10").video(b"\x17\x00\x00\x00\x00" + rb(40)).audio(b"\xaf\x01" + rb(300), ts=23)
        yield Case(line(c.bytes()), cls="valid", meta=dict(expect=("eof", "conn,newpub:a,av*4,delpub")))
        c = sub_prefix(hs)
        yield Case(line(c.bytes()), cls="valid", meta=dict(expect=("eof", "conn,newsub:a,delsub")))
    c = pub_prefix().set_chunk_size(4096).metadata(sdf=False).video(rb(5000), ts=0xFFFFFF).video(rb(1), ts=0x1000000)
    c.add("sample", 5, E.T_DATA0, 1, E.a_str("|RtmpSampleAccess") + E.a_bool(True) + E.a_bool(True))
    c.cmd("FCUnpublish").cmd("deleteStream")
    yield Case(line(c.bytes()), cls="valid", meta=dict(expect=("eof", "conn,newpub:a,av*3,delpub")))
    for pol, exp in (("R", ("closed:0xd", "conn,newpub:r")), ("N", ("eof", "conn,newpub:a,delpub"))):
        yield Case(line(pub_prefix().bytes(), pol), cls="valid", meta=dict(expect=exp))
    yield Case(line(sub_prefix().bytes(), "R"), cls="valid", meta=dict(expect=("closed:0xd", "conn,newsub:r")))
    yield Case(line(pub_prefix().audio(b"\xaf\x00").bytes(), "N"), cls="observer-contract")
    # names with a query part
    for nm in (b"test?a=b", b"test?a=b?c", b"?x", b"?", b"", b"a/b", b"x" * 300, b"q" * 70000):
        yield Case(line(pub_prefix(name=nm).bytes()), cls="names")
        yield Case(line(sub_prefix(name=nm).bytes()), cls="names")
    # ping after publish / play (asynchronous writer), then a failing message in the same or the next iteration
    ping = msg(2, E.T_USER, 0, E.user_control_body(6, 0x11223344))
    bad = msg(3, E.T_CMD0, 0, b"\x07")
    for pre in (pub_prefix, sub_prefix):
        yield Case(line(pre().raw("p", ping).bytes()), cls="async")
        yield Case(line(pre().raw("p", ping).raw("b", bad).bytes()), cls="async")
        agg = E.aggregate_body([(E.T_USER, 0, E.user_control_body(6, 7)), (E.T_CMD0, 0, b"\x07")])
        yield Case(line(pre().add("agg", 4, E.T_AGG, 1, agg).bytes()), cls="async")
        agg = E.aggregate_body([(E.T_USER, 0, E.user_control_body(6, 7))])[:-2]
        yield Case(line(pre().add("agg", 4, E.T_AGG, 1, agg).bytes()), cls="async")
    # publish / play inside an aggregate, followed by more sub-messages
    for body in (E.publish_body(), E.play_body()):
        for pol in "AR":
            agg = E.aggregate_body([(E.T_CMD0, 0, body), (E.T_USER, 0, E.user_control_body(6, 9)), (E.T_AUDIO, 5, b"\xaf\x01\x02"),
                                    (E.T_CMD0, 0, b"\x07")])
            yield Case(line(client().connect().create_stream().add("agg", 4, E.T_AGG, 1, agg).bytes(), pol), cls="async")

    # ---- (a) truncation at every offset -----------------------------------------------------------------
    full = pub_prefix().metadata().audio(b"\xaf\x00\x12\x10").video(b"\x17\x01" + rb(200)).bytes()
    full2 = sub_prefix("complex1").raw("p", ping).bytes()
    for data in (full, full2):
        hs_cuts = [0, 1, 2, 8, 9, 1536, 1537, 1538, 3072, 3073] + list(range(97, 3073, 331 if not thorough else 53))
        for cut in sorted(set(hs_cuts)):
            yield Case(line(data[:cut]), cls="trunc-hs")
        for cut in range(3074, len(data)):
            yield Case(line(data_tok(data[:3073]) + "+" + data_tok(data[3073:cut])), cls="trunc")

    # ---- (b) every message type id ---------------------------------------------------------------------
    states = {"fresh": client(), "pub": pub_prefix(), "sub": sub_prefix()}
    pre_tok = {k: data_tok(c.bytes()) for k, c in states.items()}
    hot = [1, 2, 3, 4, 5, 6, 8, 9, 15, 16, 17, 18, 19, 20, 22]
    for st in ("fresh", "pub", "sub"):
        for ty in range(256):
            lens = range(9) if ty in hot else ((0, 1, 4) if st == "fresh" else (0,))
            for n in lens:
                bodies = [bytes(n)] + ([rb(n)] if n and ty in hot else [])
                for body in bodies:
                    yield Case(line(pre_tok[st] + "+" + data_tok(msg(3, ty, 0, body))), cls="type-sweep")
        # user control: every event type x every body length
        for ev in range(9):
            for n in range(11):
                body = (struct.pack(">H", ev) + b"\x01\x02\x03\x04\x05\x06\x07\x08\x09")[:n]
                yield Case(line(pre_tok[st] + "+" + data_tok(msg(2, E.T_USER, 0, body))), cls="user-control")
        # protocol control bodies
        for ty in (E.T_SET_CHUNK, E.T_ABORT, E.T_ACK, E.T_WINACK, E.T_BW):
            for n in range(7):
                for fill in (0x00, 0xFF):
                    yield Case(line(pre_tok[st] + "+" + data_tok(msg(2, ty, 0, bytes([fill]) * n) + ping)), cls="proto-control")

    # ---- (c) chunk header forms and extreme fields -----------------------------------------------------
    csids = [(2, 1), (3, 1), (63, 1), (64, 2), (65, 2), (319, 2), (64, 3), (319, 3), (320, 3), (65599, 3), (0 + 64, 2)]
    raw_basic = [bytes([0]), bytes([1]), bytes([0, 0]), bytes([0, 255]), bytes([1, 0]), bytes([1, 0, 0]), bytes([1, 255, 255]), bytes([63])]
    for st in ("fresh", "pub"):
        for fmt in range(4):
            for csid, form in csids:
                for mlen in (0, 1, 127, 128, 129, 0xFFFFFF):
                    for ts in (0, 0xFFFFFE, 0xFFFFFF, 0x12345678):
                        # (a declared 16 MiB message makes the server allocate 16 MiB: only a few of those)
                        if mlen == 0xFFFFFF and (ts not in (0, 0xFFFFFF) or csid not in (3, 64, 65599) or st != "fresh"):
                            continue
                        h = E.chunk_header(fmt, csid, ts, mlen, E.T_VIDEO, 1, form)
                        body = rb(min(mlen, 200))
                        yield Case(line(pre_tok[st] + "+" + data_tok(h + body)), cls="chunk-forms")
            for rbh in raw_basic:
                b0 = bytes([(fmt << 6) | rbh[0]]) + rbh[1:]
                yield Case(line(pre_tok[st] + "+" + data_tok(b0 + rb(20))), cls="chunk-forms")
        # a message continued with other formats, a header that shrinks the length of a message in progress
        first = E.chunk_header(0, 6, 10, 300, E.T_AUDIO, 1) + rb(128)
        for fmt in range(4):
            for mlen in (0, 100, 128, 129, 300, 301):
                nxt = E.chunk_header(fmt, 6, 5, mlen, E.T_VIDEO, 1) + rb(172)
                yield Case(line(pre_tok[st] + "+" + data_tok(first + nxt)), cls="chunk-forms")
    # set chunk size values, then a message cut accordingly
    for val in (0, 1, 2, 127, 128, 129, 4096, 0xFFFF, 0x10000, 0xFFFFFF, 0x1000000, 0x7FFFFFFF, 0x80000000, 0xFFFFFFFF):
        c = pub_prefix().set_chunk_size(val)
        c.video(b"\x17\x01" + rb(500)).raw("p", ping)
        yield Case(line(c.bytes()), cls="chunk-size")
        c = client().set_chunk_size(val).connect()
        yield Case(line(c.bytes()), cls="chunk-size")
    # huge peer chunk size met by a header that shrinks a message in progress (needed size wraps to 2^32 - x)
    c = pub_prefix().set_chunk_size(0xFFFFFFFF)
    c.raw("a", E.chunk_header(0, 6, 0, 100, E.T_AUDIO, 1) + rb(100))
    yield Case(line(c.bytes()), cls="chunk-size")
    # ... the same with a message really in progress: 128 of 300 bytes read, Set Chunk Size 0xFFFFFFFF, then a type-0 header
    # with length 100 on the same chunk stream: needed size = uint32(100 - 128) = 2^32 - 28 (a 4 GiB ReserveBytes)
    c = pub_prefix()
    c.raw("a", E.chunk_header(0, 6, 0, 300, E.T_AUDIO, 1) + rb(128))
    c.raw("scs", E.message(2, E.T_SET_CHUNK, 0, b"\xff\xff\xff\xff"))
    c.raw("b", E.chunk_header(0, 6, 0, 100, E.T_AUDIO, 1) + rb(500))
    yield Case(line(c.bytes()), cls="chunk-size")
    # the chunk body is read in pieces of at most max(Len, initMsgLen): input that ends around every piece boundary
    # (EOF inside a later piece is io.ErrUnexpectedEOF; the capacity depends on what has arrived)
    for chunk, mlen in ((65536, 20000), (5000, 12000), (8192, 8192), (10000, 30000), (0xFFFFFFFF, 70000), (4097, 4097)):
        head = pub_prefix().bytes() + E.message(2, E.T_SET_CHUNK, 0, E.set_chunk_size_body(chunk))
        body = E.message(7, E.T_VIDEO, 1, b"\x27\x01" + bytes(mlen - 2), chunk=chunk if chunk < 0x80000000 else mlen)
        cuts = set()
        for b in (0, 1, 4095, 4096, 4097, 8191, 8192, 8193, 12287, 12288, 12289, 16383, 16384, 16385, 24576, 32768, 32769, 65536, mlen - 1, mlen):
            cuts.add(12 + b)
        for b in (5000, 5001, 10000, 10001, 10002, 12000, 20000):
            cuts.add(12 + b)
            cuts.add(13 + b)
        for cut in sorted(x for x in cuts if 0 < x <= len(body)):
            yield Case(line(data_tok(head) + "+" + data_tok(body[:cut])), cls="pieces")
        # the same length as an aggregate (its buffer is kept after completion), complete and cut
        agg = E.aggregate_body([(E.T_VIDEO, 0, b"\x27\x01" + bytes(mlen - 2))])
        abody = E.message(4, E.T_AGG, 1, agg, chunk=chunk if chunk < 0x80000000 else len(agg))
        for cut in (len(abody), len(abody) - 1, 12 + 4096, 12 + 8192, 12 + 8193):
            if 0 < cut <= len(abody):
                yield Case(line(data_tok(head) + "+" + data_tok(abody[:cut]) + ("+" + data_tok(ping) if cut == len(abody) else "")), cls="pieces")
    # a header that shrinks / keeps / grows the length of a message in progress, at several fill levels
    for have in (1, 100, 4096, 4097, 9000):
        for newlen in (0, have - 1, have, have + 1, have + 5000):
            if newlen < 0:
                continue
            head = pub_prefix().bytes() + E.message(2, E.T_SET_CHUNK, 0, E.set_chunk_size_body(have))
            first = E.chunk_header(0, 7, 0, have + 10000, E.T_VIDEO, 1) + bytes(have)
            nxt = E.chunk_header(1, 7, 0, newlen, E.T_VIDEO, 1) + bytes(min(have, 200))
            yield Case(line(data_tok(head) + "+" + data_tok(first + nxt)), cls="pieces")
    # message length 2^24-1 declared on many chunk streams, never completed
    many = b"".join(E.chunk_header(0, 64 + i, 0, 0xFFFFFF, E.T_VIDEO, 1) + rb(128) for i in range(40 if not thorough else 400))
    yield Case(line(pre_tok["pub"] + "+" + data_tok(many)), cls="big-decl")

    # ---- (d) AMF command bodies: mutation stream -------------------------------------------------------
    bodies = [("connect", 3, 0, E.connect_body(oe=3), "fresh"), ("createStream", 3, 0, E.create_stream_body(), "conn"),
              ("publish", 5, 1, E.publish_body(b"test?k=v"), "conn"), ("play", 5, 1, E.play_body(), "conn"),
              ("metadata", 5, 1, E.metadata_body(), "pub"), ("releaseStream", 3, 0, E.simple_cmd_body("releaseStream"), "conn")]
    conn_tok = data_tok(client().connect().bytes())
    pre_tok["conn"] = conn_tok
    lim = 400 if thorough else 70
    for name, csid, msid, body, st in bodies:
        mty = E.T_DATA0 if name == "metadata" else E.T_CMD0
        for m in amf_mutations(rng, body, lim):
            yield Case(line(pre_tok[st] + "+" + data_tok(msg(csid, mty, msid, m, chunk=4096))), cls="amf-mutation")
            if rng.random() < 0.15:
                yield Case(line(pre_tok[st] + "+" + data_tok(msg(csid, E.T_CMD3, msid, b"\x00" + m, chunk=4096))), cls="amf-mutation")
    # connect object variants
    def cobj(pairs, tid=E.a_num(1), tail=b""):
        return E.a_str("connect") + tid + E.a_obj(pairs) + tail
    nums = [0, 1, 3, 0x7ff8000000000000, 0x7ff0000000000000, 0xfff0000000000000, 0x43e0000000000000, 0xc3e0000000000000,
            0xc3e0000000000001, 0x43dfffffffffffff, 0x3fe0000000000000, 0xbfe0000000000000, 0x4340000000000001, 0x4008000000000000,
            0x4000000000000000, 0x400fffffffffffff, 0x7fefffffffffffff, 0x0000000000000001, 0x8000000000000000, 0x3ff0000000000000,
            0x4330000000000000, 0x4338000000000001, 0xc330000000000001, 0x41dfffffffc00000, 0x41e0000000000000]
    for bits in nums:
        yield Case(line(HS_S + msg(3, E.T_CMD0, 0, cobj([("app", E.a_str("live"))], tid=E.a_numbits(bits)))), cls="connect-variants")
        yield Case(line(HS_S + msg(3, E.T_CMD0, 0, cobj([("app", E.a_str("live")), ("objectEncoding", E.a_numbits(bits))]))), cls="connect-variants")
        yield Case(line(HS_S + msg(3, E.T_CMD0, 0, E.a_str("createStream") + E.a_numbits(bits) + E.a_null())), cls="connect-variants")
    variants = [
        [], [("tcUrl", E.a_str("rtmp://h/a"))], [("app", E.a_num(5))], [("app", E.a_num(5)), ("app", E.a_str("second"))],
        [("app", E.a_str("")), ("tcUrl", E.a_num(1)), ("tcUrl", E.a_str("u"))], [("App", E.a_str("x"))],
        [("app", E.a_str("a" * 65535))], [("app", E.a_str(b"a" * 65536))], [("app", E.a_str(b"b" * 70000)), ("tcUrl", E.a_str(b"c" * 70000))],
        [("app", E.a_obj([("app", E.a_str("inner"))]))], [("app", E.a_str("live")), ("objectEncoding", E.a_str("3"))],
        [("app", E.a_str("live")), ("objectEncoding", E.a_str("3")), ("objectEncoding", E.a_num(3))],
        [("app", E.a_str("live")), ("x", amf_enc(amf_nest("o" * 31, ('n', 1))))], [("app", E.a_str("live")), ("x", amf_enc(amf_nest("o" * 32, ('n', 1))))],
        [("x", amf_enc(amf_nest("oea" * 11, ('n', 1)))), ("app", E.a_str("live"))], [("app", E.a_null()), ("app", E.a_str("after-null"))],
    ]
    for pairs in variants:
        yield Case(line(HS_S + msg(3, E.T_CMD0, 0, cobj(pairs), chunk=1 << 20)), cls="connect-variants")
    yield Case(line(HS_S + msg(3, E.T_CMD0, 0, E.a_str("connect") + E.a_num(1) + E.a_ecma([("app", E.a_str("live"))]))), cls="connect-variants")
    yield Case(line(HS_S + msg(3, E.T_CMD0, 0, E.a_str("connect") + E.a_num(1) + b"\x03" * (4000 if not thorough else 200000), chunk=1 << 20)), cls="connect-variants")
    yield Case(line(HS_S + msg(3, E.T_CMD0, 0, E.a_str("connect") + E.a_num(1) + b"\x03\x00\x01k" * (3000 if not thorough else 100000), chunk=1 << 20)), cls="connect-variants")
    # ECMA / strict arrays whose declared entry count has nothing to do with the bytes present: inside the command
    # object of connect, as the command object itself, and in publish / play / @setDataFrame messages
    def arr(kind, count, present):
        if kind == "e":
            ents = b"".join(struct.pack(">H", 1) + b"k" + E.a_num(i) for i in range(present))
            return b"\x08" + struct.pack(">I", count & 0xFFFFFFFF) + ents + b"\x00\x00\x09"
        return b"\x0a" + struct.pack(">I", count & 0xFFFFFFFF) + b"".join(E.a_num(i) for i in range(present))
    for kind in "ea":
        for present in (0, 2):
            for count in (0, 1, present, present + 1, 1 << 16, 1 << 24, (1 << 31) - 1, 1 << 31, (1 << 32) - 1):
                a = arr(kind, count, present)
                yield Case(line(HS_S + msg(3, E.T_CMD0, 0, cobj([("app", E.a_str("live")), ("x", a)]), chunk=4096)), cls="array-count")
                yield Case(line(HS_S + msg(3, E.T_CMD0, 0, cobj([("x", E.a_obj([("y", a)])), ("app", E.a_str("live"))]), chunk=4096)), cls="array-count")
                if present == 0:
                    yield Case(line(HS_S + msg(3, E.T_CMD0, 0, E.a_str("connect") + E.a_num(1) + a, chunk=4096)), cls="array-count")
                    yield Case(line(pre_tok["pub"] + "+" + data_tok(msg(5, E.T_DATA0, 1, E.a_str("@setDataFrame") + E.a_str("onMetaData") + a, chunk=4096))), cls="array-count")
                    for cmd in ("publish", "play"):
                        yield Case(line(conn_tok + "+" + data_tok(msg(5, E.T_CMD0, 1, E.a_str(cmd) + E.a_num(3) + E.a_null() + E.a_str("s") + a, chunk=4096))), cls="array-count")
                        yield Case(line(conn_tok + "+" + data_tok(msg(5, E.T_CMD0, 1, E.a_str(cmd) + E.a_num(3) + a, chunk=4096))), cls="array-count")
    # containers nested in the command object of connect: each kind and mixed, around the limit of 32 and far beyond
    def chain(kinds, n, close):
        """n containers, kinds cycled, innermost empty; unterminated when close is False"""
        op, cl = [], []
        for i in range(n):
            k = kinds[i % len(kinds)]
            last = i == n - 1
            if k == "o":
                op.append(b"\x03" + (b"" if last else b"\x00\x01k")); cl.append(b"\x00\x00\x09")
            elif k == "e":
                op.append(b"\x08" + struct.pack(">I", 0 if last else 1) + (b"" if last else b"\x00\x01k")); cl.append(b"\x00\x00\x09")
            else:
                op.append(b"\x0a" + struct.pack(">I", 0 if last else 1)); cl.append(b"")
        return b"".join(op) + (b"".join(reversed(cl)) if close else b"")
    depths = [30, 31, 32, 33, 1000, 100000] + ([2000000] if thorough else [])
    for kinds in ("o", "e", "a", "oea", "ae"):
        for n in depths:
            if n >= 100000 and (kinds not in ("a", "o", "oea") if not thorough else n > 100000 and kinds not in ("a", "o")):
                continue
            for close in ((True, False) if n <= 33 else (False,)):
                body = E.a_str("connect") + E.a_num(1) + b"\x03" + b"\x00\x03app" + E.a_str("live") + b"\x00\x01x" + chain(kinds, n, close) + (b"\x00\x00\x09" if close else b"")
                # the command object is level 1, the chain reaches level n + 1; lal refuses more than Amf0MaxNestingDepth = 32 levels
                want = "closed:0x102" if n + 1 > MAX_NEST else ("eof" if close else "closed:0x101")
                yield Case(line(HS_S + msg(3, E.T_CMD0, 0, body, chunk=0xFFFFFF)), cls="deep-nesting", meta=dict(outcome=want))
                if n == 1000 or (n == 100000 and kinds == "a"):
                    yield Case(line(pre_tok["pub"] + "+" + data_tok(msg(5, E.T_DATA0, 1, E.a_str("@setDataFrame") + E.a_str("onMetaData") + chain(kinds, n, close), chunk=0xFFFFFF))), cls="deep-nesting")
    for cmd in (b"", b"Connect", b"connect\x00", b"publish", b"play", b"_result", b"onStatus", b"getStreamLength", b"FCUnpublish", b"x" * 70000):
        yield Case(line(conn_tok + "+" + data_tok(msg(3, E.T_CMD0, 0, E.a_str(cmd) + E.a_num(2) + E.a_null() + E.a_str("s"), chunk=1 << 20))), cls="connect-variants")
    # publish / play argument shapes
    for cmd in ("publish", "play"):
        head = E.a_str(cmd) + E.a_num(3)
        for tail in (b"", E.a_null(), E.a_null() + b"\x02", E.a_null() + E.a_num(1), E.a_num(1), E.a_null() + E.a_str("s") + E.a_num(1),
                     E.a_null() + E.a_str("s") + E.a_str("record"), E.a_null() + E.a_str(b"s" * 65536), b"\x06" + E.a_str("s"),
                     E.a_null() + b"\x0c\x00\x00\x00\x01", E.a_null() + b"\x0c\xff\xff\xff\xff", E.a_null() + b"\x02\xff\xff"):
            yield Case(line(conn_tok + "+" + data_tok(msg(5, E.T_CMD0, 1, head + tail, chunk=1 << 20))), cls="connect-variants")

    # ---- (e) out-of-order and repeated commands --------------------------------------------------------
    av = msg(6, E.T_AUDIO, 1, b"\xaf\x01\x21")
    vd = msg(7, E.T_VIDEO, 1, b"\x27\x01\x00\x00\x00\x01")
    md = msg(5, E.T_DATA0, 1, E.metadata_body())
    pb = msg(5, E.T_CMD0, 1, E.publish_body())
    pl = msg(5, E.T_CMD0, 1, E.play_body())
    pb2 = msg(5, E.T_CMD0, 1, E.publish_body(b"other"))
    cn = msg(3, E.T_CMD0, 0, E.connect_body())
    cs = msg(3, E.T_CMD0, 0, E.create_stream_body())
    orders = [[av], [vd], [md], [cn, av], [cn, vd], [cn, md], [cn, cs, av], [pb], [pl], [pb, av], [pl, av], [cn, pl, av], [cn, pl, vd], [cn, pl, md],
              [cn, pb, pb], [cn, pb, pb2], [cn, pb, pl], [cn, pl, pb], [cn, pl, pl], [cn, cn], [cn, pb, cn, av], [cn, cs, cs, cs], [cn, pb, av, pl, av],
              [cn, pb, av, pb, av], [cs], [cs, pb, av], [cn, pb, md, md, av, vd, cs, av]]
    for seq in orders:
        for pol in ("A", "R"):
            yield Case(line(HS_S + b"".join(seq), pol), cls="out-of-order")
    yield Case(line(HS_S + cn + pb + pb, "N"), cls="out-of-order")

    # ---- aggregates ----------------------------------------------------------------------------------------
    subs = [(E.T_AUDIO, 100, b"\xaf\x01\x02"), (E.T_VIDEO, 140, b"\x27\x01" + rb(30)), (E.T_DATA0, 140, E.metadata_body())]
    good = E.aggregate_body(subs)
    for st in ("fresh", "conn", "pub", "sub"):
        yield Case(line(pre_tok[st] + "+" + data_tok(msg(4, E.T_AGG, 1, good, ts=5000))), cls="aggregate")
    for cut in range(len(good)):
        yield Case(line(pre_tok["pub"] + "+" + data_tok(msg(4, E.T_AGG, 1, good[:cut], ts=5000))), cls="aggregate")
    for sublen in (0, 1, 2, 3, 4, 0xFFFFFF, 0x800000):
        b = bytearray(E.aggregate_body([(E.T_AUDIO, 1, b"\xaf\x01\x02")]))
        b[1:4] = sublen.to_bytes(3, "big")
        yield Case(line(pre_tok["pub"] + "+" + data_tok(msg(4, E.T_AGG, 1, bytes(b)))), cls="aggregate")
    yield Case(line(pre_tok["pub"] + "+" + data_tok(msg(4, E.T_AGG, 1, E.aggregate_body([(E.T_AGG, 0, good), (E.T_SET_CHUNK, 0, b"\0\0\0\1"), (E.T_AUDIO, 0, b"")])))), cls="aggregate")

    # ---- window acknowledgement ----------------------------------------------------------------------------
    c = pub_prefix()
    c.add("winack", 2, E.T_WINACK, 0, struct.pack(">I", 1000))
    c.set_chunk_size(0x100000)
    tok = data_tok(c.bytes())
    for i in range(3 if not thorough else 8):
        tok += "+" + data_tok(E.chunk_header(0, 7, 40 * i, 900002, E.T_VIDEO, 1) + b"\x27\x01") + "+r900000.%d" % i
    tok += "+" + data_tok(ping)
    yield Case(line(tok), cls="ack")
    yield Case(line(tok, "A@0x0:0x%x" % (0xF0000000 - 2600000)), cls="ack")
    c = client().add("winack", 2, E.T_WINACK, 0, struct.pack(">I", 0)).connect()
    yield Case(line(c.bytes()), cls="ack")
    c = client().add("winack", 2, E.T_WINACK, 0, struct.pack(">I", 0xFFFFFFFF)).connect()
    yield Case(line(c.bytes()), cls="ack")

    # acknowledgement bookkeeping preset (hook): the first message after Window Acknowledgement Size sees
    # delta = ReadBytesSum - recvLastAck (uint32) and seqNum + delta around ackSeqMax = 0xf0000000 and around 2^32
    wa = msg(2, E.T_WINACK, 0, struct.pack(">I", 1000))
    trigger = msg(3, 0, 0, b"")                      # any message: the acknowledgement check comes before the dispatch
    pre_b = client().bytes() + wa + trigger
    consumed = len(pre_b)
    for d in (2499999, 2500000, 2500001, 3000000, 0xFFFFFFFF, 0x100000000 + 2500000):
        lastack = (consumed - d) % (1 << 64)
        delta = d & 0xFFFFFFFF
        seqs = {0, 1, 0xF0000000, 0xF0000001, 0xFFFFFFFF, (0xF0000000 - delta) % (1 << 32), (0xF0000001 - delta) % (1 << 32),
                (0xEFFFFFFF - delta) % (1 << 32), (0x100000000 - delta) % (1 << 32), (0xFFFFFFFF - delta) % (1 << 32)}
        for sq in sorted(seqs):
            yield Case(line(data_tok(pre_b + ping), "A@0x%x:0x%x" % (lastack, sq)), cls="ack-wrap")

    # ---- trace logging: RunLoop runs the payload helpers on every completed message -------------------------
    firsts = [0x17, 0x1c, 0x27, 0x2c, 0x90, 0x91, 0x80, 0xaf, 0xa0, 0x2f, 0x00, 0xff]
    for st in ("fresh", "pub"):
        for ty in (E.T_AUDIO, E.T_VIDEO):
            for n in range(7):
                for b0 in firsts:
                    if n == 0 and b0 != firsts[0]:
                        continue
                    body = (bytes([b0]) + b"hvc1\x00\x01")[:n] if b0 & 0x80 and ty == E.T_VIDEO else (bytes([b0]) + bytes(6))[:n]
                    yield Case(line(pre_tok[st] + "+" + data_tok(msg(6 if ty == E.T_AUDIO else 7, ty, 1, body)), "At"), cls="trace")
        subs_t = [(E.T_VIDEO, 0, b""), (E.T_AUDIO, 0, b"\xaf"), (E.T_VIDEO, 0, b"\x17")]
        yield Case(line(pre_tok[st] + "+" + data_tok(msg(4, E.T_AGG, 1, E.aggregate_body(subs_t))), "At"), cls="trace")
    c = pub_prefix().metadata().audio(b"\xaf\x00\x12\x10").video(b"\x17\x00\x00\x00\x00" + rb(40)).video(b"")
    yield Case(line(c.bytes(), "At"), cls="trace", meta=dict(expect=("eof", "conn,newpub:a,av*4,delpub")))
    for cut in range(3074, len(full), 7):
        yield Case(line(data_tok(full[:3073]) + "+" + data_tok(full[3073:cut]), "At"), cls="trace")

    # ---- handshake -----------------------------------------------------------------------------------------
    for v0 in (0, 1, 3, 6, 255):
        yield Case(line(E.c0c1_simple(3, version=v0) + E.c2(4) + cn), cls="handshake")
        yield Case(line(E.c0c1_complex(3, 1, version=v0) + E.c2(4) + cn), cls="handshake")
    for seed in range(40 if not thorough else 400):
        for scheme in (0, 1):
            yield Case(line(E.c0c1_complex(100 + seed, scheme) + E.c2(4) + cn), cls="handshake")
        yield Case(line(E.c0c1_complex(100 + seed, seed & 1, good=False) + E.c2(4)), cls="handshake")
    # digest offset bytes at their extremes
    for scheme in (0, 1):
        base = 8 if scheme == 0 else 772
        for quad in ((0, 0, 0, 0), (255, 255, 255, 255), (255, 255, 218, 0), (255, 255, 217, 0), (255, 255, 219, 0), (1, 0, 0, 0)):
            c1 = bytearray(struct.pack(">I", 0) + b"\x09\x00\x7c\x02" + E.prng(5, 1528))
            c1[base:base + 4] = bytes(quad)
            off = E.digest_offset(c1, scheme)
            c1[off:off + 32] = E.hmac256(E.CLIENT_KEY[:30], bytes(c1[:off]) + bytes(c1[off + 32:]))
            yield Case(line(b"\x03" + bytes(c1) + E.c2(4) + cn), cls="handshake")
    yield Case(line(b"\x03" + bytes(1536) + E.c2(4) + cn), cls="handshake")
    yield Case(line(b"\x03" + b"\xff" * 1536 + E.c2(4) + cn), cls="handshake")

    # ---- (f) pure random bytes ---------------------------------------------------------------------------
    for i in range(60 if not thorough else 1500):
        n = rng.choice([1, 10, 1536, 1537, 3072, 3073, 3074, 3100, 3500, 5000])
        yield Case(line("r%d.%d" % (n, rng.randrange(1 << 16))), cls="random")
    for i in range(400 if not thorough else 6000):
        n = rng.choice([1, 2, 3, 5, 8, 12, 13, 20, 40, 100, 300, 1000])
        st = rng.choice(["fresh", "conn", "pub", "sub"])
        yield Case(line(pre_tok[st] + "+" + data_tok(rb(n))), cls="random")
    # random but chunk-shaped: valid headers with random types and bodies
    for i in range(300 if not thorough else 5000):
        st = rng.choice(["fresh", "conn", "pub", "sub"])
        parts = b""
        for _ in range(rng.randrange(1, 5)):
            ty = rng.choice(hot + [rng.randrange(256)])
            body = rb(rng.choice([0, 1, 2, 3, 4, 5, 6, 9, 11, 12, 20, 130, 300]))
            if ty in (17, 20, 18) and rng.random() < 0.7:
                body = rng.choice([E.connect_body(), E.publish_body(), E.play_body(), E.create_stream_body(), E.metadata_body()])
                if rng.random() < 0.5:
                    body = rng.choice(amf_mutations(rng, body, 6))
                if ty == 17:
                    body = b"\x00" + body
            parts += E.message(rng.choice([2, 3, 5, 6, 64, 320]), ty, rng.choice([0, 1]), body, ts=rng.choice([0, 5, 0xFFFFFF]),
                               chunk=128, fmt=rng.choice([0, 0, 0, 1, 2, 3]))
        yield Case(line(pre_tok[st] + "+" + data_tok(parts), rng.choice("AAR")), cls="random-chunks")

    if thorough:
        # one 16 MiB - 1 message, delivered complete
        c = pub_prefix().set_chunk_size(0xFFFFFF)
        c.raw("big", E.chunk_header(0, 7, 0, 0xFFFFFF, E.T_VIDEO, 1))
        yield Case(line(data_tok(c.bytes()) + "+r%d.%d" % (0xFFFFFF, 77)), cls="big")


# --------------------------------------------------------------------------
def tok_len(tok):
    """length of a bytes token without expanding it"""
    n = 0
    for t in tok.split("+"):
        if t in ("-", ""):
            continue
        n += int(t[1:].split(".")[0]) if t[0] == "r" else len(t) // 2
    return n


# heap bytes a session may allocate while it runs (Go side only, runtime.MemStats.TotalAlloc around RunLoop): everything -
# buffers incl. their growth copies, AMF values, error-level log text (hex dump of the failing message), harness copies
MAX_NEST = 32     # rtmp.Amf0MaxNestingDepth
ALLOC_C1 = 48
ALLOC_C0 = 1 << 20


def split_impl(c, out):
    """the part of the implementation's observation the model also produces (everything but the heap allocation count)"""
    return re.sub(r" alloc=\S+", "", out)


def _field(out, key):
    m = re.search(r"(?:^| )%s=(\S+)" % key, out)
    return m.group(1) if m else None


def nontrivial(c, out):
    hs = _field(out, "hs")
    if hs in (None, "-"):
        return None
    return "%s|%s|%s" % (out.split(" ")[0], _field(out, "sh"), (_field(out, "w") or "")[:12])


def _crashed(out):
    return out.startswith(("panic@", "crash@", "timeout", "not-run")) or "!panic@" in out or out.startswith("panic ")


def oracle(c, out):
    """C04 on the implementation's observation: the connection goroutine neither panicked nor crashed the process
    (the statement of the property); for sessions built by the reference client additionally: the server follows
    the session (handshake mode per the specification, expected observer calls, end of session reported once)."""
    if out.startswith("const-mismatch"):
        return (False, "generator and lal disagree on the version constants: " + out)
    toks0 = c.line.split(" ")
    if len(toks0) > 1 and toks0[1].startswith("N"):
        # an observer that accepts a publisher without installing the media observer breaks the contract of
        # OnNewRtmpPubSession (theorem hypothesis e_install); only model == implementation is checked
        return None
    if _crashed(out):
        return (False, "server terminated by peer bytes: " + out.split(" ")[0])
    af = _field(out, "alloc")
    if af:
        sent = tok_len(c.line.split(" ")[3])
        if int(af, 16) > ALLOC_C1 * sent + ALLOC_C0:
            return (False, "the session allocated %d bytes for %d bytes received (bound %d * received + %d)" % (int(af, 16), sent, ALLOC_C1, ALLOC_C0))
    memf = _field(out, "mem")
    if memf:
        reserved, streams = (int(x, 16) for x in memf.split(":"))
        sent = tok_len(c.line.split(" ")[3])
        if reserved > 3 * sent + 8192 * streams or streams > max(sent, 0):
            return (False, "message buffers hold %d bytes on %d chunk streams for %d bytes received (bound 3*received + 8192*streams)"
                    % (reserved, streams, sent))
    sh = _field(out, "sh") or "-"
    kinds = [k for k in sh.split(",") if k != "-"]
    news = [k for k in kinds if k.startswith("new")]
    dels = [k for k in kinds if k.startswith("del")]
    if len(news) > 1 or len(dels) > 1:
        return (False, "observer told more than once about one session: " + sh)
    if dels:
        want = "newpub:a" if dels[0] == "delpub" else "newsub:a"
        if want not in kinds or kinds.index(want) > kinds.index(dels[0]) or kinds[-1] != dels[0]:
            return (False, "end of session reported without an accepted start: " + sh)
    if news and news[0].endswith(":a") and not dels:
        return (False, "accepted session never reported as ended: " + sh)
    if news and news[0].endswith(":r") and dels:
        return (False, "refused session reported as ended: " + sh)
    if news and "conn" in kinds[kinds.index(news[0]):]:
        return (False, "connect notification for a session that already has a role: " + sh)
    if any(k.startswith("av") for k in kinds) and "newpub:a" not in kinds:
        return (False, "media delivered without a publish: " + sh)
    data = None
    want = (c.meta or {}).get("outcome") if hasattr(c, "meta") else None
    if want and out.split(" ")[0] != want:
        return (False, "command with nested containers: want %s, got %s" % (want, out.split(" ")[0]))
    exp = (c.meta or {}).get("expect") if hasattr(c, "meta") else None
    if exp:
        if out.split(" ")[0] != exp[0] or sh != exp[1]:
            return (False, "valid session not followed: want %s %s, got %s %s" % (exp[0], exp[1], out.split(" ")[0], sh))
    toks = c.line.split(" ")
    if len(toks) == 4 and "+" not in toks[3] and not toks[3].startswith("r") and len(toks[3]) >= 2 * 1537:
        data = tok_bytes(toks[3])
        hs = _field(out, "hs") or "-"
        if hs != "-" and hs.split(":")[0] != E.server_mode(data[:1537]):
            return (False, "handshake mode %s, the specification's digest check says %s" % (hs.split(":")[0], E.server_mode(data[:1537])))
    return (True, "")


def classify_finding(c, out):
    return None


def neighbors(c, rng):
    toks = c.line.split(" ")
    parts = toks[3].split("+")
    last = parts[-1]
    if last.startswith("r") or last == "-":
        return
    b = bytearray(tok_bytes(last))
    pre = "+".join(parts[:-1])
    for _ in range(60):
        m = bytearray(b)
        r = rng.random()
        if r < 0.4 and len(m):
            m = m[:rng.randrange(len(m))]
        elif r < 0.8 and len(m):
            m[rng.randrange(len(m))] = rng.randrange(256)
        else:
            m += bytes(rng.randrange(256) for _ in range(rng.randrange(1, 8)))
        yield " ".join(toks[:3] + [(pre + "+" if pre else "") + hex_tok(bytes(m))])


# --------------------------------------------------------------------------
def _rss_of(exe, lines):
    """peak RSS (MiB) of one fresh lalprobe process that runs `lines`, as the process itself reads it from
    /proc/self/status (ru_maxrss of a forked child starts at the RSS of the python parent)"""
    import threading
    p = subprocess.Popen([exe], stdin=subprocess.PIPE, stdout=subprocess.PIPE, stderr=subprocess.DEVNULL)
    out = []
    t = threading.Thread(target=lambda: out.append(p.stdout.read()))
    t.start()
    p.stdin.write(("\n".join(list(lines) + ["c04.rss"]) + "\n").encode())
    p.stdin.close()
    t.join()
    p.wait()
    txt = out[0].decode()
    last = [x for x in txt.split("\n") if x.startswith("rss ")]
    return (int(last[-1].split()[1]) / 1024.0 if last else -1.0), txt


def declared_case(n):
    """one connection that declares a 16 MiB message on n chunk stream ids (a 12..14-byte header and 128 body bytes
    each) and then stays open"""
    many = b"".join(E.chunk_header(0, 64 + i, 0, 0xFFFFFF, E.T_VIDEO, 1) + bytes(128) for i in range(n))
    return line(data_tok(pub_prefix().bytes()) + "+" + data_tok(many)), len(many)


# peak RSS allowed for a lalprobe process that runs the declared-length cases (measured after the repair of
# F-C04-5: 10..50 MiB, most of it the Go runtime and the harness; with the declared length reserved again on type-0 headers only: 206 MiB for 4096 ids, 379 MiB for the sequence; before the repair 5.4 GiB)
RSS_LIMIT_MIB = 150


def _rss_guard(ctx, cases, violations, notes):
    base, _ = _rss_of(ctx["probe"], [])
    rows = []
    for n in (1, 64, 512, 4096):
        l, sent = declared_case(n)
        t0 = time.time()
        rss, txt = _rss_of(ctx["probe"], [l])
        rows.append((n, sent, rss, txt.split(" ")[0], _field(txt.split("\n")[0], "mem")))
    mem = [c.line for c in cases if c.cls in ("big-decl", "chunk-size", "chunk-forms")]
    t0 = time.time()
    seq, _ = _rss_of(ctx["probe"], mem)
    notes.append("memory (measured): idle lalprobe %.0f MiB; one connection declaring a 16 MiB message on n chunk stream ids: %s; "
                 "one process running the %d declared-length cases in sequence (16 MiB declared on up to 400 ids, Set Chunk Size "
                 "0xFFFFFFFF, shrinking headers; heap reuse included): %.0f MiB in %.1f s; limit %d MiB"
                 % (base, "; ".join("n=%d (%d bytes sent): %.0f MiB, reserved:streams=%s" % (n, sent, rss, m) for n, sent, rss, _, m in rows),
                    len(mem), seq, time.time() - t0, RSS_LIMIT_MIB))
    worst = max([seq] + [r[2] for r in rows])
    if worst > RSS_LIMIT_MIB:
        path = vf.write_replay(ctx["prop"], dict(property=ctx["prop"], case=declared_case(512)[0], oracle=False,
                                                why="peak RSS %.0f MiB on the declared-length cases exceeds %d MiB: memory is no longer "
                                                    "proportional to the bytes received" % (worst, RSS_LIMIT_MIB)))
        violations.append(("oracle", "memory regression: peak RSS %.0f MiB > %d MiB" % (worst, RSS_LIMIT_MIB), path, False))


def run(ctx, cases, cov, violations, known_hits, notes):
    vf.generic_diff(__import__("gen.c04", fromlist=["x"]), ctx, cases, cov, violations, known_hits, notes)
    if ctx["tier"] == "thorough":
        _rss_guard(ctx, cases, violations, notes)
