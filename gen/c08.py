# C08 - RTMP chunk stream encode/decode is exact for every size, timestamp and chunking.
#
# Reference encoder / decoder below are written from the Adobe RTMP 1.0
# specification (5.3.1 chunk format, 5.4.1 Set Chunk Size, 7.1.6 aggregate
# message), not from lal.
from lib.vf import Case
from gen.common import *

ID = "C08"
RULE = ("writer: boundary sweep chunk size {1,2,3,127,128,129,4095,4096,4097,65536} x length {0,1,c-1,c,c+1,2c,2c+1} x "
        "timestamp {0,1,0xFFFFFE,0xFFFFFF,0x1000000,2^32-1} x csid {2,3,63,64,65,319,320,65599} through message2Chunks and back "
        "through ChunkComposer.RunLoop, previous-header compression sweep, message sequences; reader: random legal chunkings from a "
        "python reference encoder (all four header formats, 1/2/3-byte basic headers, interleaved chunk streams, Set Chunk Size at "
        "any point, aggregate messages, extended absolute timestamps) plus truncations and byte mutations of them; the extracted "
        "reference decoder (Coq) is compared with lal's reader on the legal streams; reader histories over 65..300 distinct chunk stream ids each first opened by a type 0 message and later addressed by type 1/2/3 headers; MessagePacker: every signalling writer and ChunkAndWrite itself on one reused packer over body lengths around multiples of LocalChunkSize, csid/type/msid combinations, stream names up to 70000 bytes, transaction ids up to 2^62, decoded by the python reference reader and read back by ChunkComposer; a case is non-trivial when the model output "
        "is not an error and its (op, class, size class) key is new")
ASSUMPTIONS = ["flashVer / version strings of the tree are lal0.37.4 / 0,37,4 (constants of gen/c08.py; a version bump needs them updated)",
               "messages of 2^24-1 bytes are exercised in the thorough tier only",
               "timestamp deltas in type 1/2 chunk headers below 0xFFFFFF (extended deltas are outside the property)",
               "the 4-byte field of a type 3 chunk repeats the message's absolute timestamp"]
FULL_OUTPUT = True

ESC = 0xFFFFFF
T_SCS, T_AGG = 1, 22


# ---------------------------------------------------------------- reference writer (5.3.1)
def ref_basic(fmt, csid, wide=False):
    if 2 <= csid <= 63 and not wide:
        return bytes([(fmt << 6) | csid])
    if 64 <= csid <= 319 and not wide:
        return bytes([fmt << 6, csid - 64])
    assert 64 <= csid <= 65599
    return bytes([(fmt << 6) | 1, (csid - 64) & 0xFF, (csid - 64) >> 8])


class RefEncoder:
    """A conforming chunk stream writer.  Every choice the specification leaves
    open is an argument: header format, basic header width, which chunk stream
    sends its next chunk."""

    def __init__(self, chunk):
        self.chunk = chunk
        self.mem = {}       # csid -> dict(ts, delta, len, type, msid, ext, open=(msg, rest) | None)
        self.out = bytearray()
        self.done = []      # completed messages (csid, type, msid, ts, payload)

    def allowed_formats(self, m):
        csid, ty, msid, ts, p = m
        e = self.mem.get(csid)
        ok = [0]
        if e is None or e["open"] is not None:
            return ok if e is None else []
        delta = (ts - e["ts"]) % (1 << 32)
        if msid == e["msid"] and delta < ESC:
            ok.append(1)
            if len(p) == e["len"] and ty == e["type"]:
                ok.append(2)
                if delta == e["delta"] and not e["ext"]:
                    ok.append(3)
        return ok

    def _complete(self, m):
        self.done.append(m)
        if m[1] == T_SCS and len(m[4]) >= 4:
            self.chunk = int.from_bytes(m[4][:4], "big") & 0x7FFFFFFF

    def start(self, m, fmt, wide=False):
        csid, ty, msid, ts, p = m
        assert fmt in self.allowed_formats(m)
        e = self.mem.get(csid)
        out = bytearray(ref_basic(fmt, csid, wide))
        ext = False
        if fmt == 0:
            ext = ts >= ESC
            out += (ESC if ext else ts).to_bytes(3, "big") + len(p).to_bytes(3, "big") + bytes([ty]) + msid.to_bytes(4, "little")
            if ext:
                out += ts.to_bytes(4, "big")
            delta = ts
        else:
            delta = (ts - e["ts"]) % (1 << 32)
            if fmt == 1:
                out += delta.to_bytes(3, "big") + len(p).to_bytes(3, "big") + bytes([ty])
            elif fmt == 2:
                out += delta.to_bytes(3, "big")
        data, rest = p[:self.chunk], p[self.chunk:]
        out += data
        self.out += out
        self.mem[csid] = dict(ts=ts, delta=delta, len=len(p), type=ty, msid=msid, ext=ext, open=(m, rest) if rest else None)
        if not rest:
            self._complete(m)

    def cont(self, csid, wide=False):
        e = self.mem[csid]
        m, rest = e["open"]
        out = bytearray(ref_basic(3, csid, wide))
        if e["ext"]:
            out += e["ts"].to_bytes(4, "big")
        data, rest = rest[:self.chunk], rest[self.chunk:]
        out += data
        self.out += out
        e["open"] = (m, rest) if rest else None
        if not rest:
            self._complete(m)

    def open_csids(self):
        return [c for c, e in self.mem.items() if e["open"] is not None]


def ref_aggregate_body(subs, rng=None):
    """subs: list of (type, ts, payload); the 3-byte stream id of each sub header is ignored by receivers"""
    b = bytearray()
    for ty, ts, p in subs:
        sid = rng.randrange(1 << 24) if rng is not None else 0
        b += bytes([ty]) + len(p).to_bytes(3, "big") + (ts & 0xFFFFFF).to_bytes(3, "big") + bytes([ts >> 24]) + sid.to_bytes(3, "big")
        b += p + (11 + len(p)).to_bytes(4, "big")
    return bytes(b)


# ---------------------------------------------------------------- reference reader (5.3.1), strict
class NonConforming(Exception):
    pass


class Truncated(Exception):
    pass


def ref_split_aggregate(m):
    csid, ty, msid, ts, p = m
    out = []
    i = 0
    first = None
    while i < len(p):
        if len(p) - i < 11:
            raise NonConforming("aggregate: short sub-message header")
        sty = p[i]
        slen = int.from_bytes(p[i + 1:i + 4], "big")
        sts = int.from_bytes(p[i + 4:i + 7], "big") | (p[i + 7] << 24)
        i += 11
        if len(p) - i < slen + 4:
            raise NonConforming("aggregate: short sub-message body / back pointer")
        if first is None:
            first = sts
        # 7.1.6: the aggregate's message stream id overrides the sub-message's;
        # timestamps are renormalised by (aggregate ts - first sub ts)
        out.append((csid, sty, msid, (ts + sts - first) % (1 << 32), p[i:i + slen]))
        i += slen + 4
    return out


def ref_decode(data, chunk, strict=True):
    """returns (delivered messages, chunk size, open csids); raises Truncated / NonConforming"""
    mem = {}
    out = []
    i = 0
    n = len(data)

    def need(k):
        if n - i < k:
            raise Truncated()

    while i < n:
        b0 = data[i]
        fmt, cs = b0 >> 6, b0 & 0x3F
        i += 1
        if cs == 0:
            need(1)
            csid = data[i] + 64
            i += 1
        elif cs == 1:
            need(2)
            csid = data[i + 1] * 256 + data[i] + 64
            i += 2
        else:
            csid = cs
        e = mem.get(csid)
        if fmt != 3 and e is not None and e["open"]:
            raise NonConforming("type %d header inside a message" % fmt)
        if fmt != 0 and e is None:
            raise NonConforming("type %d header on a fresh chunk stream" % fmt)
        if fmt == 0:
            need(11)
            f = int.from_bytes(data[i:i + 3], "big")
            ln = int.from_bytes(data[i + 3:i + 6], "big")
            ty = data[i + 6]
            msid = int.from_bytes(data[i + 7:i + 11], "little")
            i += 11
            ext = f == ESC
            ts = f
            if ext:
                need(4)
                ts = int.from_bytes(data[i:i + 4], "big")
                i += 4
                if strict and ts < ESC:
                    raise NonConforming("extended timestamp below 0xFFFFFF")
            e = dict(ts=ts, delta=ts, len=ln, type=ty, msid=msid, ext=ext, open=True, buf=bytearray())
        elif fmt in (1, 2):
            need(7 if fmt == 1 else 3)
            f = int.from_bytes(data[i:i + 3], "big")
            if fmt == 1:
                ln = int.from_bytes(data[i + 3:i + 6], "big")
                ty = data[i + 6]
                i += 7
            else:
                ln, ty = e["len"], e["type"]
                i += 3
            ext = f == ESC
            delta = f
            if ext:
                if strict:
                    raise NonConforming("extended timestamp delta (outside the property)")
                need(4)
                delta = int.from_bytes(data[i:i + 4], "big")
                i += 4
            e = dict(ts=(e["ts"] + delta) % (1 << 32), delta=delta, len=ln, type=ty, msid=e["msid"], ext=ext, open=True, buf=bytearray())
        else:
            if e["ext"]:
                need(4)
                v = int.from_bytes(data[i:i + 4], "big")
                i += 4
                if strict and e["open"] and v != e["ts"]:
                    raise NonConforming("type 3 extended timestamp differs from the message timestamp")
            if not e["open"]:
                if strict and (e["ext"] or e["delta"] >= ESC):
                    raise NonConforming("type 3 starts a message after an extended timestamp (outside the property)")
                e = dict(e, ts=(e["ts"] + e["delta"]) % (1 << 32), open=True, buf=bytearray())
        mem[csid] = e
        k = min(chunk, e["len"] - len(e["buf"]))
        need(k)
        e["buf"] += data[i:i + k]
        i += k
        if len(e["buf"]) == e["len"]:
            m = (csid, e["type"], e["msid"], e["ts"], bytes(e["buf"]))
            e["open"] = False
            e["buf"] = bytearray()
            if m[1] == T_SCS:
                if strict and len(m[4]) != 4:
                    raise NonConforming("Set Chunk Size payload is not 4 bytes")
                if len(m[4]) >= 4:
                    v = int.from_bytes(m[4][:4], "big")
                    if strict and not (1 <= v < (1 << 31)):
                        raise NonConforming("Set Chunk Size value out of range")
                    chunk = v & 0x7FFFFFFF
            if m[1] == T_AGG:
                out += ref_split_aggregate(m)
            else:
                out.append(m)
    return out, chunk, dict((c, bytes(e["buf"])) for c, e in mem.items() if e["open"])


# ---------------------------------------------------------------- case text helpers
def msg_tok(m):
    return "%d:%d:%d:%d:%s" % (m[0], m[1], m[2], m[3], m[4] if isinstance(m[4], str) else hex_tok(m[4]))


def parse_msgs(tok):
    if tok == "-":
        return []
    out = []
    for it in tok.split(","):
        c, t, m, ts, p = it.split(":")
        out.append((num(c), num(t), num(m), num(ts), tok_bytes(p)))
    return out


def parse_rd(fields):
    """fields of a c08.rd style output: err chunk n msgs streams"""
    err, chunk, n, msgs, streams = fields[0], num(fields[1]), int(fields[2]), fields[3], fields[4]
    ms = []
    if msgs != "-":
        for it in msgs.split(","):
            c, ln, ty, msid, ts, raw, p = it.split(":")
            ms.append(dict(csid=num(c), len=num(ln), type=num(ty), msid=num(msid), ts=num(ts), payload=tok_bytes(p)))
    ss = []
    if streams != "-":
        for it in streams.split(","):
            k, c, ln, ty, msid, ts, raw, ab, buf = it.split(":")
            ss.append(dict(key=num(k), csid=num(c), len=num(ln), type=num(ty), msid=num(msid), ts=num(ts), raw=num(raw), abs=ab == "1",
                           buf=tok_bytes(buf)))
    return err, chunk, n, ms, ss


def in_domain(m):
    return 2 <= m[0] <= 65599 and m[1] < 256 and m[2] < (1 << 32) and m[3] < (1 << 32) and len(m[4]) < (1 << 24)


def same_msgs(lal, want):
    if len(lal) != len(want):
        return "lal's reader delivers %d messages, %d expected" % (len(lal), len(want))
    for k, (g, w) in enumerate(zip(lal, want)):
        if (g["csid"], g["type"], g["msid"], g["ts"]) != w[:4]:
            return "message %d: header (csid,type,msid,ts)=%r, expected %r" % (k, (g["csid"], g["type"], g["msid"], g["ts"]), w[:4])
        if g["len"] != len(w[4]):
            return "message %d: MsgLen %d, expected %d" % (k, g["len"], len(w[4]))
        if g["payload"] != w[4]:
            return "message %d: payload differs (got %d bytes, expected %d)" % (k, len(g["payload"]), len(w[4]))
    return None


def expected_delivery(msgs):
    out = []
    for m in msgs:
        out += ref_split_aggregate(m) if m[1] == T_AGG else [m]
    return out


# ---------------------------------------------------------------- oracle
def oracle(c, out):
    f = c.line.split(" ")
    op = f[0]
    if out.startswith(("crash@", "timeout")):
        return (False, "implementation crashed: " + out)
    try:
        if op == "c08.seq":
            chunk = num(f[1])
            msgs = parse_msgs(f[2])
            if chunk < 1 or not all(in_domain(m) for m in msgs) or any(m[1] in (T_SCS, T_AGG) for m in msgs):
                return None
            if out.startswith("panic@"):
                return (False, "implementation panicked: " + out)
            o = out.split(" ")
            data = tok_bytes(o[0])
            # (1) a specification-conforming reader
            try:
                got, _, opened = ref_decode(data, chunk, strict=False)
            except Truncated:
                return (False, "reference reader: lal's chunk stream ends inside a chunk")
            except NonConforming as e:
                return (False, "reference reader: lal's chunk stream is not conforming: %s" % e)
            if got != msgs or opened:
                return (False, "reference reader decodes %d messages %r.., written %d" % (len(got), [g[:4] for g in got[:3]], len(msgs)))
            # (2) lal's own reader
            err, ch, n, ms, ss = parse_rd(o[1:])
            why = same_msgs(ms, msgs)
            if why:
                return (False, "lal cannot read its own output: " + why)
            if err != "eof":
                return (False, "lal's reader ends with %s on its own output" % err)
            if any(s["buf"] or s["abs"] for s in ss):
                return (False, "lal's reader is not idle after its own output")
            return (True, "")
        if op == "c08.w2c":
            if out.startswith("panic@"):
                return (False, "implementation panicked: " + out) if num(f[1]) >= 1 else None
            p = tok_bytes(f[7])
            if f[8] != "-" or (f[3] != "-" and num(f[3]) != len(p)) or num(f[1]) < 1:
                return None
            m = (num(f[2]), num(f[4]), num(f[5]), num(f[6]), p)
            if not in_domain(m) or m[1] in (T_SCS, T_AGG):
                return None
            try:
                got, _, opened = ref_decode(tok_bytes(out), num(f[1]), strict=False)
            except (Truncated, NonConforming) as e:
                return (False, "reference reader rejects lal's chunk stream: %r" % e)
            return (got == [m] and not opened, "reference reader decodes %r.. instead of the written message" % ([g[:4] for g in got[:2]],))
        if op in ("c08.rd", "c08.ref"):
            if out.startswith("panic@"):
                return (False, "implementation panicked: " + out)
            peer = num(f[1])
            data = tok_bytes(f[-1])
            if peer < 1:
                return None
            try:
                want, chunk, opened = ref_decode(data, peer, strict=True)
            except (Truncated, NonConforming):
                return None     # not a (complete) conforming chunk stream: the property says nothing
            o = out.split(" ")
            if op == "c08.ref":
                if o[0] != "ok":
                    return (False, "lal's reader fails on a conforming chunk stream")
                got = parse_msgs(o[2])
                return (got == want, "lal's reader delivers %r.., conforming stream carries %r.." % ([g[:4] for g in got[:3]], [g[:4] for g in want[:3]]))
            err, ch, n, ms, ss = parse_rd(o)
            why = same_msgs(ms, want)
            if why:
                return (False, "conforming chunk stream, " + why)
            if err != "eof":
                return (False, "lal's reader ends with %s on a conforming chunk stream" % err)
            if ch != chunk:
                return (False, "peer chunk size %d, expected %d" % (ch, chunk))
            busy = dict((s["key"], s["buf"]) for s in ss if s["buf"])
            if busy != opened:
                return (False, "chunk streams %r hold a partial message, expected %r" % (sorted(busy), sorted(opened)))
            if any(s["abs"] for s in ss if s["key"] not in opened):
                return (False, "an idle chunk stream keeps absTsFlag set")
            return (True, "")
        if op == "c08.pk":
            cmds = f[1].split("|")
            exp = [pk_expected(c) for c in cmds]
            if any(e is None for e in exp):
                return None          # outside the domain (csid > 63 on the single chunk path, aggregate type, ...)
            if "panic@" in out:
                return (False, "MessagePacker panicked: " + out)
            o = out.split(" ")
            wires = o[0].split(",")
            if len(wires) != len(cmds):
                return (False, "packer produced %d messages for %d writers" % (len(wires), len(cmds)))
            for c, e, w in zip(cmds, exp, wires):
                try:
                    got, _, opened = ref_decode(tok_bytes(w), 4096, strict=False)
                except (Truncated, NonConforming) as ex:
                    return (False, "reference reader rejects what `%s` wrote: %r" % (short_cmd(c), ex))
                if opened or len(got) != 1:
                    return (False, "`%s` wrote %d messages (open: %r)" % (short_cmd(c), len(got), sorted(opened)))
                g = got[0]
                if g[:4] != (e[0], e[1], e[2], 0):
                    return (False, "`%s` is on the wire as (csid,type,msid,ts)=%r, must be %r" % (short_cmd(c), g[:4], (e[0], e[1], e[2], 0)))
                if g[4] != e[3]:
                    return (False, "`%s`: body on the wire differs (%d bytes, expected %d)" % (short_cmd(c), len(g[4]), len(e[3])))
            # lal's own reader on the whole session (its peer was told chunk size 4096)
            if all(e[1] != T_SCS or e[3] == (4096).to_bytes(4, "big") for e in exp):
                err, ch, n, ms, ss = parse_rd(o[1:])
                why = same_msgs(ms, [(e[0], e[1], e[2], 0, e[3]) for e in exp])
                if why:
                    return (False, "lal cannot read what its MessagePacker wrote: " + why)
                if err != "eof" or any(s_["buf"] or s_["abs"] for s_ in ss):
                    return (False, "lal's reader ends with %s / not idle on its MessagePacker's output" % err)
            return (True, "")
        if op == "c08.sch":
            csid, ln, ty, msid = [num(x) for x in f[1:5]]
            if not (2 <= csid <= 63 and ln <= 4096 and ty < 256 and msid < (1 << 32)) or ty in (T_SCS, T_AGG):
                return None
            if out.startswith("panic@"):
                return (False, "implementation panicked: " + out)
            try:
                got, _, opened = ref_decode(tok_bytes(out) + bytes(ln), 4096, strict=True)
            except (Truncated, NonConforming) as e:
                return (False, "reference reader rejects the single chunk header: %r" % e)
            return (got == [(csid, ty, msid, 0, bytes(ln))], "single chunk header decodes to %r" % ([g[:4] for g in got],))
    except ValueError as e:
        return (False, "unparsable output: %s" % e)
    return None


def nontrivial(c, out):
    if out.startswith(("err", "bad", "model-", "unknown", "panic", "none")):
        return None
    f = c.line.split(" ")
    return "%s|%s|%d" % (f[0], c.cls, len(c.line).bit_length())



# ---------------------------------------------------------------- MessagePacker: what each writer must put on the wire
# AMF0 (amf0-file-format-specification) and the RTMP 1.0 command / control message layouts (5.4, 7.1.7, 7.2)
import struct
FLASH_PUSH = b"FMLE/3.0 (compatible; lal0.37.4)"      # base.LalRtmpPushSessionConnectVersion of the tree
FLASH_PULL = b"LNX 9,0,124,2"
RESULT_VERSION = b"0,37,4"                             # base.LalRtmpConnectResultVersion


def a_str(b):
    return (b"\x02" + struct.pack(">H", len(b)) if len(b) < 65536 else b"\x0c" + struct.pack(">I", len(b))) + b


def a_num(x):
    return b"\x00" + struct.pack(">d", float(x))


def a_obj(pairs):
    out = b"\x03"
    for k, v in pairs:
        out += struct.pack(">H", len(k)) + k
        out += a_str(v) if isinstance(v, bytes) else (b"\x01" + bytes([1 if v else 0]) if isinstance(v, bool) else a_num(v))
    return out + b"\x00\x00\x09"


def short_cmd(c):
    return c if len(c) < 60 else c[:57] + "..."


def pk_expected(cmd):
    """(csid, type id, message stream id, body) the writer must produce; None = outside the property's domain"""
    f = cmd.split(":")
    n = lambda i: num(f[i])
    b = lambda i: tok_bytes(f[i])
    k = f[0]
    u32 = lambda v: (v & 0xFFFFFFFF).to_bytes(4, "big")
    if k == "cs":
        return (2, 1, 0, u32(n(1)))
    if k == "was":
        return (2, 5, 0, u32(n(1)))
    if k == "pbw":
        return (2, 6, 0, u32(n(1)) + bytes([n(2) & 0xFF]))
    if k == "connect":
        if b(3) != (FLASH_PUSH if f[4] == "1" else FLASH_PULL):
            return None
        return (3, 20, 0, a_str(b"connect") + a_num(1) + a_obj([(b"app", b(1)), (b"type", b"nonprivate"), (b"flashVer", b(3)),
                                                                 (b"fpad", False), (b"tcUrl", b(2))]))
    if k == "cres":
        if b(3) != RESULT_VERSION:
            return None
        return (3, 20, 0, a_str(b"_result") + a_num(n(1)) + a_obj([(b"fmsVer", b"FMS/3,0,1,123"), (b"capabilities", 31)])
                + a_obj([(b"level", b"status"), (b"code", b"NetConnection.Connect.Success"), (b"description", b"Connection succeeded."),
                         (b"objectEncoding", n(2)), (b"version", b(3))]))
    if k == "cstream":
        return (3, 20, 0, a_str(b"createStream") + a_num(2) + b"\x05")
    if k == "csres":
        return (3, 20, 0, a_str(b"_result") + a_num(n(1)) + b"\x05" + a_num(1))
    if k == "play":
        return (5, 20, n(2), a_str(b"play") + a_num(3) + b"\x05" + a_str(b(1)))
    if k == "publish":
        return (5, 20, n(2), a_str(b"publish") + a_num(3) + b"\x05" + a_str(b(1)) + a_str(b"live"))
    if k in ("ospub", "osplay"):
        code, desc = (b"NetStream.Publish.Start", b"Start publishing") if k == "ospub" else (b"NetStream.Play.Start", b"Start live")
        return (5, 20, n(1), a_str(b"onStatus") + a_num(0) + b"\x05" + a_obj([(b"level", b"status"), (b"code", code), (b"description", desc)]))
    if k in ("rec", "begin", "pingreq", "pingresp"):
        return (2, 4, 0, {"rec": 4, "begin": 0, "pingreq": 6, "pingresp": 7}[k].to_bytes(2, "big") + u32(n(1)))
    if k == "ack":
        return (2, 3, 0, u32(n(1)))
    if k == "raw":
        csid, ty, msid, body = n(1), n(2), n(3), b(4)
        if not (2 <= csid <= 63 and ty < 256 and msid < (1 << 32)) or ty in (T_AGG,) or (ty == T_SCS and len(body) != 4):
            return None
        return (csid, ty, msid, body)
    return None


def gen_packer(tier, rng):
    thorough = tier == "thorough"
    fvp, fvl, ver = hex_tok(FLASH_PUSH), hex_tok(FLASH_PULL), hex_tok(RESULT_VERSION)
    C = 4096
    # ChunkAndWrite itself: body lengths around every multiple of the chunk size x csid x type x msid
    combos = [(cs, ty, ms) for cs in (2, 3, 5, 63) for ty in (20, 18, 9, 4) for ms in (0, 1, 5, 0xFFFFFFFF)]
    lens = [0, 1, 2, C - 1, C, C + 1, C + 2, 2 * C - 1, 2 * C, 2 * C + 1, 3 * C, 3 * C + 1] + ([16 * C, 16 * C + 1, 70000] if thorough else [])
    k = 0
    for ln in lens:
        for j in range(len(combos) if thorough else 6):
            cs, ty, ms = combos[(k * 7 + j * 5) % len(combos)]
            k += 1
            yield Case("c08.pk raw:%d:%d:%d:%s" % (cs, ty, ms, payload_tok(rng, ln)), cls="pk-raw")
    for cs in (0, 1, 64, 65, 319, 320, 65599):
        yield Case("c08.pk raw:%d:20:1:r10.1|raw:%d:20:1:r5000.2" % (cs, cs), cls="pk-raw-csid")
    # play / publish: stream names (with url parameters) around the chunk size, the AMF0 long-string limit
    for msid in (1, 0, 2, 0xFFFFFFFF):
        for nlen in [0, 1, 10, C - 21, C - 20, C - 19, C - 31, C - 30, C - 29, 2 * C - 20, 2 * C - 19, 5000] + \
                    ([65535, 65536, 70000] if (thorough or msid == 1) else []):
            name = payload_tok(rng, nlen)
            yield Case("c08.pk play:%s:%d" % (name, msid), cls="pk-play")
            yield Case("c08.pk publish:%s:%d" % (name, msid), cls="pk-publish")
    # connect: long app / tcUrl
    for nlen in [0, 4, C - 140, C - 120, C - 100, C, 2 * C, 65536]:
        a = payload_tok(rng, nlen)
        yield Case("c08.pk connect:%s:72746d70:%s:1" % (a, fvp), cls="pk-connect")
        yield Case("c08.pk connect:6c697665:%s:%s:0" % (a, fvl), cls="pk-connect")
    # numbers: transaction ids, object encoding, control values
    for v in [0, 1, 2, 3, 4, 5, 31, 255, 65536, (1 << 31) - 1, 1 << 31, (1 << 32) - 1, (1 << 53) + 1, (1 << 62) - 1]:
        yield Case("c08.pk cres:%d:%d:%s|csres:%d" % (v, [0, 3, v][v % 3], ver, v), cls="pk-result")
        w = v & 0xFFFFFFFF
        yield Case("c08.pk was:%d|pbw:%d:%d|rec:%d|begin:%d|pingreq:%d|ack:%d|pingresp:%d|ospub:%d|osplay:%d" % (w, w, v % 3, w, w, w, w, w, w, w),
                   cls="pk-control")
        yield Case("c08.pk cs:%d" % w, cls="pk-control")
    # whole sessions on one packer (the buffer is reused and has grown)
    for i in range(40 if not thorough else 400):
        big = payload_tok(rng, rng.choice([10, 100, 4000, 4076, 4077, 5000, 9000]))
        small = payload_tok(rng, rng.choice([1, 8, 30]))
        if i % 2 == 0:
            line = "cs:4096|connect:%s:%s:%s:%d|cstream|%s" % (small, payload_tok(rng, rng.choice([20, 200, 4500])), fvp if i % 4 == 0 else fvl,
                                                                1 if i % 4 == 0 else 0,
                                                                ("publish:%s:1" if i % 4 == 0 else "play:%s:1") % big)
        else:
            line = "was:5000000|pbw:5000000:2|cs:4096|cres:1:%d:%s|csres:%d|begin:1|%s|raw:5:18:1:%s" % (
                rng.choice([0, 3]), ver, rng.choice([2, 4]), "ospub:1" if i % 4 == 1 else "rec:1|osplay:1", big)
        yield Case("c08.pk " + line, cls="pk-session")

# ---------------------------------------------------------------- generators
CHUNKS = [1, 2, 3, 127, 128, 129, 4095, 4096, 4097, 65536]
TSS = [0, 1, 0xFFFFFE, 0xFFFFFF, 0x1000000, 0xFFFFFFFF]
CSIDS = [2, 3, 63, 64, 65, 319, 320, 65599]


def lens_for(c):
    return sorted(set([0, 1, max(c - 1, 0), c, c + 1, 2 * c, 2 * c + 1]))


def random_legal_stream(rng, big=False):
    """a random legal chunking by the reference writer; returns (start chunk size, bytes, description class)"""
    chunk0 = rng.choice([1, 2, 3, 5, 16, 31, 64, 127, 128, 129, 200] + ([4096, 65536] if big else []))
    enc = RefEncoder(chunk0)
    csids = rng.sample([2, 3, 4, 5, 6, 7, 63, 64, 65, 319, 320, 321, 1000, 65599], rng.choice([1, 1, 2, 3, 4]))
    last_ts = {}
    last = {}
    nmsg = rng.choice([1, 2, 3, 5, 8, 12])
    pending = []
    feats = set()
    for _ in range(nmsg):
        csid = rng.choice(csids)
        r = rng.random()
        prev = last.get(csid)
        base = last_ts.get(csid, rng.choice([0, 1, 1000, ESC - 50, ESC - 1, ESC, ESC + 1, 0x1000000, 0xFFFFFF00, 0xFFFFFFFF]))
        ts = (base + rng.choice([0, 0, 1, 20, 40, 40, 1000, ESC - 1, ESC, 0x2000000])) % (1 << 32) if rng.random() < 0.85 else rng.randrange(1 << 32)
        if r < 0.08:
            # Set Chunk Size (protocol control: chunk stream 2, message stream 0) - may be sent while others are open
            v = rng.choice([1, 2, 3, 64, 128, 129, 255, 256, 1000, 4096, 65536, 0x7FFFFFFF])
            m = (2, T_SCS, 0, rng.choice([0, ts]), v.to_bytes(4, "big"))
            feats.add("scs")
        elif r < 0.18:
            subs = []
            t0 = rng.choice([0, ts, rng.randrange(1 << 32)])
            for k in range(rng.choice([0, 1, 2, 3, 6])):
                subs.append((rng.choice([8, 9, 18]), (t0 + rng.choice([0, 1, 40, 1000, 0x1000000]) * k) % (1 << 32),
                             bytes(rng.randrange(256) for _ in range(rng.choice([0, 1, 5, 40, 300])))))
            m = (csid, T_AGG, rng.choice([0, 1, 5]), ts, ref_aggregate_body(subs, rng))
            feats.add("agg")
        else:
            if prev is not None and rng.random() < 0.6:
                ty, msid = prev[1], prev[2]
                n = len(prev[4]) if rng.random() < 0.6 else rng.choice([0, 1, 7, 100, 129, 300, 1000])
            else:
                ty, msid = rng.choice([8, 9, 18, 20, 3, 4]), rng.choice([0, 1, 1, 5, 0xFFFFFFFF])
                n = rng.choice([0, 1, 2, 7, 100, 127, 128, 129, 256, 300, 1000] + ([5000, 70000] if big else []))
            m = (csid, ty, msid, ts, bytes(rng.randrange(256) for _ in range(n)))
        pending.append(m)
    # emit with random interleaving
    queue = list(pending)
    while queue or enc.open_csids():
        opened = enc.open_csids()
        startable = [m for m in queue if m[0] not in opened]
        # keep per-csid order: only the first queued message of each csid may start
        firsts = []
        seen = set()
        for m in queue:
            if m[0] not in seen:
                seen.add(m[0])
                if m[0] not in opened:
                    firsts.append(m)
        if firsts and (not opened or rng.random() < 0.5):
            m = firsts[0] if rng.random() < 0.7 else rng.choice(firsts)
            queue.remove(m)
            fmts = enc.allowed_formats(m)
            fmt = max(fmts) if rng.random() < 0.6 else rng.choice(fmts)
            feats.add("fmt%d" % fmt)
            if m[3] >= ESC and fmt == 0:
                feats.add("ext")
            wide = m[0] >= 64 and rng.random() < 0.2
            enc.start(m, fmt, wide)
            last[m[0]] = m
            last_ts[m[0]] = m[3]
            if len(opened) >= 1:
                feats.add("interleave")
        else:
            c = rng.choice(opened)
            enc.cont(c, c >= 64 and rng.random() < 0.2)
    tag = "".join("+" + t for t in ("agg", "scs", "interleave", "ext") if t in feats)
    return chunk0, bytes(enc.out), tag


def many_streams_history(rng, n):
    """a legal chunking that uses n distinct chunk stream ids (1-, 2- and 3-byte basic headers mixed): every chunk stream
    first carries a type 0 message; after ALL of them, every chunk stream carries type 1 / 2 / 3 messages that depend on
    the header it remembered (5.3.1.2: the reader keeps the previous header of every chunk stream id, without bound)"""
    chunk0 = rng.choice([2, 5, 128, 128, 4096])
    enc = RefEncoder(chunk0)
    pool = list(range(2, 64)) + rng.sample(range(64, 320), min(n, 120)) + rng.sample(range(320, 65600), n)
    csids = rng.sample(pool, n)
    if n >= 3:
        csids[0], csids[1], csids[2] = 2, 64, 65599
        csids = list(dict.fromkeys(csids))
        while len(csids) < n:
            c = rng.randrange(2, 65600)
            if c not in csids:
                csids.append(c)
    first = {}
    for c in csids:
        ts = rng.choice([0, 1, 40, 1000, ESC - 1, rng.randrange(ESC)])
        m = (c, rng.choice([8, 9, 18, 20]), rng.choice([0, 1, 5, 0xFFFFFFFF]), ts, bytes(rng.randrange(256) for _ in range(rng.choice([0, 1, 3, 7]))))
        enc.start(m, 0, c >= 64 and rng.random() < 0.15)
        while enc.open_csids():
            enc.cont(enc.open_csids()[0])
        first[c] = m
    order = list(csids)
    rng.shuffle(order)
    for rnd in range(2):
        for c in order:
            prev = first[c]
            want = rng.choice([1, 2, 3]) if rnd == 0 else rng.choice([0, 1, 2, 3])
            if want == 3:
                e = enc.mem[c]
                m = (c, prev[1], prev[2], (prev[3] + e["delta"]) % (1 << 32), bytes(rng.randrange(256) for _ in range(len(prev[4]))))
            elif want == 2:
                m = (c, prev[1], prev[2], (prev[3] + rng.choice([0, 1, 40, ESC - 1])) % (1 << 32), bytes(rng.randrange(256) for _ in range(len(prev[4]))))
            elif want == 1:
                m = (c, rng.choice([8, 9, 18]), prev[2], (prev[3] + rng.choice([0, 1, 40, 1000])) % (1 << 32),
                     bytes(rng.randrange(256) for _ in range(rng.choice([0, 1, 2, 5, 9]))))
            else:
                m = (c, 9, rng.choice([0, 1, 7]), rng.randrange(1 << 32), bytes(rng.randrange(256) for _ in range(rng.choice([0, 2, 4]))))
            fmts = enc.allowed_formats(m)
            fmt = want if want in fmts else max(fmts)
            enc.start(m, fmt, c >= 64 and rng.random() < 0.15)
            while enc.open_csids():
                enc.cont(enc.open_csids()[0])
            first[c] = m
        if n > 150:
            break
    return chunk0, bytes(enc.out)


def gen_cases(tier, rng):
    thorough = tier == "thorough"
    # ---- writer -> reader round trip, boundary sweep (prev = nil, as every exported entry point calls it)
    k = 0
    for c in CHUNKS:
        for n in lens_for(c):
            for ts in TSS:
                cs_list = CSIDS if (c <= 4097 or thorough) else [CSIDS[(k + ts) % len(CSIDS)]]
                for csid in cs_list:
                    k += 1
                    if c >= 4095 and not thorough and n > c + 1 and (k % 4):
                        continue
                    ty = [8, 9, 18, 20][k % 4]
                    msid = [1, 0, 5, 0xFFFFFFFF][(k // 4) % 4]
                    yield Case("c08.seq %d %d:%d:%d:%d:%s" % (c, csid, ty, msid, ts, payload_tok(rng, n)), cls="rt-sweep")
    # ---- previous-header compression (unexported parameter; model == code only)
    for c in [1, 128]:
        for n in [0, 1, c + 1]:
            for ts in TSS:
                for csid in [3, 64, 320]:
                    p = payload_tok(rng, n)
                    for prev in ["%d:%d:9:1:%d" % (csid, n, pts) for pts in (0, ts, (ts - 1) % (1 << 32), (ts - ESC) % (1 << 32), (ts + 1) % (1 << 32))] + \
                                ["%d:%d:9:2:%d" % (csid, n, ts), "%d:%d:8:1:%d" % (csid, n, ts), "%d:%d:9:1:%d" % (csid, n + 1, ts)]:
                        yield Case("c08.w2c %d %d - 9 1 %d %s %s" % (c, csid, ts, p, prev), cls="w2c-prev")
    # ---- header truncation of fields, odd csids, chunk size 0, MsgLen != len(payload)
    for csid in [0, 1, 2, 63, 64, 319, 320, 65599, 65600, 70000, 1 << 20]:
        yield Case("c08.w2c 128 %d - 9 1 77 0102 -" % csid, cls="w2c-csid")
    for line in ["c08.w2c 0 4 - 9 1 5 01 -", "c08.w2c 128 4 7 9 1 5 0102 -", "c08.w2c 128 4 0x1000003 9 1 5 0102 -",
                 "c08.w2c 128 4 - 9 0x100000001 5 0102 -", "c08.w2c 2 4 - 9 1 5 010203 4:3:9:0x100000001:5"]:
        yield Case(line, cls="w2c-odd")
    for csid in [0, 1, 2, 3, 5, 63, 64, 100]:
        for ln in [0, 1, 4, 4096, 0xFFFFFF, 0x1000000]:
            yield Case("c08.sch %d %d %d %d" % (csid, ln, [20, 5, 18][ln % 3], [0, 1, 0xFFFFFFFF][ln % 3 if ln < 5 else 1]), cls="sch")
    # ---- message sequences through writer and reader
    for _ in range(150 if not thorough else 1500):
        c = rng.choice(CHUNKS[:9] + [rng.randrange(1, 300)])
        msgs = []
        for _ in range(rng.choice([2, 3, 5, 9])):
            n = rng.choice(lens_for(c) if c < 200 else [0, 1, 100, c, c + 1])
            msgs.append("%d:%d:%d:%d:%s" % (rng.choice(CSIDS[:6] + [4, 6]), rng.choice([8, 9, 18]), rng.choice([0, 1, 5]),
                                           rng.choice(TSS + [rng.randrange(1 << 32), 40, 80]), payload_tok(rng, n)))
        yield Case("c08.seq %d %s" % (c, ",".join(msgs)), cls="rt-seq")
    # ---- reader on random legal chunkings, their truncations and mutations
    nlegal = 1200 if not thorough else 12000
    for i in range(nlegal):
        chunk0, data, feats = random_legal_stream(rng, big=(i % 25 == 0))
        yield Case("c08.rd %d %d %s" % (chunk0, i & 1, hex_tok(data)), cls="rd-legal" + feats)
        if i % 2 == 0:
            yield Case("c08.ref %d %s" % (chunk0, hex_tok(data)), cls="ref-legal")
        if i % 3 == 0 and len(data) > 1:
            cut = rng.randrange(len(data))
            yield Case("c08.rd %d 0 %s" % (chunk0, hex_tok(data[:cut])), cls="rd-truncated")
        if i % 3 == 1 and len(data) > 0:
            b = bytearray(data)
            for _ in range(rng.choice([1, 1, 2, 4])):
                j = rng.randrange(len(b))
                b[j] = rng.choice([0, 0xFF, 0x3F, 0x40, 0x41, 0x80, 0xC0, b[j] ^ (1 << rng.randrange(8))])
            yield Case("c08.rd %d 0 %s" % (chunk0, hex_tok(bytes(b))), cls="rd-mutated")
    # ---- hand-made reader corner cases
    for line in READER_CORNERS:
        yield Case(line, cls="rd-corner")
    yield from gen_packer(tier, rng)
    # ---- reader memory is per chunk stream id and unbounded: histories over 65..300 distinct csids, every one of them
    #      later addressed by compressed (type 1/2/3) headers
    for i, n in enumerate([65, 66, 64, 70, 100, 128, 129, 200, 256, 300] + ([65, 80, 150, 300] * 5 if thorough else [])):
        chunk0, data = many_streams_history(rng, n)
        yield Case("c08.rd %d %d %s" % (chunk0, i & 1, hex_tok(data)), cls="rd-many-csids")
        if i % 2 == 0:
            yield Case("c08.ref %d %s" % (chunk0, hex_tok(data)), cls="ref-many-csids")
    if thorough:
        for n in [(1 << 24) - 1, (1 << 24) - 2]:
            for c in [4096, 65536]:
                yield Case("c08.seq %d 6:9:1:%d:r%d.%d" % (c, 0xFFFFFF if c == 4096 else 0x1000000, n, c), cls="rt-max")


def _corner_cases():
    out = []
    h = lambda b: hex_tok(bytes(b))
    # fmt 1 / 2 with an extended timestamp delta (outside the property; model == code)
    e = RefEncoder(128)
    e.start((4, 9, 1, 1000, b"\x01\x02"), 0)
    out.append("c08.rd 128 0 %s" % h(bytes(e.out) + bytes([0x44, 0xFF, 0xFF, 0xFF, 0, 0, 2, 9, 1, 0, 0, 0, 0xAA, 0xBB])))
    out.append("c08.rd 128 0 %s" % h(bytes(e.out) + bytes([0x84, 0xFF, 0xFF, 0xFF, 1, 0, 0, 0, 0xAA, 0xBB])))
    # type 3 starting a message after an extended absolute timestamp
    e = RefEncoder(128)
    e.start((4, 9, 1, 0x1000000, b"\x01\x02"), 0)
    out.append("c08.rd 128 0 %s" % h(bytes(e.out) + bytes([0xC4, 1, 0, 0, 0, 0xAA, 0xBB])))
    # Set Chunk Size: 0, top bit, short payload
    for v in ([0, 0, 0, 0], [0x80, 0, 0, 1], [0xFF, 0xFF, 0xFF, 0xFF], [0, 0, 1], [0, 0, 0, 2, 9]):
        out.append("c08.rd 128 0 %s" % h([2, 0, 0, 0, 0, 0, len(v), 1, 0, 0, 0, 0] + v + [4, 0, 0, 5, 0, 0, 3, 9, 1, 0, 0, 0, 1, 2, 3]))
    # message header change in the middle of a message
    out.append("c08.rd 2 0 %s" % h([4, 0, 0, 5, 0, 0, 5, 9, 1, 0, 0, 0, 1, 2, 0x44, 0, 0, 1, 0, 0, 1, 9, 3, 4]))
    out.append("c08.rd 2 0 %s" % h([4, 0, 0, 5, 0, 0, 5, 9, 1, 0, 0, 0, 1, 2, 0xC4, 3, 4, 0x44, 0, 0, 1, 0, 0, 2, 9, 5, 6]))
    # aggregate: truncated at every structural point, zero subs, 1-byte body
    sub = ref_aggregate_body([(9, 5, b"\xaa\xbb\xcc"), (8, 0x1000007, b""), (9, 3, b"\x01")])
    for cut in [0, 1, 10, 11, 13, 14, 17, 18, 19, 29, 33, len(sub) - 1, len(sub)]:
        body = sub[:cut]
        out.append("c08.rd 128 1 %s" % h(bytes([3, 0, 0, 100, 0, 0, len(body), 22, 7, 0, 0, 0]) + body))
    # peer chunk size 0 and huge
    out.append("c08.rd 0 0 %s" % h([4, 0, 0, 5, 0, 0, 2, 9, 1, 0, 0, 0, 1, 2]))
    out.append("c08.rd 0xFFFFFFFF 0 %s" % h([4, 0, 0, 5, 0, 0, 2, 9, 1, 0, 0, 0, 1, 2]))
    out.append("c08.rd 128 0 -")
    return out


READER_CORNERS = _corner_cases()


def neighbors(c, rng):
    f = c.line.split(" ")
    if f[0] == "c08.seq":
        chunk = num(f[1])
        for m in parse_msgs(f[2])[:3]:
            for ts in TSS:
                for n in lens_for(chunk)[:6]:
                    yield "c08.seq %d %d:%d:%d:%d:r%d.1" % (chunk, m[0], m[1], m[2], ts, n)
    elif f[0] in ("c08.rd", "c08.ref"):
        for _ in range(200):
            chunk0, data, _ = random_legal_stream(rng)
            yield "c08.rd %d 0 %s" % (chunk0, hex_tok(data))
    elif f[0] == "c08.pk":
        for cmd in f[1].split("|")[:4]:
            g = cmd.split(":")
            if g[0] in ("play", "publish"):
                for nlen in (10, 4070, 4080, 5000, 9000):
                    for msid in (0, 1, 7):
                        yield "c08.pk %s:r%d.1:%d" % (g[0], nlen, msid)
            if g[0] == "raw":
                for nlen in (10, 4096, 4097, 9000):
                    yield "c08.pk raw:%s:%s:%s:r%d.1" % (g[1], g[2], g[3], nlen)
    elif f[0] == "c08.w2c":
        for ts in TSS:
            for csid in CSIDS:
                yield "c08.w2c %s %d - %s %s %d %s -" % (f[1], csid, f[4], f[5], ts, f[7])
