# C07 - RTSP, GB28181 and customize ingest reach RTMP/FLV consumers with the same frames.
#
# Source side (independent of lal): an elementary-stream generator (H.264 / H.265 access units, AAC / G.711 /
# Opus frames with exact sample-clock timestamps), an RTP packetiser written from RFC 6184 / 7798 / 3640 / 3551,
# a program-stream muxer written from ISO 13818-1 2.5 (helpers shared with gen/c13.py), reordering / duplication
# inside the jitter window.  Consumer side: the RTMP chunk reader of gen/c08.py and the FLV reader of gen/c11.py
# decode what lal's subscribers received; ISO 14496-15 / 14496-3 readers (gen/c19_*.py) read the sequence headers.
import random
import struct

from lib.vf import Case
from gen.common import *
from gen import c08, c11, c13, c19_h26x, c19_aac

ID = "C07"
RULE = ("boundary sweep over every NAL type x stream format x packet shape of AvPacket2RtmpRemuxer (AUD / parameter sets / key slices in "
        "every position, ADTS sizes around the header, timestamp extremes), over the AvPacketQueue branches (ties, 128-packet overflow, "
        "backward jumps around -1000 ms, base-timestamp rotation) and structured random elementary streams (single-NAL, STAP-A / AP, FU, "
        "multi-AU and fragmented AAC at 8..96 kHz, G.711, Opus; AVC and HEVC) sent through a real rtsp.PubSession (reordered / duplicated "
        "inside the window, sequence wrap), through gb28181 PS packings (1..n PES per frame, with / without PTS) and the customize API, "
        "directly and end to end through logic.Group to an RTMP and an HTTP-FLV subscriber; a case is non-trivial when its "
        "(op, class, output shape) is new and the model output is not an error")
ASSUMPTIONS = [
    "subscriber transport not back-pressured (fake net.Conn, synchronous writes)",
    "well-formedness for the oracle: NAL units carry emulation prevention (no 00 00 0x inside, last byte non-zero), Annex-B / PS streams use "
    "4-byte start codes where the GB28181 unpacker looks at the NAL type, the first frame of every RTP track arrives in order, the RTP "
    "timestamp of a track does not wrap inside one test stream, |timestamps| < 2^62",
    "GB28181: the last frame of each track stays in the PS unpacker until a PES packet of the next frame arrives (no flush at the end of "
    "a stream); the oracle expects every frame but the last one of each track",
    "metadata message: only its presence and codec ids are compared (AMF0 content is C18's)",
    "B-frames: composition time is always written as 0 (the unpackers document pts = dts); streams with pts != dts are outside the property",
]
FULL_OUTPUT = True
TIMEOUT = 900

PT_AVC, PT_HEVC, PT_AAC, PT_G711A, PT_G711U, PT_OPUS = 96, 98, 97, 8, 0, 101


# ================================================================= elementary streams
def nal_body(rng, n):
    """n bytes that can follow a NAL header inside a byte stream: no 00 00 0x, last byte non-zero"""
    out = bytearray()
    while len(out) < n:
        b = rng.randrange(256)
        if b <= 3 and len(out) >= 2 and out[-1] == 0 and out[-2] == 0:
            b = 0x80 | b
        out.append(b)
    if out and out[-1] == 0:
        out[-1] = 0x80
    return bytes(out)


def avc_nal(rng, typ, n, nri=None, f=0):
    nri = (0 if typ in (6, 9, 12) else rng.choice([1, 2, 3])) if nri is None else nri
    return bytes([(f << 7) | (nri << 5) | typ]) + nal_body(rng, max(0, n - 1))


def hevc_nal(rng, typ, n, tid=1, layer=0, f=0):
    return bytes([(f << 7) | (typ << 1) | (layer >> 5), ((layer & 31) << 3) | tid]) + nal_body(rng, max(0, n - 2))


def nal_type(hevc, nal):
    return (nal[0] >> 1) & 0x3f if hevc else nal[0] & 0x1f


def is_aud(hevc, nal):
    return nal_type(hevc, nal) == (35 if hevc else 9)


def is_param(hevc, nal):
    return nal_type(hevc, nal) in ((32, 33, 34) if hevc else (7, 8))


def is_key_nal(hevc, nal):
    t = nal_type(hevc, nal)
    return 16 <= t <= 23 if hevc else t == 5


def param_sets(rng, hevc):
    """valid parameter sets from the reference encoders (the remuxer parses the SPS / VPS to build the header)"""
    if hevc:
        v, s = c19_h26x.rand_hevc(rng)
        return [c19_h26x.hevc_vps_nal(v), c19_h26x.hevc_sps_nal(s)[0], c19_h26x.HEVC_PPS]
    s = c19_h26x.rand_avc_sps(rng)
    return [c19_h26x.avc_sps_nal(s)[0], c19_h26x.AVC_PPS]


AAC_RATES = [96000, 88200, 64000, 48000, 44100, 32000, 24000, 22050, 16000, 12000, 11025, 8000]


def make_es(rng, vcodec, acodec, arate, nv, gop, sizes, aud, inband, sdp_params, extras, change_at=None, vrate=90000, fps_ticks=3600, na=None,
            bf=False, vts0=None, tsbits=32):
    """returns dict(video=[frame], audio=[frame], params=..., asc=...).  video frame = dict(ts, nals, params_in_force),
    ts in clock ticks (exact), audio frame = dict(ts, data)."""
    hevc = vcodec == "h265"
    es = dict(vcodec=vcodec, acodec=acodec, vrate=vrate, arate=arate, video=[], audio=[], hevc=hevc)
    ps = param_sets(rng, hevc) if vcodec != "none" else None
    es["sdp_params"] = ps if (sdp_params and ps) else None
    vts = rng.choice([0, 90000, 123456789, 3000000000])
    if vts0 is not None:
        vts = vts0
    layers = hevc and "layers" in extras

    def hn(typ, n):
        # nuh_layer_id 0, 1, 31, 32, 63 (bit 0 of the first header byte is its top bit), nuh_temporal_id_plus1 1..7
        # (and, now and then, the forbidden_zero_bit set: a unit the sender marks as damaged is still forwarded as it is)
        if layers:
            return hevc_nal(rng, typ, n, tid=rng.randrange(1, 8), layer=rng.choice([0, 1, 31, 32, 63, 32, 63]), f=int(rng.random() < 0.2))
        return hevc_nal(rng, typ, n)

    def an(typ, n):
        return avc_nal(rng, typ, n, f=int(rng.random() < 0.3)) if "fbit" in extras else avc_nal(rng, typ, n)
    if vcodec != "none":
        for k in range(nv):
            key = k % gop == 0
            if change_at is not None and k == change_at and key:
                ps = param_sets(rng, hevc)
            nals = []
            if aud:
                nals.append(hn(35, 3) if hevc else avc_nal(rng, 9, 2))
            if key and inband:
                nals += ps
            if "sei" in extras:
                nals.append(hn(39, rng.choice([5, 20])) if hevc else avc_nal(rng, 6, rng.choice([5, 20])))
            nslices = rng.choice([1, 1, 2, 3]) if "slices" in extras else 1
            for _ in range(nslices):
                n = rng.choice(sizes)
                if hevc:
                    nals.append(hn(rng.choice([19, 20, 21]) if key else rng.choice([0, 1]), n))
                else:
                    nals.append(an(5 if key else 1, n))
            if "filler" in extras:
                nals.append(hn(38, 6) if hevc else avc_nal(rng, 12, 6))
            es["video"].append(dict(ts=(vts + k * fps_ticks) % (1 << tsbits), ord=vts + k * fps_ticks, nals=nals, key=key, params=list(ps)))
        if bf:
            # decoding order I P B B P B B ...: the frames stay in stream order, "ts" becomes the presentation time
            # (one frame period behind the decoding time so that PTS >= DTS), "dts" the decoding time
            fr = es["video"]
            k = 0
            while k < len(fr):
                disp = [k]
                if not fr[k]["key"] and k + 2 < len(fr) and not fr[k + 1]["key"] and not fr[k + 2]["key"]:
                    disp = [k + 2, k, k + 1]                # P B B shown as B B P
                for j, dk in enumerate(disp):
                    f = fr[k + j]
                    f["dts"] = f["ts"]
                    f["ts"] = (vts + (dk + 1) * fps_ticks) % (1 << tsbits)
                k += len(disp)
    if acodec != "none":
        if acodec == "aac":
            sfi = AAC_RATES.index(arate)
            chan = rng.choice([1, 2])
            es["asc"] = c19_aac.ref_asc_write(2, sfi, chan)
            es["aac"] = (2, sfi, chan)
            per = 1024
        elif acodec in ("pcma", "pcmu"):
            per = arate // 50
        else:
            per = arate // 50
        dur = (nv * fps_ticks / vrate) if vcodec != "none" else 0.4
        na = max(3, int(dur * arate / per) + 1) if na is None else na
        ats = rng.choice([0, 48000, 987654321])
        for k in range(na):
            if acodec == "aac":
                n = rng.choice([5, 6, 7, 23, 60] if "smallaac" in extras else [5, 6, 7, 23, 180, 371] + ([1, 2, 4] if "tinyaac" in extras else []) + ([1500] if "bigaac" in extras else []))
            else:
                n = per if acodec != "opus" else rng.choice([3, 40, 160])
            es["audio"].append(dict(ts=(ats + k * per) % (1 << 32), ord=ats + k * per, data=bytes(rng.randrange(256) for _ in range(n))))
    return es


# ================================================================= RTP (RFC 3550 / 6184 / 7798 / 3640 / 3551)
def rtp_video_packets(rng, es, mode, maxp):
    """one list of payloads per frame; mode: single | aggr | fu | mix"""
    hevc = es["hevc"]
    out = []
    for fr in es["video"]:
        pls = []
        nals = list(fr["nals"])
        i = 0
        while i < len(nals):
            n = nals[i]
            m = rng.choice(["single", "aggr", "fu"]) if mode == "mix" else mode
            if len(n) > maxp or (m == "fu" and len(n) > (3 if hevc else 2) + 1):
                chunk = maxp - (3 if hevc else 2) if len(n) > maxp else max(1, (len(n) - 1) // rng.choice([2, 3]))
                pls += c13.h265_fu(n, chunk) if hevc else c13.h264_fua(n, chunk)
                i += 1
            elif m == "aggr":
                grp = [n]
                j = i + 1
                while j < len(nals) and sum(len(x) + 2 for x in grp) + len(nals[j]) + 2 + 2 <= maxp and len(grp) < 6:
                    grp.append(nals[j])
                    j += 1
                if len(grp) == 1:
                    pls.append(n)
                else:
                    pls.append(c13.h265_ap(grp) if hevc else c13.h264_stapa(grp))
                i = j
            else:
                pls.append(n)
                i += 1
        out.append(pls)
    return out


def rtp_audio_packets(rng, es, mode, maxp):
    """list of (rtp_ts, [payload...]) units; AAC: one AU per packet, several AUs per packet, or a fragmented AU"""
    out = []
    fr = es["audio"]
    i = 0
    while i < len(fr):
        f = fr[i]
        if es["acodec"] == "aac":
            if len(f["data"]) + 4 > maxp:
                chunks = [f["data"][k:k + maxp - 4] for k in range(0, len(f["data"]), maxp - 4)]
                out.append((f["ts"], [c13.au_fragment(len(f["data"]), c) for c in chunks], 1))
                i += 1
            elif mode.startswith("multi") and len(mode) > 5 and i > 0:
                # RFC 3640 3.2.1: several complete access units in one packet, the rtp timestamp is that of the first one
                k = int(mode[5:])
                grp = fr[i:i + k]
                while len(grp) > 1 and 2 + sum(len(x["data"]) + 2 for x in grp) > maxp:
                    grp = grp[:-1]
                out.append((f["ts"], [c13.au_payload([x["data"] for x in grp])], len(grp)))
                i += len(grp)
            elif mode == "multi" and i + 1 < len(fr) and i > 0 and len(fr[i + 1]["data"]) + 4 <= maxp and rng.random() < 0.5:
                k = 2
                out.append((f["ts"], [c13.au_payload([x["data"] for x in fr[i:i + k]])], k))
                i += k
            else:
                out.append((f["ts"], [c13.au_payload([f["data"]])], 1))
                i += 1
        else:
            out.append((f["ts"], [f["data"]], 1))
            i += 1
    return out


def perturb(rng, idxs, window, dup):
    """arrival order of packet indices: swaps / block moves inside `window`, duplicates (late copies stay inside the window)"""
    arr = list(idxs)
    n = len(arr)
    i = 0
    while i + 1 < n:
        if rng.random() < 0.35:
            w = rng.randrange(2, window + 1)
            seg = arr[i:i + w]
            rng.shuffle(seg)
            arr[i:i + w] = seg
            i += w
        else:
            i += 1
    if dup:
        out = []
        for k, x in enumerate(arr):
            out.append(x)
            if rng.random() < 0.2:
                out.append(x)                       # immediate duplicate
            if rng.random() < 0.1 and k >= 1:
                out.append(arr[k - 1])              # stale copy of an older packet
        arr = out
    return arr


PADS = [1, 2, 3, 4, 7, 8, 255, 16, 5, 128, 254, 12]
EXTS = [None, (0xbede, b""), (0xbede, b"\x10\xaa\x00\x00"), (0x1000, bytes(range(12))), None, (0xabac, b"\x00\x00\x00\x01\x00\x00\x01\x65")]
CSRCS = [0, 1, 2, 15, 0, 7, 3]


def rtp_variant(rng, hv, k, marker):
    """RFC 3550 5.1 header variants of packet number k: padding 1..255 octets (the last one is the count), header extension,
    1..15 CSRC identifiers, marker on / off.  hv: 0 = plain, 1 = random mix, 2 = every packet padded, extension and CSRC cycling"""
    if hv == 0:
        return dict(marker=marker)
    if hv == 1:
        pad = rng.choice([0, 0, rng.choice(PADS), rng.randrange(1, 256)])
        ext = rng.choice(EXTS + [None, None])
        cc = rng.choice([0, 0, 0, rng.randrange(1, 16)])
        mk = rng.choice([marker, marker, 0, 1])
    else:
        pad = PADS[k % len(PADS)]
        ext = EXTS[k % len(EXTS)]
        cc = CSRCS[k % len(CSRCS)]
        mk = (k // 2) % 2
    return dict(marker=mk, pad=pad, ext=ext, csrc=tuple(0xc0000000 + 0x01010101 * i for i in range(cc)))


def rtsp_arrivals(rng, es, vmode, amode, maxp, reorder, dup, seq_wrap, ssrc_v=0x11111111, ssrc_a=0x22222222, apt=None, vpt=None, hv=0):
    """interleaved (channel, packet) list ordered by media time, each track perturbed inside its own window"""
    apt = {"aac": 97, "pcma": 8, "pcmu": 0, "opus": 101, "none": 0}[es["acodec"]] if apt is None else apt
    vpt = {"h264": 96, "h265": 98, "none": 0}[es["vcodec"]] if vpt is None else vpt
    tracks = []
    if es["vcodec"] != "none":
        seq = 65530 if seq_wrap else rng.choice([0, 1000, 40000])
        pk = []
        first_frame_pkts = 0
        for k, (fr, pls) in enumerate(zip(es["video"], rtp_video_packets(rng, es, vmode, maxp))):
            for j, p in enumerate(pls):
                pk.append((fr["ord"] / es["vrate"], 2, c13.rtp(vpt, seq, fr["ts"], ssrc_v, p, **rtp_variant(rng, hv, len(pk), int(j == len(pls) - 1)))))
                seq += 1
            if k == 0:
                first_frame_pkts = len(pk)
        tracks.append((pk, first_frame_pkts))
    if es["acodec"] != "none":
        seq = 65533 if seq_wrap else rng.choice([0, 7, 30000])
        pk = []
        first = 0
        for k, (ts, pls, _) in enumerate(rtp_audio_packets(rng, es, amode, maxp)):
            for j, p in enumerate(pls):
                pk.append((ts / es["arate"], 0, c13.rtp(apt, seq, ts, ssrc_a, p, **rtp_variant(rng, hv, len(pk) + 5, int(j == len(pls) - 1)))))
                seq += 1
            if k == 0:
                first = len(pk)
        tracks.append((pk, first))
    arr = []
    for pk, first in tracks:
        order = list(range(first)) + (perturb(rng, list(range(first, len(pk))), 4, dup) if reorder or dup else list(range(first, len(pk))))
        # arrival time of a packet = media time of the slot it arrives in
        slots = sorted(range(len(order)), key=lambda i: i)
        for slot, idx in zip(slots, order):
            base_t = pk[min(slot, len(pk) - 1)][0]
            arr.append((base_t, slot, pk[idx][1], pk[idx][2]))
    # media-time interleave; both tracks start at their own zero
    t0 = {}
    for t, slot, ch, p in arr:
        t0[ch] = min(t0.get(ch, t), t)
    arr.sort(key=lambda x: (x[0] - t0[x[2]], x[2], x[1]))
    return [(ch, p) for _, _, ch, p in arr]


# ================================================================= program stream (ISO 13818-1 2.5, GB28181 usage)
def annexb(nals, sc=b"\x00\x00\x00\x01"):
    return b"".join(sc + n for n in nals)


def adts_frame(es, raw):
    aot, sfi, chan = es["aac"]
    return c19_aac.ref_adts_write(dict(syncword=0xfff, id=0, layer=0, protection_absent=1, profile=aot - 1, sfi=sfi, private=0, chan=chan,
                                       original=0, home=0, cp_bit=0, cp_start=0, frame_length=len(raw) + 7, fullness=0x7ff, blocks=0)) + raw


def ps_stream(rng, es, pes_max, pts_mode, mtu, hdr_every_key=True, stuffing=0, hv=0):
    """PS packs for the frames of `es` in media-time order, split into RTP datagrams.
    pts_mode: first (PTS on the first PES of a frame only) | all | none (no PTS at all: the rtp timestamp separates frames)"""
    hevc = es["hevc"]
    items = []
    for fr in es["video"]:
        items.append((fr.get("ord", fr["ts"]) / es["vrate"], 0, "v", fr))     # stream order = decoding order
    for fr in es["audio"]:
        items.append((fr["ts"] / es["arate"], 1, "a", fr))
    items.sort(key=lambda x: (x[0], x[1]))
    atype = {"aac": 0x0f, "pcma": 0x90, "pcmu": 0x91, "none": None}[es["acodec"]]
    entries = []
    if es["vcodec"] != "none":
        entries.append((0x24 if hevc else 0x1b, 0xe0, b""))
    if atype is not None:
        entries.append((atype, 0xc0, b""))
    pkts = []
    seq = rng.choice([0, 65530, 1000])
    first = True
    for _, _, kind, fr in items:
        pts90 = fr["ts"] * 90000 // (es["vrate"] if kind == "v" else es["arate"])
        dts90 = fr["dts"] * 90000 // es["vrate"] if "dts" in fr else None
        data = b""
        if kind == "v":
            data += c13.ps_pack_header(stuffing=stuffing)
            if first or (fr["key"] and hdr_every_key):
                data += c13.ps_system_header() + c13.ps_psm(entries)
            payload = es.get("lead", b"") + annexb(fr["nals"], es.get("sc", b"\x00\x00\x00\x01")) + es.get("tz", b"")
            sid = 0xe0
        else:
            if first:
                data += c13.ps_pack_header(stuffing=stuffing) + c13.ps_system_header() + c13.ps_psm(entries)
            payload = adts_frame(es, fr["data"]) if es["acodec"] == "aac" else fr["data"]
            sid = 0xc0
        first = False
        chunks = [payload[i:i + pes_max] for i in range(0, len(payload), pes_max)] or [b""]
        for i, c in enumerate(chunks):
            with_pts = pts_mode == "all" or (pts_mode == "first" and i == 0)
            data += c13.ps_pes(sid, c, pts=pts90 if with_pts else None, dts=dts90 if with_pts else None)
        rtp_ts = (pts90 if dts90 is None else dts90) & 0xffffffff
        parts = [data[i:i + mtu] for i in range(0, len(data), mtu)]
        for i, c in enumerate(parts):
            pkts.append(c13.rtp(96, seq, rtp_ts, 0x0badcafe, c, **rtp_variant(rng, hv, len(pkts), int(i == len(parts) - 1))))
            seq += 1
    return pkts


# ================================================================= consumer side: reading what lal produced
class Bad(Exception):
    pass


def parse_groups(out):
    """'ok g|g' -> list of groups, each a list of item strings; None when the op failed"""
    if not out.startswith("ok "):
        return None
    body = out[3:].split(" ")[0]
    if body == "-":
        return []
    return [([] if g in ("-", "-!") else g.rstrip("!").split(";")) for g in body.split("|")]


def parse_msg(item):
    f = item.split(":")
    if item.endswith("!hdr"):
        raise Bad("rtmp header fields wrong: " + item[:60])
    if f[0] == "M" and len(f) == 3:
        return ("M", c12_sint(f[1]), c12_sint(f[2]))
    if f[0] in ("A", "V") and len(f) == 3:
        return (f[0], num(f[1]), tok_bytes(f[2]))
    raise Bad("unreadable message " + item[:60])


def c12_sint(tok):
    return -num(tok[1:]) if tok.startswith("-") else num(tok)


def split_avcc_strict(b):
    """ISO 14496-15 length-prefixed NAL units, 4-byte lengths, exact tiling"""
    out = []
    i = 0
    while i < len(b):
        if len(b) - i < 4:
            raise Bad("AVCC: %d stray bytes" % (len(b) - i))
        n = int.from_bytes(b[i:i + 4], "big")
        if n == 0 or i + 4 + n > len(b):
            raise Bad("AVCC: unit length %d does not fit" % n)
        out.append(b[i + 4:i + 4 + n])
        i += 4 + n
    return out


def read_video_seq_header(hevc, p):
    """-> list of parameter sets in the order [vps,] sps, pps"""
    if hevc:
        if p[:5] != bytes([0x1c, 0, 0, 0, 0]):
            raise Bad("hevc sequence header tag prefix")
        try:
            r = c19_h26x.ref_parse_hvcc_record(p[5:])
        except ValueError as e:
            raise Bad("hvcC: %s" % e)
        a = r["arrays"]
        if sorted(a.keys()) != [32, 33, 34] or any(len(a[k]) != 1 for k in a) or r["rest"] or r["length_size"] != 4:
            raise Bad("hvcC arrays %s" % sorted(a.keys()))
        return [a[32][0], a[33][0], a[34][0]]
    if p[:5] != bytes([0x17, 0, 0, 0, 0]):
        raise Bad("avc sequence header tag prefix")
    try:
        r = c19_h26x.ref_parse_avcc_record(p[5:])
    except ValueError as e:
        raise Bad("avcC: %s" % e)
    if len(r["sps"]) != 1 or len(r["pps"]) != 1 or r["rest"] or r["length_size"] != 4:
        raise Bad("avcC parameter set counts")
    if r["profile"] != r["sps"][0][1] or r["level"] != r["sps"][0][3]:
        raise Bad("avcC profile / level differ from the SPS")
    return [r["sps"][0], r["pps"][0]]


def ms_exact(ticks, rate):
    return ticks * 1000 / rate


def check_video(msgs, es, mode, drop_last, tol=0):
    """msgs: ('V', ts, payload) in order.  mode 'start': everything from the first source frame; 'sub': from a key frame on."""
    hevc = es["hevc"]
    src = []      # (frame index, nal)
    frames = es["video"][:-1] if (drop_last and es["video"]) else es["video"]
    for k, fr in enumerate(frames):
        for n in fr["nals"]:
            if not is_aud(hevc, n) and not is_param(hevc, n):
                src.append((k, n))
    pos = None if mode == "sub" else 0
    cur_params = None
    ref = None      # (msg ts, source ms) of the first matched frame
    any_params = any(is_param(hevc, n) for fr in frames for n in fr["nals"]) or es.get("sdp_params")
    for _, ts, p in msgs:
        if len(p) < 5:
            raise Bad("video message of %d bytes" % len(p))
        codec = p[0] & 0x0f
        if codec != (12 if hevc else 7):
            raise Bad("video codec id %d" % codec)
        if p[1] == 0:
            cur_params = read_video_seq_header(hevc, p)
            continue
        if p[1] != 1:
            raise Bad("video packet type %d" % p[1])
        if p[2:5] != b"\0\0\0":
            raise Bad("composition time not zero")
        nals = split_avcc_strict(p[5:])
        if not nals:
            raise Bad("video message without a NAL unit")
        if pos is None:
            # first forwarded frame of a subscriber: a key frame of the source
            cands = [i for i, (k, n) in enumerate(src) if n == nals[0] and (i == 0 or src[i - 1][0] != k or True)]
            cands = [i for i in cands if any(is_key_nal(hevc, x) for kk, x in src if kk == src[i][0])]
            if not cands:
                raise Bad("first forwarded video message is not (part of) a key frame of the source")
            pos = cands[0]
            first_key_frame = min(k for k, fr in enumerate(frames) if any(is_key_nal(hevc, n) for n in fr["nals"]))
            if src[pos][0] > first_key_frame and mode == "sub":
                # a later key frame: allowed only if nothing earlier could have been forwarded; we demand the first
                raise Bad("subscriber started at frame %d, the first key frame is %d" % (src[pos][0], first_key_frame))
        fidx = None
        for n in nals:
            if pos >= len(src):
                raise Bad("NAL unit beyond the end of the source: %s.." % n[:8].hex())
            k, want = src[pos]
            if n != want:
                raise Bad("NAL unit %d differs: got %s..[%d] want %s..[%d]" % (pos, n[:8].hex(), len(n), want[:8].hex(), len(want)))
            if fidx is None:
                fidx = k
            elif fidx != k:
                raise Bad("one message carries NAL units of two access units")
            pos += 1
        key = any(is_key_nal(hevc, n) for n in nals)
        ft = p[0] >> 4
        if key and ft != 1:
            raise Bad("message with an IDR/IRAP slice is not flagged as key frame (frame type %d)" % ft)
        if not key and ft != 2:
            raise Bad("message without an IDR/IRAP slice has frame type %d" % ft)
        if key and any_params and frames[fidx]["params"]:
            want_ps = frames[fidx]["params"]
            if cur_params is None:
                raise Bad("key frame before any video sequence header")
            if cur_params != want_ps:
                raise Bad("sequence header in force does not carry the parameter sets of this key frame")
        sms = frames[fidx]["ts"] * 1000 // es["vrate"]          # floor(1000 * ticks / clock rate)
        if ref is None:
            ref = (ts, sms)
        d = ((ts - ref[0] + (1 << 31)) % (1 << 32) - (1 << 31)) - (sms - ref[1])
        if abs(d) > tol:
            raise Bad("video timestamp off the source clock: message %d ms after the first, source clock %d ms (frame %d)" % (ts - ref[0], sms - ref[1], fidx))
    if pos is None:
        if any(is_key_nal(hevc, n) for k, n in src):
            raise Bad("no video frame forwarded although the source has a key frame")
        return
    if pos != len(src):
        raise Bad("%d of %d source NAL units missing at the end" % (len(src) - pos, len(src)))


def check_audio(msgs, es, mode, drop_last, adts, tol=0, may_start_late=False):
    frames = es["audio"][:-1] if (drop_last and es["audio"]) else es["audio"]
    ac = es["acodec"]
    first = {"aac": 0xaf, "pcma": 0x72, "pcmu": 0x82, "opus": 0xdf}[ac]
    pos = None if may_start_late else 0
    have_asc = False
    ref = None
    for _, ts, p in msgs:
        if not p:
            raise Bad("empty audio message")
        if p[0] != first:
            raise Bad("audio tag header 0x%02x, expected 0x%02x" % (p[0], first))
        if ac == "aac":
            if len(p) < 2:
                raise Bad("aac message of 1 byte")
            if p[1] == 0:
                if p[2:] != es["asc"]:
                    raise Bad("aac sequence header carries %s, source config is %s" % (p[2:].hex(), es["asc"].hex()))
                have_asc = True
                continue
            if p[1] != 1:
                raise Bad("aac packet type %d" % p[1])
            if not have_asc:
                raise Bad("aac frame before the aac sequence header")
            data = p[2:]
        else:
            data = p[1:]
        if pos is None:
            cands = [i for i, f in enumerate(frames) if f["data"] == data]
            if not cands:
                raise Bad("first forwarded audio frame is not a frame of the source")
            pos = cands[0]
        if pos >= len(frames):
            raise Bad("audio frame beyond the end of the source")
        if frames[pos]["data"] != data:
            raise Bad("audio frame %d differs: got %s..[%d] want %s..[%d]" % (pos, data[:8].hex(), len(data), frames[pos]["data"][:8].hex(), len(frames[pos]["data"])))
        sms = frames[pos]["ts"] * 1000 // es["arate"]           # floor(1000 * samples / clock rate)
        if ref is None:
            ref = (ts, sms)
        d = ((ts - ref[0] + (1 << 31)) % (1 << 32) - (1 << 31)) - (sms - ref[1])
        if abs(d) > tol:
            raise Bad("audio timestamp off the source clock: message %d ms after the first, sample clock %d ms (frame %d)" % (ts - ref[0], sms - ref[1], pos))
        pos += 1
    if pos is None:
        if not may_start_late and frames:
            raise Bad("no audio frame forwarded")
        return
    if pos != len(frames):
        raise Bad("%d of %d source audio frames missing at the end" % (len(frames) - pos, len(frames)))


def check_stream(msgs, es, mode, drop_last=False, adts=False, atol=0, meta_first=True, audio_late=False):
    """the property on a list of ('M'|'A'|'V', ...) messages"""
    if meta_first and msgs and msgs[0][0] != "M":
        raise Bad("first message is not the metadata")
    if sum(1 for m in msgs if m[0] == "M") > 1:
        raise Bad("more than one metadata message")
    if es["vcodec"] != "none":
        check_video([m for m in msgs if m[0] == "V"], es, mode, drop_last)
    elif any(m[0] == "V" for m in msgs):
        raise Bad("video message on an audio-only stream")
    if es["acodec"] != "none":
        check_audio([m for m in msgs if m[0] == "A"], es, mode, drop_last, adts, tol=atol, may_start_late=audio_late)
    elif any(m[0] == "A" for m in msgs):
        raise Bad("audio message on a video-only stream")


def decode_rtmp(tok):
    data = tok_bytes(tok)
    try:
        ms, _, open_ = c08.ref_decode(data, 4096)
    except (c08.NonConforming, c08.Truncated) as e:
        raise Bad("rtmp subscriber stream is not a legal chunk stream: %s %s" % (type(e).__name__, e))
    if open_:
        raise Bad("rtmp subscriber stream ends inside a message")
    out = []
    for csid, ty, msid, ts, p in ms:
        if msid != 1:
            raise Bad("message stream id %d" % msid)
        if ty == 18:
            out.append(("M", None, None))
        elif ty in (8, 9):
            if csid != (6 if ty == 8 else 7):
                raise Bad("chunk stream id %d for type %d" % (csid, ty))
            out.append(("A" if ty == 8 else "V", ts, p))
        else:
            raise Bad("message type %d" % ty)
    return out


def decode_flv(tok):
    if tok == "-":
        return []
    if tok == "?nohdr":
        raise Bad("http-flv subscriber stream without the http / flv header")
    try:
        tags = c11.ref_parse_flv(tok_bytes(tok))
    except ValueError as e:
        raise Bad("http-flv subscriber stream is not valid FLV: %s" % e)
    out = []
    for t, ts, p in tags:
        if t == 18:
            out.append(("M", None, None))
        elif t in (8, 9):
            out.append(("A" if t == 8 else "V", ts, p))
        else:
            raise Bad("flv tag type %d" % t)
    return out


# ================================================================= regenerable cases: the last argument "@k=v,..." is ignored by
# both sides and lets the oracle rebuild the source elementary stream from its seed
SIZES = {"s": [4, 30, 60], "m": [30, 200, 1190, 1199, 1200, 1201], "l": [1500, 3000, 5000], "x": [2, 3, 4, 5, 97, 98, 99, 100, 101, 102, 103, 250]}


def spec_tok(d):
    return "@" + ",".join("%s=%s" % (k, d[k]) for k in sorted(d))


def parse_spec(line):
    last = line.split(" ")[-1]
    if not last.startswith("@"):
        return None
    d = {}
    for kv in last[1:].split(","):
        if "=" in kv:
            k, v = kv.split("=", 1)
            d[k] = v
    return d


def es_of_spec(d, rng):
    ex = [x for x in d.get("ex", "").split("+") if x]
    chg = int(d["chg"]) if d.get("chg", "") not in ("", "-1") else None
    return make_es(rng, d["v"], d["a"], int(d.get("ar", 8000)), int(d.get("nv", 8)), int(d.get("gop", 4)), SIZES[d.get("sz", "s")],
                   d.get("aud", "0") == "1", d.get("inband", "1") == "1", d.get("sdp", "0") == "1", ex, change_at=chg,
                   na=int(d["na"]) if d.get("na") else None, bf=d.get("bf", "0") == "1",
                   vts0=((1 << 33) - int(d["w33"]) * 3600 - 77) if d.get("w33") else None, tsbits=33 if d.get("w33") else 32)


def nil_or(b):
    return "nil" if b is None else hex_tok(b)


def build(d):
    """spec -> (case line, es)"""
    rng = random.Random(int(d["seed"]))
    es = es_of_spec(d, rng)
    op = d["op"]
    if op in ("rtsp", "e2e_rtsp"):
        arr = rtsp_arrivals(rng, es, d.get("vm", "single"), d.get("am", "one"), int(d.get("maxp", 1200)), d.get("ro", "0") == "1",
                            d.get("dup", "0") == "1", d.get("wrap", "0") == "1", hv=int(d.get("hv", 0)))
        sp = es["sdp_params"]
        hevc = es["hevc"]
        vps = sp[0] if (sp and hevc) else None
        sps = sp[1 if hevc else 0] if sp else None
        pps = sp[2 if hevc else 1] if sp else None
        asc = es.get("asc") if (es["acodec"] == "aac" and d.get("noasc", "0") != "1") else None
        apt = {"aac": 97, "pcma": 8, "pcmu": 0, "opus": 101, "none": 0}[es["acodec"]]
        vpt = {"h264": 96, "h265": 98, "none": 0}[es["vcodec"]]
        args = [d.get("filt", "1"), d.get("rot", "1"), es["acodec"], str(es["arate"]), str(apt), nil_or(asc),
                es["vcodec"], str(es["vrate"]), str(vpt), nil_or(vps), nil_or(sps), nil_or(pps),
                ",".join("%d:%s" % (ch, hex_tok(p)) for ch, p in arr) or "-"]
        return "c07.%s %s %s" % (op, " ".join(args), spec_tok(d)), es
    if op in ("ps", "e2e_ps"):
        if d.get("sc") == "a3":
            es["sc"] = b"\x00\x00\x01"
        elif d.get("sc") == "a5":
            es["sc"] = b"\x00\x00\x00\x00\x01"
        pk = ps_stream(rng, es, int(d.get("pes", 65000)), d.get("pts", "first"), int(d.get("mtu", 1400)), stuffing=int(d.get("stuff", 0)), hv=int(d.get("hv", 0)))
        return "c07.%s %s %s %s" % (op, d.get("maxlist", "1024"), ",".join(hex_tok(p) for p in pk) or "-", spec_tok(d)), es
    if op in ("cust", "e2e_cust"):
        vf, af = d.get("vf", "avcc"), d.get("af", "raw")
        steps = ["O:%d:%d" % (1 if vf == "avcc" else 2, 1 if af == "raw" else 2)]
        if es["acodec"] == "aac" and af == "raw":
            steps.append("C:" + hex_tok(es["asc"]))
        items = [(fr["ts"] / es["vrate"], 0, "v", fr) for fr in es["video"]] + [(fr["ts"] / es["arate"], 1, "a", fr) for fr in es["audio"]]
        t0 = {}
        for t, _, k, _ in items:
            t0[k] = min(t0.get(k, t), t)
        items.sort(key=lambda x: (x[0] - t0[x[2]], x[1]))
        sc = {"a3": b"\x00\x00\x01", "a4": b"\x00\x00\x00\x01"}.get(d.get("sc", "a4"))
        for _, _, kind, fr in items:
            if kind == "v":
                if vf == "avcc":
                    pl = b"".join(len(n).to_bytes(4, "big") + n for n in fr["nals"])
                else:
                    pl = annexb(fr["nals"], sc) + (b"\x00" * int(d.get("tz", 0)))
                steps.append("P:%d:%d:%s" % (PT_HEVC if es["hevc"] else PT_AVC, fr["ts"] * 1000 // es["vrate"], hex_tok(pl)))
            else:
                pt = {"aac": PT_AAC, "pcma": PT_G711A, "pcmu": PT_G711U, "opus": PT_OPUS}[es["acodec"]]
                pl = adts_frame(es, fr["data"]) if (es["acodec"] == "aac" and af == "adts") else fr["data"]
                steps.append("P:%d:%d:%s" % (pt, fr["ts"] * 1000 // es["arate"], hex_tok(pl)))
        return "c07.%s %s %s" % (op, ",".join(steps), spec_tok(d)), es
    raise ValueError(op)


# ================================================================= direct remuxer / queue cases carry their input in the line
def es_from_a2r(line):
    """source elementary stream of a well-formed c07.av2rtmp case (the generator marks them @wf=1): timestamps in ms"""
    f = line.split(" ")
    vfmt, afmt = int(f[1]), int(f[2])
    es = dict(vcodec="none", acodec="none", vrate=1000, arate=1000, video=[], audio=[], hevc=False, sdp_params=None)
    params = None
    for st in ([] if f[3] == "-" else f[3].split(",")):
        s = st.split(":")
        if s[0] == "I":
            asc, vps, sps, pps = [None if x == "nil" else tok_bytes(x) for x in s[1:5]]
            if asc is not None:
                es["asc"] = asc
            if sps is not None and pps is not None:
                es["sdp_params"] = ([vps] if vps is not None else []) + [sps, pps]
                params = list(es["sdp_params"])
                es["hevc"] = vps is not None
                es["vcodec"] = "h265" if es["hevc"] else "h264"
            continue
        pt, ts, pl = int(s[1]), c12_sint(s[2]), tok_bytes(s[3])
        if pt in (PT_AVC, PT_HEVC):
            hevc = pt == PT_HEVC
            es["hevc"], es["vcodec"] = hevc, ("h265" if hevc else "h264")
            nals = split_avcc_strict(pl) if vfmt == 1 else c19_h26x.ref_split_annexb(pl)
            cur = {}
            for n in nals:
                if is_param(hevc, n):
                    cur[nal_type(hevc, n)] = n
            want = (32, 33, 34) if hevc else (7, 8)
            if all(k in cur for k in want):
                params = [cur[k] for k in want]
            es["video"].append(dict(ts=ts, nals=nals, key=any(is_key_nal(hevc, n) for n in nals), params=list(params or [])))
        else:
            ac = {PT_AAC: "aac", PT_G711A: "pcma", PT_G711U: "pcmu", PT_OPUS: "opus"}[pt]
            es["acodec"] = ac
            data = pl
            if ac == "aac" and afmt == 2:
                h = c19_aac.ref_adts(pl[:7])
                if "asc" not in es:
                    es["asc"] = c19_aac.ref_asc_write(h["profile"] + 1, h["sfi"], h["chan"])
                data = pl[7:]
            es["audio"].append(dict(ts=ts, data=data))
    return es


def oracle_avq(c, out):
    """order-preserving merge per track; when the track timestamps never run backwards by more than the rule allows
    (@mono=1), every output timestamp is the input timestamp minus one constant per track"""
    f = c.line.split(" ")
    d = parse_spec(c.line) or {}
    groups = parse_groups(out)
    if groups is None:
        return (False, "queue failed: " + out[:80])
    ins = [] if f[2] == "-" else [x.split(":") for x in f[2].split(",")]
    outs = [x.split(":") for g in groups for x in g]
    for track in ("v", "a"):
        sel = (lambda pt: pt in (96, 98)) if track == "v" else (lambda pt: pt not in (96, 98))
        i_t = [(c12_sint(x[1]), x[2]) for x in ins if sel(c12_sint(x[0]))]
        o_t = [(c12_sint(x[1]), x[2]) for x in outs if sel(c12_sint(x[0]))]
        if len(o_t) > len(i_t):
            return (False, "%s track: more packets out than in" % track)
        for k, (ts, pl) in enumerate(o_t):
            if pl != i_t[k][1]:
                return (False, "%s track: output %d is not input %d (order / duplication / loss)" % (track, k, k))
        if d.get("mono") == "1" and o_t:
            c0 = i_t[0][0] - o_t[0][0]
            for k, (ts, _) in enumerate(o_t):
                if i_t[k][0] - ts != c0:
                    return (False, "%s track: timestamp offset changes from %d to %d at packet %d" % (track, c0, i_t[k][0] - ts, k))
    if d.get("mono") == "1":
        total_in, total_out = len(ins), len(outs)
        if total_in - total_out > 127:
            return (False, "more than a full queue withheld")
    return (True, "")


def msgs_of_groups(groups):
    return [parse_msg(x) for g in groups for x in g]


def oracle(c, out):
    line = c.line
    op = line.split(" ")[0]
    d = parse_spec(line)
    try:
        if op == "c07.avq":
            return oracle_avq(c, out)
        if d is None:
            return None
        if op == "c07.av2rtmp" and d.get("wf") != "1":
            return None
        if out.startswith(("panic", "crash", "err", "timeout", "unknown", "not-run")):
            return (False, "ingest of a well-formed stream failed: " + out[:80])
        if op == "c07.av2rtmp":
            es = es_from_a2r(line)
            msgs = msgs_of_groups(parse_groups(out))
            check_stream(msgs, es, "start", adts=line.split(" ")[2] == "2", meta_first=bool(msgs))
            return (True, "")
        if "op" not in d:
            return None
        _, es = build(d)
        if es["acodec"] == "aac" and d.get("noasc") == "1":
            # no config in the sdp: the audio track is not unpackable, nothing of it may come out
            es = dict(es, acodec="none", audio=[])
        queue = op in ("c07.rtsp", "c07.e2e_rtsp") and d.get("filt", "1") == "1" and es["vcodec"] != "none" and es["acodec"] != "none"
        atol = 1 if d.get("am", "").startswith("multi") else 0
        drop_last = op in ("c07.ps", "c07.e2e_ps") and d.get("last") != "1"
        adts = op in ("c07.ps", "c07.e2e_ps") or d.get("af") == "adts"
        if op in ("c07.rtsp", "c07.cust"):
            msgs = msgs_of_groups(parse_groups(out))
            check_with_tail(msgs, es, "start", queue, drop_last, adts, atol, False)
            return (True, "")
        if op == "c07.ps":
            msgs = ps_msgs(out)
            check_with_tail(msgs, es, "start", False, drop_last, True, atol, False)
            return (True, "")
        if op.startswith("c07.e2e_"):
            f = out.split(" ")
            hook = [parse_msg(x) for x in ([] if f[1] == "-" else f[1].split(";"))]
            check_with_tail(hook, es, "start", queue, drop_last, adts, atol, False)
            kv = dict(x.split("=", 1) for x in f[2:])
            rt = decode_rtmp(kv["rtmp"])
            fl = decode_flv(kv["flv"])
            for name, ms in (("rtmp", rt), ("http-flv", fl)):
                try:
                    check_with_tail(ms, es, "sub", queue, drop_last, adts, atol, True)
                except Bad as e:
                    raise Bad("%s subscriber: %s" % (name, e))
            if [m for m in rt if m[0] != "M"] != [m for m in fl if m[0] != "M"]:
                raise Bad("rtmp and http-flv subscribers received different audio / video messages")
            return (True, "")
    except Bad as e:
        return (False, str(e))
    return None


def ps_msgs(out):
    body = out[3:].split(" ")[0]
    items = []
    if body != "-":
        for g in body.split("|"):
            ms = g.split("~", 1)[1]
            if ms != "-":
                items += ms.split(";")
    return [parse_msg(x) for x in items]


def check_with_tail(msgs, es, mode, queue, drop_last, adts, atol, sub):
    """check_stream, except that with the interleave queue a tail of ONE track may still be queued when the input stops"""
    meta_first = bool(msgs)
    if not queue:
        check_stream(msgs, es, mode, drop_last=drop_last, adts=adts, atol=atol, meta_first=meta_first, audio_late=sub and es["vcodec"] != "none")
        return
    errs = []
    for cut_v, cut_a in ((0, None), (None, 0)):
        ok = False
        # try every tail length of one track (the other complete)
        nv, na = len(es["video"]), len(es["audio"])
        rng_v = range(0, nv + 1) if cut_v is None else [0]
        rng_a = range(0, na + 1) if cut_a is None else [0]
        for tv in rng_v:
            for ta in rng_a:
                es2 = dict(es, video=es["video"][:nv - tv], audio=es["audio"][:na - ta])
                try:
                    check_stream(msgs, es2, mode, drop_last=False, adts=adts, atol=atol, meta_first=meta_first, audio_late=sub and es["vcodec"] != "none")
                    if tv > 127 or ta > 127:
                        raise Bad("more than a full queue withheld")
                    return
                except Bad as e:
                    errs.append(str(e))
    raise Bad(errs[0] if errs else "no consistent reading")


def split_impl(c, out):
    if c.line.startswith("c07.e2e_") and out.startswith("ok "):
        return " ".join(out.split(" ")[:2])
    return out


def nontrivial(c, out):
    if out.startswith(("err", "bad", "panic", "unknown", "model-")):
        return None
    shape = "".join(ch for ch in out[:4000] if ch in "MAV|") [:60]
    return "%s|%s|%s" % (c.line.split(" ")[0], c.cls, shape)


# ================================================================= case generation
def a2r_line(vfmt, afmt, steps, wf):
    return "c07.av2rtmp %d %d %s @wf=%d" % (vfmt, afmt, ",".join(steps) if steps else "-", 1 if wf else 0)


def frame_payload(vfmt, nals, sc=b"\x00\x00\x00\x01", tz=0):
    if vfmt == 1:
        return b"".join(len(n).to_bytes(4, "big") + n for n in nals)
    return annexb(nals, sc) + b"\x00" * tz


def gen_a2r(tier, rng):
    q = tier == "quick"
    for hevc in (False, True):
        pt = PT_HEVC if hevc else PT_AVC
        ps = param_sets(rng, hevc)
        mk = (lambda t, n=6: hevc_nal(rng, t, n)) if hevc else (lambda t, n=6: avc_nal(rng, t, n))
        aud, sei, idr, p, fill = (mk(35, 3), mk(39), mk(19, 9), mk(1, 7), mk(38)) if hevc else (mk(9, 2), mk(6), mk(5, 9), mk(1, 7), mk(12))
        for vfmt in (1, 2):
            for sc in ([b"\x00\x00\x00\x01"] if vfmt == 1 else [b"\x00\x00\x00\x01", b"\x00\x00\x01"]):
                P = lambda ts, nals, tz=0: "P:%d:%d:%s" % (pt, ts, hex_tok(frame_payload(vfmt, nals, sc, tz)))
                # every NAL type alone, after a key frame with in-band parameter sets
                for t in range(64 if hevc else 32):
                    n = mk(t)
                    wf = not is_param(hevc, n)
                    yield Case(a2r_line(vfmt, 1, [P(0, ps + [idr]), P(40, [n]), P(80, [p])], wf), cls="a2r-naltype")
                # access unit shapes
                shapes = [[aud], ps[:1], ps[-1:], ps, list(reversed(ps)), [aud] + ps + [sei, idr], [idr, fill], [idr, sei], [sei, idr], [p, idr], [idr, p],
                          [idr, idr, idr], [aud, p], [aud, aud], ps + [p], [fill], ps + [idr] + ps + [idr]]
                for sh in shapes:
                    wf = True
                    yield Case(a2r_line(vfmt, 1, [P(1000, ps + [idr]), P(1040, sh), P(1080, [p])], wf), cls="a2r-shape")
                    yield Case(a2r_line(vfmt, 1, [P(7, sh), P(47, ps + [idr]), P(87, [p])], wf), cls="a2r-shape-first")
                # parameter sets arriving in separate packets, and from the sdp
                yield Case(a2r_line(vfmt, 1, [P(0, [x]) for x in ps] + [P(0, [idr]), P(40, [p])], True), cls="a2r-params-split")
                init = "I:nil:%s" % ":".join(hex_tok(x) for x in ([] if hevc else []) + ps) if hevc else "I:nil:nil:%s" % ":".join(hex_tok(x) for x in ps)
                yield Case(a2r_line(vfmt, 1, [init, P(0, [idr]), P(40, [p])], True), cls="a2r-init")
                yield Case(a2r_line(vfmt, 1, [init, P(0, [aud] + ps + [idr]), P(40, [p])], True), cls="a2r-init")
                # a second, different set of parameter sets before the next key frame
                ps2 = param_sets(rng, hevc)
                yield Case(a2r_line(vfmt, 1, [P(0, ps + [idr]), P(40, [p]), P(80, ps2 + [idr]), P(120, [p])], True), cls="a2r-params-change")
                # several PPS in one access unit: only the first one reaches a sequence header (known finding C07-KF-MULTI-PPS)
                yield Case(a2r_line(vfmt, 1, [P(0, ps + [ps[-1][:1] + b"\x55\x66", idr]), P(40, [p])], True), cls="a2r-two-pps")
                # SPS the parser refuses / panics on (correspondence only)
                for bad in (ps[0][:1] if hevc else ps[0][:2], ps[0][:3], ps[0][:len(ps[0]) // 2], (b"\x67\x42\x00\x1e\xff" if not hevc else ps[0][:4])):
                    bl = list(ps)
                    bl[1 if hevc else 0] = (ps[1][:2] + bad) if hevc else bad
                    yield Case(a2r_line(vfmt, 1, [P(0, bl + [idr]), P(40, ps + [idr])], False), cls="a2r-bad-sps")
                # timestamps
                for ts in (-1, 0, 1, (1 << 31) - 1, 1 << 31, (1 << 32) - 1, 1 << 32, (1 << 32) + 5, (1 << 40) + 3, -(1 << 33)):
                    yield Case(a2r_line(vfmt, 1, [P(ts, ps + [idr]), P(ts + 40, [p])], True), cls="a2r-ts")
                # trailing zero bytes (Annex B)
                if vfmt == 2:
                    for tz in (1, 2, 5):
                        yield Case(a2r_line(vfmt, 1, [P(0, ps + [idr], tz), P(40, [p], tz)], True), cls="a2r-trailing-zeros")
                # malformed framing (correspondence only)
                good = frame_payload(vfmt, ps + [idr], sc)
                for cut in sorted(set([0, 1, 3, 4, 5, len(good) - 1, len(good) // 2])):
                    yield Case(a2r_line(vfmt, 1, ["P:%d:0:%s" % (pt, hex_tok(good[:cut])), P(40, ps + [idr])], False), cls="a2r-malformed")
                yield Case(a2r_line(vfmt, 1, ["P:%d:0:%s" % (pt, hex_tok(good + b"\x00\x00")), P(40, [p])], False), cls="a2r-malformed")
            # big frames
            for n in ([70000] if q else [70000, 300000]):
                yield Case(a2r_line(1, 1, ["P:%d:0:%s+%s" % (pt, hex_tok(frame_payload(1, ps)), (n.to_bytes(4, "big") + (bytes([0x26, 1]) if hevc else b"\x65")).hex() + "+r%d.5" % (n - (2 if hevc else 1)))], False), cls="a2r-big")
    # audio
    asc = c19_aac.ref_asc_write(2, 4, 2)
    hdr = lambda n: c19_aac.ref_adts_write(dict(syncword=0xfff, id=0, layer=0, protection_absent=1, profile=1, sfi=4, private=0, chan=2, original=0,
                                                home=0, cp_bit=0, cp_start=0, frame_length=n + 7, fullness=0x7ff, blocks=0))
    for n in list(range(0, 14)) + [100, 2000]:
        raws = [bytes(rng.randrange(256) for _ in range(n)) for _ in range(3)]
        yield Case(a2r_line(1, 2, ["P:97:%d:%s" % (k * 23, hex_tok(hdr(n) + r)) for k, r in enumerate(raws)], n >= 1), cls="a2r-adts-size")
        yield Case(a2r_line(1, 2, ["P:97:0:%s" % hex_tok(hdr(50) + bytes(50))] + ["P:97:%d:%s" % (23 + k * 23, hex_tok(hdr(n) + r)) for k, r in enumerate(raws)], n >= 1), cls="a2r-adts-size")
        yield Case(a2r_line(1, 1, ["I:%s:nil:nil:nil" % asc.hex()] + ["P:97:%d:%s" % (k * 23, hex_tok(r)) for k, r in enumerate(raws)], n >= 1), cls="a2r-raw-size")
    for cut in range(0, 8):   # first ADTS packet shorter than / equal to a header (correspondence only)
        yield Case(a2r_line(1, 2, ["P:97:0:%s" % hex_tok(hdr(9)[:cut]), "P:97:23:%s" % hex_tok(hdr(9) + bytes(range(9)))], False), cls="a2r-adts-short")
    for afmt in (0, 1, 2, 3):
        yield Case(a2r_line(1, afmt, ["P:97:0:%s" % hex_tok(hdr(9) + bytes(range(9)))], False), cls="a2r-afmt")
    for vfmt in (0, 3):
        yield Case(a2r_line(vfmt, 1, ["P:96:0:%s" % hex_tok(frame_payload(2, [b"\x65\x01\x02"]))], False), cls="a2r-vfmt")
    for pt in (PT_G711A, PT_G711U, PT_OPUS):
        for n in (0, 1, 160, 320):
            yield Case(a2r_line(1, 1, ["P:%d:%d:%s" % (pt, k * 20, payload_tok(rng, n)) for k in range(3)], n >= 1), cls="a2r-g711-opus")
    for pt in (-1, 14, 95, 99, 100, 102, 255):
        yield Case(a2r_line(1, 1, ["P:%d:0:0102" % pt], False), cls="a2r-unknown-pt")
    # InitWithAvConfig
    ps = param_sets(rng, False)
    hp = param_sets(rng, True)
    inits = ["I:nil:nil:nil:nil", "I:%s:nil:nil:nil" % asc.hex(), "I:12:nil:nil:nil", "I:-:nil:nil:nil", "I:nil:nil:%s:%s" % (ps[0].hex(), ps[1].hex()),
             "I:nil:nil:%s:nil" % ps[0].hex(), "I:nil:nil:nil:%s" % ps[1].hex(), "I:%s:nil:%s:%s" % (asc.hex(), ps[0].hex(), ps[1].hex()),
             "I:%s:%s:%s:%s" % (asc.hex(), hp[0].hex(), hp[1].hex(), hp[2].hex()), "I:nil:%s:%s:%s" % (hp[0].hex(), hp[1].hex(), hp[2].hex()),
             "I:nil:%s:nil:nil" % hp[0].hex(), "I:nil:nil:6742:%s" % ps[1].hex(), "I:nil:-:-:-", "I:nil:nil:-:-", "I:%s:%s:6742:68" % (asc.hex(), hp[0].hex())]
    for a in inits:
        yield Case(a2r_line(1, 1, [a], False), cls="a2r-init-sweep")
        for b in inits[:8]:
            yield Case(a2r_line(1, 1, [a, b, "P:97:5:0102", "P:96:5:%s" % hex_tok(frame_payload(1, [b"\x65\x01"]))], False), cls="a2r-init-sweep")


def avq_line(rot, pkts, mono):
    return "c07.avq %d %s @mono=%d" % (rot, ",".join("%d:%d:%02x%04x" % (pt, ts, 0xa0 if pt not in (96, 98) else 0xb0, k & 0xffff) for k, (pt, ts) in enumerate(pkts)) or "-", 1 if mono else 0)


def gen_avq(tier, rng):
    q = tier == "quick"
    A, V = 97, 96
    for rot in (0, 1):
        pats = [
            [(A, 0), (V, 0)], [(V, 0), (A, 0)], [(A, 0), (A, 20), (V, 0), (V, 40), (A, 40)], [(V, 5), (V, 45), (A, 3), (A, 23), (A, 43), (A, 63)],
            [(A, 100), (V, 100), (A, 100), (V, 100)], [(V, 1000), (A, 500), (A, 520), (V, 1040)],
        ]
        for pz in pats:
            yield Case(avq_line(rot, pz, True), cls="avq-pattern")
        # queue overflow: 126..130 packets of one track, then the other
        for n in (126, 127, 128, 129, 130, 257):
            for first in (A, V):
                other = V if first == A else A
                yield Case(avq_line(rot, [(first, 10 * k) for k in range(n)] + [(other, 0), (other, 5)] + [(first, 10 * n)], True), cls="avq-overflow")
        # backward jumps on one track around the -1000 ms rule
        for back in (1, 999, 1000, 1001, 1002, 5000, 100000):
            for track in (A, V):
                other = V if track == A else A
                seqn = [(track, 10000), (other, 10000), (track, 10040), (other, 10040), (track, 10040 - back), (other, 10080), (track, 10080 - back), (other, 10120)]
                yield Case(avq_line(rot, seqn, False), cls="avq-backward")
                seqn = [(track, 10000), (track, 10000 - back), (other, 10000), (track, 10040 - back), (other, 10040)]
                yield Case(avq_line(rot, seqn, False), cls="avq-backward")
        # timestamps below the first one / negative / -1 (the "unset" marker)
        for ts0 in (-1, -2, 0, 5):
            yield Case(avq_line(rot, [(A, ts0), (V, ts0), (A, ts0 + 20), (V, ts0 + 40), (A, ts0 - 1), (V, ts0 - 1), (A, ts0 + 60), (V, ts0 + 80)], False), cls="avq-below-base")
        # other payload types go to the audio side
        yield Case(avq_line(rot, [(14, 0), (V, 0), (101, 20), (0, 40), (8, 60), (98, 40), (-1, 80), (V, 90)], True), cls="avq-types")
        for _ in range(60 if q else 2000):
            n = rng.choice([3, 10, 40, 300])
            ta, tv = rng.choice([0, 1000, 123456]), rng.choice([0, 500, 99999999])
            pk = []
            mono = True
            for _ in range(n):
                if rng.random() < 0.6:
                    ta += rng.choice([0, 20, 23, 21])
                    pk.append((A, ta))
                else:
                    step = rng.choice([40, 33, 0, 40, 40, -20 if rng.random() < 0.2 else 40])
                    tv += step
                    pk.append((V, tv))
            tv0 = next((t for p_, t in pk if p_ == V), None)
            if tv0 is not None and any(p_ == V and t < tv0 for p_, t in pk):
                mono = False
            if any(t < 0 for _, t in pk):
                mono = False          # the contract of c07_queue_rebase: timestamps are not negative
            yield Case(avq_line(rot, pk, mono), cls="avq-random")
        for _ in range(20 if q else 500):
            pk = [(rng.choice([A, V]), rng.choice([0, 1, 1000, 1001, 2001, 5000, 10 ** 6, -5])) for _ in range(rng.choice([4, 12, 30]))]
            yield Case(avq_line(rot, pk, False), cls="avq-hostile")


def grid(rng, tier):
    """specs of the stream cases"""
    q = tier == "quick"
    seed = [1000]

    def S(**kw):
        seed[0] += 1
        d = dict(seed=seed[0])
        d.update(kw)
        return dict((k, str(v)) for k, v in d.items())

    out = []
    cnt = [0]

    def pick(n):
        cnt[0] += 1
        return cnt[0] % n

    # --- RTSP: codecs x packetisation x perturbation
    for v in ("h264", "h265"):
        for vm, sz, maxp in (("single", "s", 1200), ("aggr", "s", 1200), ("fu", "m", 1200), ("mix", "x", 100), ("fu", "l", 1200)):
            for a, ar in (("aac", 44100), ("aac", 48000), ("pcma", 8000), ("opus", 48000), ("none", 8000)):
                for ro, dup, wrap in ((0, 0, 0), (1, 0, 1), (1, 1, 0)):
                    if q and pick(3) != 0 and not (vm == "mix" and a == "aac"):
                        continue
                    out.append(S(op="rtsp", v=v, a=a, ar=ar, vm=vm, sz=sz, maxp=maxp, ro=ro, dup=dup, wrap=wrap, nv=rng.choice([6, 9, 13]), gop=rng.choice([3, 5]),
                                 aud=rng.randrange(2), inband=1, sdp=rng.randrange(2), ex=rng.choice(["", "sei", "slices", "sei+filler", "filler"]),
                                 am=rng.choice(["one", "multi"]), filt=1, rot=rng.choice([1, 1, 0])))
    # every AAC rate, the other audio codecs, audio only / video only, filter off, sdp-only parameter sets
    for ar in AAC_RATES:
        out.append(S(op="rtsp", v="h264", a="aac", ar=ar, vm="single", sz="s", nv=40 if not q else 14, gop=5, am="one", filt=1, rot=1, inband=1, sdp=0))
        out.append(S(op="rtsp", v="none", a="aac", ar=ar, am=rng.choice(["one", "multi"]), filt=1, rot=1, ex="bigaac", maxp=400))
    # RFC 3640 aggregation: 1 .. 16 complete access units per packet; every message is checked against the sample clock
    for ar in (8000, 16000, 22050, 32000, 44100, 48000, 96000):
        for k in range(1, 17):
            if q and ar in (8000, 16000, 32000) and k not in (1, 2, 7, 16):
                continue
            out.append(S(op="rtsp", v="none", a="aac", ar=ar, am="multi%d" % k, na=2 * k + 3, ex="smallaac", filt=1, rot=1))
        out.append(S(op="rtsp", v="h264", a="aac", ar=ar, am="multi%d" % rng.choice([7, 10, 12, 16]), na=40, nv=8, gop=4, ex="smallaac", vm="single", sz="s",
                     filt=1, rot=1, inband=1, sdp=0))
    for a, ar in (("pcma", 8000), ("pcmu", 8000), ("opus", 48000), ("pcma", 16000)):
        out.append(S(op="rtsp", v="h265", a=a, ar=ar, vm="aggr", sz="s", nv=8, gop=4, filt=1, rot=0, inband=1, sdp=1))
        out.append(S(op="rtsp", v="none", a=a, ar=ar, filt=1, rot=1))
    for v in ("h264", "h265"):
        out.append(S(op="rtsp", v=v, a="none", vm="mix", sz="x", maxp=100, nv=10, gop=4, filt=1, rot=1, inband=0, sdp=1, ro=1))
        out.append(S(op="rtsp", v=v, a="aac", ar=44100, vm="single", sz="s", nv=8, gop=4, filt=0, rot=1, inband=1, sdp=1))
        out.append(S(op="rtsp", v=v, a="aac", ar=22050, vm="aggr", sz="s", nv=10, gop=5, filt=1, rot=1, inband=1, sdp=0, chg=5))
        out.append(S(op="rtsp", v=v, a="aac", ar=11025, noasc=1, vm="single", sz="s", nv=6, gop=3, filt=1, rot=1, inband=1, sdp=0))
    # --- GB28181
    for v in ("h264", "h265"):
        for a, ar in (("aac", 44100), ("aac", 16000), ("pcma", 8000), ("pcmu", 8000), ("none", 8000)):
            for pes, pts, mtu in ((65000, "first", 1400), (200, "first", 1400), (200, "all", 90), (64, "none", 1400), (65000, "all", 33), (1000, "none", 500)):
                if q and pick(2):
                    continue
                out.append(S(op="ps", v=v, a=a, ar=ar, pes=pes, pts=pts, mtu=mtu, sz=rng.choice(["s", "m", "x"]), nv=rng.choice([5, 8]), gop=rng.choice([2, 4]),
                             aud=rng.randrange(2), inband=1, ex=rng.choice(["", "sei", "slices", "filler"])))
    out.append(S(op="ps", v="h264", a="aac", ar=44100, pes=65000, pts="first", mtu=1400, sz="l", nv=4, gop=2, inband=1, stuff=3))
    out.append(S(op="ps", v="h264", a="none", pes=300, pts="first", mtu=1400, sz="m", nv=6, gop=3, inband=1, chg=3))
    # the oracle demands EVERY frame, the last one of each track included (known finding C07-KF-PS-LAST-FRAME)
    out.append(S(op="ps", v="h264", a="aac", ar=44100, pes=65000, pts="first", mtu=1400, sz="s", nv=4, gop=2, inband=1, last=1))
    out.append(S(op="e2e_ps", v="h265", a="none", pes=65000, pts="first", mtu=1400, sz="s", nv=3, gop=3, inband=1, last=1))
    # 3-byte / 5-byte start codes in front of every NAL unit (fix 9c43f17), pack-header stuffing cut by rtp boundaries (fix 446939e)
    for v in ("h264", "h265"):
        for sc in ("a3", "a5"):
            out.append(S(op="ps", v=v, a="aac", ar=32000, pes=65000, pts="first", mtu=1400, sz="s", nv=5, gop=2, inband=1, sc=sc, aud=1))
            out.append(S(op="ps", v=v, a="none", pes=40, pts="all", mtu=70, sz="x", nv=5, gop=2, inband=1, sc=sc))
        for mtu in (15, 16, 17, 18, 19, 21):
            out.append(S(op="ps", v=v, a="pcma", ar=8000, pes=500, pts="first", mtu=mtu, sz="s", nv=4, gop=2, inband=1, stuff=rng.choice([1, 3, 5, 7])))
    # --- RFC 3550 header variants on every ingest class: padding (1..255 octets), header extension, CSRC list, marker on / off
    # (missed seed C07r4-1: padding octets appended to NAL units / fragments / the sequence header)
    for v in ("h264", "h265"):
        for vm, sz, maxp in (("single", "s", 1200), ("aggr", "s", 1200), ("fu", "m", 500), ("mix", "x", 100)):
            for hv in (1, 2):
                out.append(S(op="rtsp", v=v, a="none", vm=vm, sz=sz, maxp=maxp, nv=7, gop=3, aud=pick(2), inband=1, sdp=0, filt=1, rot=1, hv=hv,
                             ex=rng.choice(["", "sei", "slices"]), ro=pick(2), wrap=pick(2)))
            out.append(S(op="rtsp", v=v, a="aac", ar=rng.choice([44100, 48000, 16000]), am=rng.choice(["one", "multi", "multi3"]), vm=vm, sz=sz, maxp=maxp,
                         nv=7, gop=3, inband=1, sdp=pick(2), filt=1, rot=1, hv=2, ro=1, dup=pick(2)))
    for hv in (1, 2):
        for a, ar, am, ex, maxp in (("aac", 44100, "one", "", 1200), ("aac", 48000, "multi3", "smallaac", 1200), ("aac", 22050, "multi", "bigaac", 400),
                                    ("aac", 8000, "one", "bigaac", 100), ("pcma", 8000, "one", "", 1200), ("pcmu", 8000, "one", "", 1200), ("opus", 48000, "one", "", 1200)):
            out.append(S(op="rtsp", v="none", a=a, ar=ar, am=am, ex=ex, maxp=maxp, na=12, filt=1, rot=1, hv=hv))
        for v in ("h264", "h265"):
            out.append(S(op="ps", v=v, a=rng.choice(["aac", "pcma", "none"]), ar=8000, pes=rng.choice([200, 65000]), pts="first", mtu=rng.choice([90, 1400]),
                         sz="m", nv=5, gop=2, inband=1, hv=hv))
    # --- HEVC NAL headers with nuh_layer_id 0 / 1 / 31 / 32 / 63 and temporal ids 1..7 in single, AP and FU packets
    # (missed seed C12r4-2: the FU reassembly dropped the top bit of the layer id)
    for vm, sz, maxp in (("single", "s", 1200), ("aggr", "s", 1200), ("fu", "m", 500), ("fu", "l", 1200), ("mix", "x", 100)):
        for rep in range(2):
            out.append(S(op="rtsp", v="h265", a="none", vm=vm, sz=sz, maxp=maxp, nv=8, gop=4, aud=rep, inband=1, sdp=0, filt=1, rot=1,
                         ex="layers+sei+slices" if rep else "layers", ro=rep))
    for vm, sz, maxp in (("single", "s", 1200), ("aggr", "s", 1200), ("fu", "m", 500), ("mix", "x", 100)):
        out.append(S(op="rtsp", v="h264", a="none", vm=vm, sz=sz, maxp=maxp, nv=8, gop=4, inband=1, sdp=0, filt=1, rot=1, ex="fbit+slices"))
    out.append(S(op="ps", v="h265", a="none", pes=500, pts="first", mtu=1400, sz="m", nv=6, gop=3, inband=1, ex="layers+sei"))
    out.append(S(op="cust", v="h265", a="none", vf="annexb", af="raw", sc="a4", sz="m", nv=6, gop=3, inband=1, ex="layers+slices"))
    out.append(S(op="cust", v="h265", a="none", vf="avcc", af="raw", sc="a4", sz="s", nv=6, gop=3, inband=1, ex="layers+filler"))
    # --- GB28181 with B frames (PES with PTS and DTS, stream in decoding order: the PTS goes down between consecutive frames),
    # the same PTS on every PES packet of a frame, and the 33-bit PTS wrap (missed seed C07r4-2: frames delimited by 'pts > previous')
    for v in ("h264", "h265"):
        for pes, pts, mtu in ((65000, "first", 1400), (200, "all", 1400), (100, "all", 60), (300, "first", 500)):
            out.append(S(op="ps", v=v, a=rng.choice(["none", "aac", "pcma"]), ar=8000, pes=pes, pts=pts, mtu=mtu, sz="m", nv=11, gop=rng.choice([4, 7, 11]), inband=1, bf=1))
            out.append(S(op="ps", v=v, a="none", pes=pes, pts=pts, mtu=mtu, sz="s", nv=7, gop=3, inband=1, w33=rng.choice([1, 2, 3])))
        out.append(S(op="ps", v=v, a="none", pes=65000, pts="first", mtu=1400, sz="s", nv=10, gop=10, inband=1, bf=1, w33=4))
    # --- customize
    for v in ("h264", "h265", "none"):
        for a, ar in (("aac", 44100), ("aac", 8000), ("pcma", 8000), ("pcmu", 8000), ("opus", 48000), ("none", 8000)):
            if v == "none" and a == "none":
                continue
            for vf, af, sc in (("avcc", "raw", "a4"), ("annexb", "adts", "a4"), ("annexb", "raw", "a3")):
                if q and pick(2):
                    continue
                out.append(S(op="cust", v=v, a=a, ar=ar, vf=vf, af=af, sc=sc, sz=rng.choice(["s", "m", "x"]), nv=rng.choice([5, 9]), gop=rng.choice([2, 4]),
                             aud=rng.randrange(2), inband=1, ex=rng.choice(["", "sei", "slices", "sei+filler", "tinyaac"]), tz=rng.choice([0, 0, 2])))
    # --- end to end: a subset of each family through logic.Group
    e2e = []
    for d in out:
        if d["op"] == "rtsp" and (int(d["seed"]) % (4 if q else 2) == 0):
            e2e.append(dict(d, op="e2e_rtsp"))
        elif d["op"] == "ps" and (int(d["seed"]) % (3 if q else 1) == 0):
            e2e.append(dict(d, op="e2e_ps"))
        elif d["op"] == "cust" and (int(d["seed"]) % (3 if q else 1) == 0):
            e2e.append(dict(d, op="e2e_cust"))
    if tier != "quick":
        extra = []
        for d in out + e2e:
            for k in range(4):
                extra.append(dict(d, seed=str(int(d["seed"]) * 31 + k)))
        out += extra
    return out + e2e


def gen_cases(tier, rng):
    for c in gen_a2r(tier, rng):
        yield c
    for c in gen_avq(tier, rng):
        yield c
    for d in grid(rng, tier):
        line, _ = build(d)
        yield Case(line, cls=d["op"] + "-" + d["v"] + "-" + d["a"])
    # GB28181 "wait for parameter sets" gate: streams that start in the middle of a GOP, parameter sets in unusual order
    # (frames before the first SPS / PPS (VPS) are dropped by the unpacker; correspondence only)
    for hevc in (False, True):
        mk = (lambda t, n=8: hevc_nal(rng, t, n)) if hevc else (lambda t, n=8: avc_nal(rng, t, n))
        ps = param_sets(rng, hevc)
        idr, p = (mk(19), mk(1)) if hevc else (mk(5), mk(1))
        orders = [[[p], [ps[-1], idr], [p], ps + [idr], [p], [p]], [[p], [ps[0]], [idr], [p], [p]], [[idr], [p], list(reversed(ps)) + [idr], [p], [p]]]
        if hevc:
            orders.append([[p], [ps[1], idr], [p], [ps[2], ps[0], ps[1], idr], [p], [p]])
        for frames in orders:
            es = dict(vcodec="h265" if hevc else "h264", acodec="none", vrate=90000, arate=8000, hevc=hevc, audio=[],
                      video=[dict(ts=3600 * k, nals=f, key=False, params=[]) for k, f in enumerate(frames)])
            for pes, pts in ((65000, "first"), (20, "all"), (30, "none")):
                pk = ps_stream(rng, es, pes, pts, 1400)
                yield Case("c07.ps 1024 %s" % ",".join(hex_tok(x) for x in pk), cls="ps-gate")
            # 3-byte start codes, trailing zero bytes, pack header stuffing cut by an RTP boundary in front of the gate
            # (correspondence only here; the grid has the oracle'd cases)
            pk = ps_stream(rng, dict(es, sc=b"\x00\x00\x01"), 65000, "first", 1400)
            yield Case("c07.ps 1024 %s" % ",".join(hex_tok(x) for x in pk), cls="ps-startcode3")
            pk = ps_stream(rng, dict(es, tz=b"\x00\x00"), 65000, "first", 1400)
            yield Case("c07.ps 1024 %s" % ",".join(hex_tok(x) for x in pk), cls="ps-trailing-zeros")
            pk = ps_stream(rng, es, 65000, "first", 16, stuffing=5)
            yield Case("c07.ps 1024 %s" % ",".join(hex_tok(x) for x in pk), cls="ps-stuffing-split")
            yield Case("c07.e2e_ps 1024 %s" % ",".join(hex_tok(x) for x in ps_stream(rng, dict(es, sc=b"\x00\x00\x01"), 40, "all", 60)), cls="ps-startcode3")
            # an empty unit (a start code directly followed by the next one) in front of every frame: the gate sees a packet
            # that is nothing but a start code (correspondence only)
            for lead in (b"\x00\x00\x01", b"\x00\x00\x00\x01", b"\x00\x00\x00\x00\x01"):
                for sc in (b"\x00\x00\x01", b"\x00\x00\x00\x01"):
                    pk = ps_stream(rng, dict(es, sc=sc, lead=lead), 65000, "first", 1400)
                    yield Case("c07.ps 1024 %s" % ",".join(hex_tok(x) for x in pk), cls="ps-empty-unit")
    # customize API: dispose, FeedRtmpMsg pass-through, options changed mid-stream (correspondence only)
    yield Case("c07.cust O:1:1,C:1210,P:97:0:0102,R:A:5:af0199,R:V:6:1701000000,D,P:97:23:0304,R:A:7:af0100,C:1210", cls="cust-api")
    yield Case("c07.cust P:96:0:0000000165,O:2:2,P:96:40:0000000165,P:96:80:000000016501,P:97:0:fff15080017ffc0102030405060708", cls="cust-api")
    yield Case("c07.e2e_cust O:1:1,C:1210,P:97:0:0102,R:A:5:af0199,D,P:97:23:0304,R:A:7:af0100", cls="cust-api")


def neighbors(c, rng):
    f = c.line.split(" ")
    if f[0] in ("c07.av2rtmp", "c07.avq") and len(f) > 3:
        steps = f[-2].split(",")
        for i in range(len(steps)):
            yield " ".join(f[:-2] + [",".join(steps[:i] + steps[i + 1:]) or "-", f[-1]])
    d = parse_spec(c.line)
    if d and "op" in d:
        for k in range(6):
            d2 = dict(d, seed=str(int(d["seed"]) * 7 + k))
            yield build(d2)[0]


# ================================================================= known findings (open): matched narrowly
def classify_finding(c, out):
    f = c.line.split(" ")
    d = parse_spec(c.line) or {}
    if f[0] == "c07.av2rtmp" and d.get("wf") == "1":
        # an access unit that carries two different parameter sets of one type: lal keeps one of each
        vfmt = int(f[1])
        for st in f[3].split(","):
            x = st.split(":")
            if x[0] != "P" or int(x[1]) not in (PT_AVC, PT_HEVC):
                continue
            hevc = int(x[1]) == PT_HEVC
            try:
                nals = split_avcc_strict(tok_bytes(x[3])) if vfmt == 1 else c19_h26x.ref_split_annexb(tok_bytes(x[3]))
            except Bad:
                continue
            seen = {}
            for n in nals:
                if n and is_param(hevc, n):
                    t = nal_type(hevc, n)
                    if t in seen and seen[t] != n:
                        return "C07-KF-MULTI-PPS"
                    seen[t] = n
        return None
    if f[0] in ("c07.ps", "c07.e2e_ps") and d.get("last") == "1":
        return "C07-KF-PS-LAST-FRAME"
    return None
