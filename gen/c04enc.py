# Independent RTMP *client* encoder used by the C04 generator: handshake (simple and
# complex, HMAC-SHA256 from hashlib), chunking (RTMP 1.0 section 5.3), AMF0 command
# bodies (section 7.2) and the protocol control / user control messages (5.4, 7.1.7).
# Written from the specification, not from lal.
import hashlib
import hmac
import struct

CLIENT_KEY = b"Genuine Adobe Flash Player 001" + bytes([
    0xF0, 0xEE, 0xC2, 0x4A, 0x80, 0x68, 0xBE, 0xE8, 0x2E, 0x00, 0xD0, 0xD1, 0x02, 0x9E, 0x7E, 0x57,
    0x6E, 0xEC, 0x5D, 0x2D, 0x29, 0x80, 0x6F, 0xAB, 0x93, 0xB8, 0xE6, 0x36, 0xCF, 0xEB, 0x31, 0xAE])
SERVER_KEY = b"Genuine Adobe Flash Media Server 001" + CLIENT_KEY[30:]


def prng(seed, n):
    out = bytearray()
    x = (seed * 2654435761 + 12345) & 0xFFFFFFFF
    for _ in range(n):
        x = (x * 1103515245 + 12345) & 0xFFFFFFFF
        out.append((x >> 16) & 0xFF)
    return bytes(out)


def digest_offset(c1, scheme):
    """scheme 0: digest block first (offset bytes at 8..11); scheme 1: key block first (offset bytes at 772..775)"""
    base = 8 if scheme == 0 else 772
    return (c1[base] + c1[base + 1] + c1[base + 2] + c1[base + 3]) % 728 + base + 4


def hmac256(key, msg):
    return hmac.new(key, msg, hashlib.sha256).digest()


def c0c1_simple(seed=1, version=3, time=0):
    return bytes([version]) + struct.pack(">I", time) + b"\0\0\0\0" + prng(seed, 1528)


def c0c1_complex(seed=1, scheme=1, version=3, client_ver=b"\x09\x00\x7c\x02", good=True):
    c1 = bytearray(struct.pack(">I", 0) + client_ver + prng(seed, 1528))
    off = digest_offset(c1, scheme)
    d = hmac256(CLIENT_KEY[:30], bytes(c1[:off]) + bytes(c1[off + 32:]))
    if not good:
        d = bytes([d[0] ^ 1]) + d[1:]
    c1[off:off + 32] = d
    return bytes([version]) + bytes(c1)


def server_mode(c0c1):
    """what the specification's complex handshake says a server should do with this C1: 's' or 'c'"""
    c1 = c0c1[1:]
    if c1[4:8] == b"\0\0\0\0":
        return "s"
    for scheme in (1, 0):
        off = digest_offset(c1, scheme)
        if hmac256(CLIENT_KEY[:30], c1[:off] + c1[off + 32:]) == c1[off:off + 32]:
            return "c"
    return "s"


def c2(seed=2):
    return prng(seed, 1536)


def handshake(kind="simple", seed=1):
    if kind == "simple":
        return c0c1_simple(seed) + c2(seed + 1)
    if kind == "complex0":
        return c0c1_complex(seed, 0) + c2(seed + 1)
    if kind == "complex1":
        return c0c1_complex(seed, 1) + c2(seed + 1)
    if kind == "complexbad":
        return c0c1_complex(seed, 1, good=False) + c2(seed + 1)
    raise ValueError(kind)


# ---------------------------------------------------------------------------- chunking
def basic_header(fmt, csid, form=None):
    if form is None:
        form = 1 if csid < 64 else (2 if csid < 320 else 3)
    if form == 1:
        return bytes([(fmt << 6) | csid])
    if form == 2:
        return bytes([(fmt << 6) | 0, (csid - 64) & 0xFF])
    return bytes([(fmt << 6) | 1, (csid - 64) & 0xFF, ((csid - 64) >> 8) & 0xFF])


def chunk_header(fmt, csid, ts=0, mlen=0, mtype=0, msid=0, form=None, ext=None):
    out = basic_header(fmt, csid, form)
    field = min(ts, 0xFFFFFF)
    if fmt <= 2:
        out += field.to_bytes(3, "big")
    if fmt <= 1:
        out += (mlen & 0xFFFFFF).to_bytes(3, "big") + bytes([mtype & 0xFF])
    if fmt == 0:
        out += struct.pack("<I", msid & 0xFFFFFFFF)
    if ext is None:
        ext = ts >= 0xFFFFFF and fmt <= 2
    if ext:
        out += struct.pack(">I", ts & 0xFFFFFFFF)
    return out


def message(csid, mtype, msid, body, ts=0, chunk=128, fmt=0, form=None, mlen=None):
    """one message as a type-`fmt` chunk followed by type-3 chunks"""
    if mlen is None:
        mlen = len(body)
    out = chunk_header(fmt, csid, ts, mlen, mtype, msid, form)
    if chunk <= 0:
        return out + body
    out += body[:chunk]
    pos = chunk
    while pos < len(body):
        out += basic_header(3, csid, form)
        if ts >= 0xFFFFFF:
            out += struct.pack(">I", ts & 0xFFFFFFFF)
        out += body[pos:pos + chunk]
        pos += chunk
    return out


# ---------------------------------------------------------------------------- AMF0
def a_num(x):
    return b"\x00" + struct.pack(">d", float(x))


def a_numbits(bits):
    return b"\x00" + bits.to_bytes(8, "big")


def a_str(s):
    if isinstance(s, str):
        s = s.encode()
    if len(s) < 65536:
        return b"\x02" + struct.pack(">H", len(s)) + s
    return b"\x0c" + struct.pack(">I", len(s)) + s


def a_null():
    return b"\x05"


def a_bool(b):
    return b"\x01" + (b"\x01" if b else b"\x00")


def a_obj(pairs):
    out = b"\x03"
    for k, v in pairs:
        if isinstance(k, str):
            k = k.encode()
        out += struct.pack(">H", len(k)) + k + v
    return out + b"\x00\x00\x09"


def a_ecma(pairs):
    out = b"\x08" + struct.pack(">I", len(pairs))
    for k, v in pairs:
        if isinstance(k, str):
            k = k.encode()
        out += struct.pack(">H", len(k)) + k + v
    return out + b"\x00\x00\x09"


# ---------------------------------------------------------------------------- messages
T_SET_CHUNK, T_ABORT, T_ACK, T_USER, T_WINACK, T_BW = 1, 2, 3, 4, 5, 6
T_AUDIO, T_VIDEO, T_DATA3, T_CMD3, T_DATA0, T_CMD0, T_AGG = 8, 9, 15, 17, 18, 20, 22


def connect_body(app=b"live", tcurl=b"rtmp://127.0.0.1/live", tid=1, oe=None, extra=()):
    pairs = [("app", a_str(app)), ("type", a_str("nonprivate")), ("flashVer", a_str("FMLE/3.0")), ("tcUrl", a_str(tcurl))]
    if oe is not None:
        pairs.append(("objectEncoding", a_num(oe)))
    pairs += list(extra)
    return a_str("connect") + a_num(tid) + a_obj(pairs)


def create_stream_body(tid=2):
    return a_str("createStream") + a_num(tid) + a_null()


def publish_body(name=b"test", tid=3, kind=b"live"):
    out = a_str("publish") + a_num(tid) + a_null() + a_str(name)
    if kind is not None:
        out += a_str(kind)
    return out


def play_body(name=b"test", tid=3):
    return a_str("play") + a_num(tid) + a_null() + a_str(name)


def simple_cmd_body(cmd, tid=2, name=b"test"):
    return a_str(cmd) + a_num(tid) + a_null() + a_str(name)


def metadata_body(sdf=True, w=640, h=360):
    out = a_str("@setDataFrame") if sdf else b""
    return out + a_str("onMetaData") + a_ecma([("width", a_num(w)), ("height", a_num(h)), ("videocodecid", a_num(7)),
                                                ("audiocodecid", a_num(10)), ("encoder", a_str("refenc"))])


def set_chunk_size_body(n):
    return struct.pack(">I", n & 0xFFFFFFFF)


def user_control_body(ev, *vals):
    return struct.pack(">H", ev) + b"".join(struct.pack(">I", v & 0xFFFFFFFF) for v in vals)


def aggregate_body(subs, msid=1):
    """subs: list of (type, ts, payload)"""
    out = b""
    for ty, ts, p in subs:
        hdr = bytes([ty]) + len(p).to_bytes(3, "big") + (ts & 0xFFFFFF).to_bytes(3, "big") + bytes([(ts >> 24) & 0xFF]) + msid.to_bytes(3, "big")
        out += hdr + p + struct.pack(">I", 11 + len(p))
    return out


class Client:
    """builds the byte stream of one client connection, message by message"""

    def __init__(self, hs="simple", seed=1, chunk=128):
        self.parts = [("hs", handshake(hs, seed))] if hs else []
        self.chunk = chunk

    def add(self, label, csid, mtype, msid, body, ts=0, **kw):
        self.parts.append((label, message(csid, mtype, msid, body, ts, self.chunk, **kw)))
        return self

    def raw(self, label, data):
        self.parts.append((label, data))
        return self

    def set_chunk_size(self, n):
        self.add("setchunk", 2, T_SET_CHUNK, 0, set_chunk_size_body(n))
        if 0 < n < 0x80000000:
            self.chunk = n
        return self

    def connect(self, **kw):
        return self.add("connect", 3, T_CMD0, 0, connect_body(**kw))

    def create_stream(self, tid=2):
        return self.add("createStream", 3, T_CMD0, 0, create_stream_body(tid))

    def publish(self, name=b"test", **kw):
        return self.add("publish", 5, T_CMD0, 1, publish_body(name, **kw))

    def play(self, name=b"test", **kw):
        return self.add("play", 5, T_CMD0, 1, play_body(name, **kw))

    def cmd(self, cmd, **kw):
        return self.add(cmd, 3, T_CMD0, 0, simple_cmd_body(cmd, **kw))

    def metadata(self, **kw):
        return self.add("metadata", 5, T_DATA0, 1, metadata_body(**kw))

    def audio(self, payload, ts=0):
        return self.add("audio", 6, T_AUDIO, 1, payload, ts)

    def video(self, payload, ts=0):
        return self.add("video", 7, T_VIDEO, 1, payload, ts)

    def bytes(self):
        return b"".join(p for _, p in self.parts)

    def offsets(self):
        out, pos = [], 0
        for label, p in self.parts:
            out.append((label, pos, pos + len(p)))
            pos += len(p)
        return out
