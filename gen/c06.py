# C06 - RTMP ingest reaches TS, HLS and RTSP consumers with the same frames.
# Independent elementary-stream generator (FLV / enhanced-RTMP video tags, ISO 14496-15 configuration records, AVCC samples,
# AAC / Opus / G.711 audio tags) and the property oracle: the implementation's TS packets / RTP packets are read back with the
# reference demultiplexers written from the standards (ISO 13818-1: gen/c09.py, H.264 Annex B + ADTS: gen/c19_*.py,
# RFC 6184 / 7798 / 3640 + RFC 4566: gen/c12.py, gen/c19_sdp.py) and compared with what was PUBLISHED (the case line itself,
# parsed here with reference readers of the input formats).
import re

from lib.vf import Case
from gen.common import tok_bytes, hex_tok, num, prng_byte
from gen import c09 as R09
from gen import c12 as R12
from gen import c19_framing as R19F
from gen import c19_aac as R19A
from gen import c19_sdp as R19S

ID = "C06"
FULL_OUTPUT = True
TIMEOUT = 2400
RULE = ("remux.Rtmp2MpegtsRemuxer and remux.Rtmp2RtspRemuxer driven directly, and a real logic.Group with HTTP-TS / HLS / RTSP consumers, "
        "with streams from an independent ES generator: AVC / HEVC (classic and enhanced RTMP) with valid sequence headers, 1..6 NAL units "
        "per frame of 1 byte .. 300 KiB, in-band AUD / SPS / PPS / VPS / SEI, B-frame composition offsets, AAC (13 sampling rates) / Opus / "
        "G.711 at several cadences, time stamp jumps forward and backward, audio-only / video-only, re-entrant FlushAudio scripts; "
        "boundary sweep over the 150 ms / 300 ms audio batching rules, the 16-message probe and analysis windows, PES / FU size limits")
ASSUMPTIONS = [
    "RtmpMsg.Header.MsgLen = len(Payload) (logic.Group logs an error otherwise); payloads are non-empty",
    "well-formed input only: NAL units obey H.264 7.4.1 (no 00 00 0x inside, last byte not 00), AVCC lengths tile the payload, "
    "enhanced CodedFrames messages have their 3 composition-time bytes (hostile payloads are C05's)",
    "metadata is handed to the model pre-parsed (audiocodecid, audiosamplerate); AMF0 decoding is C18's",
    "AAC frames are shorter than 8185 bytes (13-bit aac_frame_length, RFC 3640 size field)",
    "in-band parameter sets come as complete sets inside one message (the oracle does not guess which half-updated set lal keeps)",
    "RTP: media time * clock rate < 2^50 (float64 exact); random first sequence numbers / SSRC are canonicalised by the harness",
]

M33 = 1 << 33

# ------------------------------------------------------------------------------------------------ golden parameter sets
AVC_SETS = [
    (bytes.fromhex("6764001facd940c029b0110000030001000003003" "20f183196"), bytes.fromhex("68ebecb22c")),
    (bytes.fromhex("2764001fac5680b40a19"), bytes.fromhex("28ee3cb0")),
    (bytes.fromhex("674d401e9a6602"), bytes.fromhex("68ce3c80")),
]
HEVC_SETS = [
    (bytes.fromhex("40010c01ffff016000000300900000030000" "03003fba0240"),
     bytes.fromhex("420101016000000300900000030000" "03003fa005020171f2e5ba4a4c2f010100000300010000" "03000f08"),
     bytes.fromhex("4401c073c189")),
    (bytes.fromhex("40010c01ffff01600000030090000003000003005d959809"),
     bytes.fromhex("42010101600000030090000003000003005da00280802d165959a4932b9a02000003000200000300321"  "0"),
     bytes.fromhex("4401c172b46240")),
]
HEVC_CFG = bytes.fromhex("01" "01" "60000000" "900000000000" "3f" "f000" "fc" "fd" "f8" "f8" "0000" "0f")  # 22 bytes before numOfArrays


def be16(n):
    return bytes([(n >> 8) & 255, n & 255])


def be24(n):
    return bytes([(n >> 16) & 255, (n >> 8) & 255, n & 255])


def avc_seq_header(spss, ppss):
    sps0 = spss[0] if spss else b"\x67\x64\x00\x1f"
    b = bytes([0x17, 0, 0, 0, 0, 1, sps0[1], sps0[2], sps0[3], 0xFF, 0xE0 | len(spss)])
    for s in spss:
        b += be16(len(s)) + s
    b += bytes([len(ppss)])
    for p in ppss:
        b += be16(len(p)) + p
    return b


def hevc_seq_header(vps, sps, pps, enhanced=False):
    head = bytes([0x90]) + b"hvc1" if enhanced else bytes([0x1C, 0, 0, 0, 0])
    b = head + HEVC_CFG + bytes([3])
    for t, n in ((32, vps), (33, sps), (34, pps)):
        b += bytes([t]) + be16(1) + be16(len(n)) + n
    return b


def avcc(nals):
    return b"".join(len(n).to_bytes(4, "big") + n for n in nals)


# ------------------------------------------------------------------------------------------------ NAL units
def nal_clean(u):
    return R19F.nal_ok(u) and b"\0\0\3" not in u[-3:]   # also no trailing 00 00 03 (cannot end an RBSP)


TRICKY = [bytes.fromhex(x) for x in ("000003", "00000300", "00000301", "00000303", "0001", "0002", "0003", "00", "0100", "ff00ff")]


def nal_token(rng, hdr, n):
    """a NAL unit of n bytes starting with the header bytes hdr: (token, bytes).  Short ones are literal and carry single
    zeros / emulation-prevention patterns; long ones use the r<len>.<seed> notation with a seed whose bytes are a legal unit."""
    n = max(n, len(hdr))
    body_n = n - len(hdr)
    if body_n == 0:
        return hex_tok(hdr), hdr
    if body_n <= 96:
        for _ in range(200):
            body = bytearray(rng.randrange(256) for _ in range(body_n))
            for _k in range(rng.randrange(3)):
                t = rng.choice(TRICKY)
                if len(t) <= body_n:
                    p = rng.randrange(body_n - len(t) + 1)
                    body[p:p + len(t)] = t
            u = hdr + bytes(body)
            if nal_clean(u):
                return hex_tok(u), u
        body = bytes((rng.randrange(255) + 1) for _ in range(body_n))
        return hex_tok(hdr + body), hdr + body
    for _ in range(400):
        seed = rng.randrange(1 << 20)
        tok = "r%d.%d" % (body_n, seed)
        u = hdr + tok_bytes(tok)
        if nal_clean(u):
            return hex_tok(hdr) + "+" + tok, u
    raise RuntimeError("no clean seed")


AVC_KEEP_TYPES = [1, 5, 6, 2, 3, 4, 12, 10, 11, 14, 19, 20]
HEVC_SLICE_TYPES = [0, 1, 2, 3, 4, 5, 6, 7, 8, 9]
HEVC_IRAP_TYPES = [16, 17, 18, 19, 20, 21, 22, 23]


def avc_hdr(rng, t, nri=None):
    if nri is None:
        nri = rng.randrange(4) if t not in (5, 7, 8) else rng.randrange(1, 4)
    return bytes([(nri << 5) | t])


def hevc_hdr(rng, t):
    lid = rng.choice([0, 0, 0, 1, 5, 63])
    tid = rng.randrange(1, 8)
    return bytes([(t << 1) | (lid >> 5), ((lid & 31) << 3) | tid])


# ------------------------------------------------------------------------------------------------ messages
class Msg:
    __slots__ = ("ty", "ts", "tok")

    def __init__(self, ty, ts, tok):
        self.ty, self.ts, self.tok = ty, ts, tok

    def text(self):
        return "M:%d:%d:%s" % (self.ty, self.ts & 0xFFFFFFFF, self.tok)


def video_msg(codec, key, ts, cts, nal_toks, mode="classic"):
    body = "+".join("%08x+%s" % (len(tok_bytes(t)), t) for t in nal_toks)
    if codec == "avc":
        head = bytes([0x17 if key else 0x27, 1]) + be24(cts)
    elif mode == "classic":
        head = bytes([0x1C if key else 0x2C, 1]) + be24(cts)
    elif mode == "ex1":
        head = bytes([0x80 | ((1 if key else 2) << 4) | 1]) + b"hvc1" + be24(cts)
    else:  # ex3: CodedFramesX, composition time 0
        head = bytes([0x80 | ((1 if key else 2) << 4) | 3]) + b"hvc1"
    return Msg(9, ts, hex_tok(head) + "+" + body)


AAC_RATES = R19A.FREQ


def asc_bytes(aot, sfi, chan, extra=b""):
    return R19A.ref_asc_write(aot, sfi, chan) + extra


def audio_msgs_header(acodec, sfi, chan, aot=2):
    if acodec == "aac":
        return [Msg(8, 0, hex_tok(bytes([0xAF, 0]) + asc_bytes(aot, sfi, chan)))]
    return []


def audio_msg(rng, acodec, ts, n):
    if acodec == "aac":
        head = bytes([0xAF, 1])
    elif acodec == "opus":
        head = bytes([0xDF])
    elif acodec == "g711a":
        head = bytes([0x72])
    else:
        head = bytes([0x82])
    if n <= 24:
        body = hex_tok(bytes(rng.randrange(256) for _ in range(n)))
    else:
        body = "r%d.%d" % (n, rng.randrange(1 << 16))
    return Msg(8, ts, hex_tok(head) + "+" + body)


def amf_number(x):
    import struct
    return b"\x00" + struct.pack(">d", float(x))


def amf_str(s):
    return be16(len(s)) + s.encode()


def metadata_msg(acodec_id, rate, acodec_str=None, rate_str=None):
    """onMetaData ECMA array; returns 'I:' item (model gets the parsed values: audiocodecid / audiosamplerate when they are AMF0
    numbers).  acodec_str / rate_str: the property is there but is a STRING (lal's `.(float64)` assertion fails: ignored)"""
    props = [("width", 640.0), ("height", 360.0)]
    if acodec_str is not None:
        props.append(("audiocodecid", acodec_str))
        acodec_id = None
    elif acodec_id is not None:
        props.append(("audiocodecid", float(acodec_id)))
    if rate_str is not None:
        props.append(("audiosamplerate", rate_str))
        rate = None
    elif rate is not None:
        props.append(("audiosamplerate", float(rate)))
    b = b"\x02" + amf_str("onMetaData") + b"\x08" + len(props).to_bytes(4, "big")
    for k, v in props:
        b += amf_str(k) + (b"\x02" + amf_str(v) if isinstance(v, str) else amf_number(v))
    b += b"\x00\x00\x09"
    return "I:%s:%s:%s" % ("-" if acodec_id is None else "%d" % acodec_id, "-" if rate is None else "%d" % rate, hex_tok(b))


# ------------------------------------------------------------------------------------------------ stream scenarios
def gen_stream(rng, vcodec, acodec, nvideo, naudio, opts):
    """list of Msg in publishing order.  opts: dict(sizes=[...], bframes, inband, sei, aud, jump=(index, delta), late_vsh, late_ash,
    sfi, chan, fps_ms, audio_ms, hevc_mode, multi_ps, start_ts)"""
    o = dict(sizes=[1, 2, 5, 40, 200], bframes=False, inband=0.0, sei=0.2, aud=0.2, jump=None, sfi=4, chan=2, fps_ms=40, audio_ms=None,
             hevc_mode="classic", multi_ps=False, start_ts=0, gop=8, nals_max=3, audio_sizes=[3, 60, 200, 400], vsh_at=0, ash_at=0,
             audio_start=0, video_start=0, aot=2, resend=0)
    o.update(opts)
    msgs = []
    t0 = o["start_ts"]
    # --- sequence headers
    vsh = None
    if vcodec == "avc":
        s = rng.choice(AVC_SETS)
        if o["multi_ps"]:
            vsh = Msg(9, t0, hex_tok(avc_seq_header([s[0], AVC_SETS[2][0]], [s[1], AVC_SETS[2][1]])))
        else:
            vsh = Msg(9, t0, hex_tok(avc_seq_header([s[0]], [s[1]])))
    elif vcodec == "hevc":
        s = rng.choice(HEVC_SETS)
        vsh = Msg(9, t0, hex_tok(hevc_seq_header(s[0], s[1], s[2], enhanced=o["hevc_mode"] != "classic")))
    ash = audio_msgs_header(acodec, o["sfi"], o["chan"], o["aot"])
    for m in ash:
        m.ts = t0
    # --- video frames
    vframes = []
    if vcodec:
        ts = t0 + o["video_start"]
        for i in range(nvideo):
            key = (i % o["gop"] == 0)
            toks = []
            if rng.random() < o["aud"]:
                toks.append(hex_tok(bytes([0x09, 0xF0]) if vcodec == "avc" else bytes([0x46, 0x01, 0x50])))
            if rng.random() < o["inband"] and key:
                if vcodec == "avc":
                    s = rng.choice(AVC_SETS)
                    toks += [hex_tok(s[0]), hex_tok(s[1])]
                else:
                    s = rng.choice(HEVC_SETS)
                    toks += [hex_tok(s[0]), hex_tok(s[1]), hex_tok(s[2])]
            if rng.random() < o["sei"]:
                if vcodec == "avc":
                    toks.append(nal_token(rng, bytes([0x06]), rng.choice([2, 9, 30]))[0])
                else:
                    toks.append(nal_token(rng, hevc_hdr(rng, rng.choice([39, 40])), rng.choice([3, 9, 30]))[0])
            nn = rng.randrange(1, o["nals_max"] + 1)
            for k in range(nn):
                sz = rng.choice(o["sizes"])
                if vcodec == "avc":
                    t = 5 if key else rng.choice([1, 1, 1, 2, 12] if k else [1])
                    toks.append(nal_token(rng, avc_hdr(rng, t), sz)[0])
                else:
                    t = rng.choice([19, 20, 21, 16]) if key else rng.choice(HEVC_SLICE_TYPES)
                    toks.append(nal_token(rng, hevc_hdr(rng, t), max(sz, 2))[0])
            if key and rng.random() < 0.15 and vcodec == "avc":
                # non-contiguous IDR slices: IDR, slice, IDR inside one message
                toks.append(nal_token(rng, avc_hdr(rng, 1), 6)[0])
                toks.append(nal_token(rng, avc_hdr(rng, 5), 7)[0])
            cts = 0
            if o["bframes"] and not key:
                cts = rng.choice([0, o["fps_ms"], 2 * o["fps_ms"], 3 * o["fps_ms"]])
            mode = o["hevc_mode"]
            if mode == "exmix":
                mode = rng.choice(["ex1", "ex3"])
            if mode == "ex3":
                cts = 0
            vframes.append(video_msg(vcodec, key, ts, cts, toks, mode))
            ts += o["fps_ms"] + (rng.choice([-1, 0, 0, 1]) if o["fps_ms"] > 2 else 0)
    # --- audio frames
    aframes = []
    if acodec:
        if o["audio_ms"] is None:
            rate = AAC_RATES[o["sfi"]] if acodec == "aac" and o["sfi"] < len(AAC_RATES) else 48000
            step = 1024000.0 / rate if acodec == "aac" else 20.0
        else:
            step = float(o["audio_ms"])
        t = float(t0 + o["audio_start"])
        for i in range(naudio):
            aframes.append(audio_msg(rng, acodec, int(t), rng.choice(o["audio_sizes"])))
            t += step
    # --- merge by time stamp, headers at the requested positions
    body = sorted(vframes + aframes, key=lambda m: m.ts)
    if o["jump"]:
        idx, delta = o["jump"]
        for m in body[idx:]:
            m.ts = max(0, m.ts + delta)
    out = list(body)
    # encoders repeat their sequence headers mid-stream (same content, the time stamp of the neighbour)
    for _ in range(o["resend"]):
        if len(out) >= 2:
            k = rng.randrange(1, len(out))
            for h in ([vsh] if vsh is not None else []) + ash:
                if rng.random() < 0.7:
                    out.insert(k, Msg(h.ty, out[k - 1].ts, h.tok))
    if vsh is not None:
        out.insert(min(o["vsh_at"], len(out)), vsh)
    for m in ash:
        out.insert(min(o["ash_at"], len(out)), m)
    return out


def ts_line(script, msgs, dispose=True, flushes=()):
    items = []
    for i, m in enumerate(msgs):
        if i in flushes:
            items.append("F")
        items.append(m.text() if isinstance(m, Msg) else m)
    if dispose:
        items.append("D")
    return "c06.ts %s %s" % (script or "-", ";".join(items) if items else "-")


def rtsp_line(items):
    return "c06.rtsp %s" % (";".join(x.text() if isinstance(x, Msg) else x for x in items) if items else "-")


def e2e_line(frag_ms, hls, rtsp, msgs, joins, wk=0, tsgop=0):
    """joins: {index: ["Jt:1", "Jr:5", ...]} inserted in front of message `index` (len(msgs) = after the last one)"""
    items = []
    for i, m in enumerate(msgs):
        items += joins.get(i, [])
        items.append(m.text() if isinstance(m, Msg) else m)
    items += joins.get(len(msgs), [])
    return "c06.e2e %d:%d:%d:%d:%d %s" % (frag_ms, hls, rtsp, wk, tsgop, ";".join(items) if items else "-")


def rand_script(rng, n, p):
    return "".join("1" if rng.random() < p else "0" for _ in range(n))


def gen_cases(tier, rng):
    thorough = tier == "thorough"
    # ---------------- (i) boundary sweeps
    # audio batching: N AAC frames at a fixed spacing d around the 150 ms rule, then a video frame around the 300 ms rule
    for d in (0, 1, 10, 21, 23, 49, 50, 51, 74, 75, 76, 149, 150, 151, 152, 300):
        for nfr in (1, 2, 3, 4, 8):
            ms = [Msg(9, 0, hex_tok(avc_seq_header([AVC_SETS[1][0]], [AVC_SETS[1][1]]))), Msg(8, 0, hex_tok(bytes([0xAF, 0]) + asc_bytes(2, 4, 2)))]
            for i in range(nfr):
                ms.append(audio_msg(rng, "aac", 1000 + i * d, 5 + i))
            yield Case(ts_line("", ms), cls="ts-batch-audio")
    for gap in (0, 1, 149, 150, 151, 299, 300, 301, 302, 1000):
        for key in (0, 1):
            for script in ("", "0", "1", "11"):
                ms = [Msg(9, 0, hex_tok(avc_seq_header([AVC_SETS[1][0]], [AVC_SETS[1][1]]))), Msg(8, 0, hex_tok(bytes([0xAF, 0]) + asc_bytes(2, 3, 2))),
                      video_msg("avc", True, 900, 0, [nal_token(rng, bytes([0x65]), 9)[0]]),
                      audio_msg(rng, "aac", 1000, 7), audio_msg(rng, "aac", 1021, 8),
                      video_msg("avc", bool(key), 1000 + gap, 0, [nal_token(rng, bytes([0x65 if key else 0x41]), 11)[0]]),
                      audio_msg(rng, "aac", 1043 + gap, 9)]
                yield Case(ts_line(script, ms), cls="ts-batch-video")
    # probe filter: k messages of one kind before the other kind shows up / never shows up
    for k in (0, 1, 2, 14, 15, 16, 17, 20):
        for first in ("v", "a"):
            ms = []
            if first == "v":
                ms.append(Msg(9, 0, hex_tok(avc_seq_header([AVC_SETS[0][0]], [AVC_SETS[0][1]]))))
                for i in range(k):
                    ms.append(video_msg("avc", i % 4 == 0, 40 * i, 0, [nal_token(rng, bytes([0x65 if i % 4 == 0 else 0x41]), 6)[0]]))
                ms.append(Msg(8, 40 * k, hex_tok(bytes([0xAF, 0]) + asc_bytes(2, 4, 2))))
                for i in range(3):
                    ms.append(audio_msg(rng, "aac", 40 * k + 23 * i, 6))
                ms.append(video_msg("avc", True, 40 * k + 80, 0, [nal_token(rng, bytes([0x65]), 6)[0]]))
            else:
                ms.append(Msg(8, 0, hex_tok(bytes([0xAF, 0]) + asc_bytes(2, 4, 2))))
                for i in range(k):
                    ms.append(audio_msg(rng, "aac", 23 * i, 6))
                ms.append(Msg(9, 23 * k, hex_tok(avc_seq_header([AVC_SETS[0][0]], [AVC_SETS[0][1]]))))
                for i in range(3):
                    ms.append(video_msg("avc", i == 0, 23 * k + 40 * i, 0, [nal_token(rng, bytes([0x65 if i == 0 else 0x41]), 6)[0]]))
                ms.append(audio_msg(rng, "aac", 23 * k + 200, 6))
            yield Case(ts_line("", ms), cls="ts-probe")
            yield Case(rtsp_line(ms), cls="rtsp-analyze")
    # time stamps: first frame at T, later ones above / below, large values (33-bit wrap of the PES clock, uint32 end)
    for T in (0, 1, 1000, 95443717 - 700, 95443717, 95443718, 4294967295 - 200):
        for back in (0, 1, 500):
            for vcodec in ("avc", None):
                ms = gen_stream(rng, vcodec, "aac", 4 if vcodec else 0, 6, dict(start_ts=T, sizes=[8], audio_sizes=[7], sei=0, aud=0))
                if back:
                    ms.append(audio_msg(rng, "aac", max(0, T - back), 5))
                    if vcodec:
                        ms.append(video_msg("avc", True, max(0, T - back), 0, [nal_token(rng, bytes([0x65]), 9)[0]]))
                    ms.append(audio_msg(rng, "aac", T + 400, 5))
                yield Case(ts_line("", ms), cls="ts-timestamps")
    # composition offsets
    for cts in (0, 1, 40, 80, 0x7FFFFF, 0xFFFFFF):
        for mode in ("avc", "classic", "ex1", "ex3"):
            vc = "avc" if mode == "avc" else "hevc"
            sh = Msg(9, 0, hex_tok(avc_seq_header([AVC_SETS[0][0]], [AVC_SETS[0][1]]))) if vc == "avc" else \
                Msg(9, 0, hex_tok(hevc_seq_header(*HEVC_SETS[0], enhanced=mode in ("ex1", "ex3"))))
            k = nal_token(rng, bytes([0x65]) if vc == "avc" else bytes([0x26, 0x01]), 10)[0]
            p = nal_token(rng, bytes([0x41]) if vc == "avc" else bytes([0x02, 0x01]), 10)[0]
            ms = [sh, video_msg(vc, True, 100, 0, [k], mode if vc == "hevc" else "classic"), video_msg(vc, False, 140, cts, [p], mode if vc == "hevc" else "classic")]
            yield Case(ts_line("", ms), cls="ts-cts")
            yield Case(rtsp_line(ms + [video_msg(vc, False, 180 + i, 0, [p], mode if vc == "hevc" else "classic") for i in range(16)]), cls="rtsp-cts")
    # NAL type sweep: every AVC type / every HEVC type as the only unit, and next to a key unit
    for t in range(0, 32):
        for nri in (0, 3):
            u = nal_token(rng, bytes([(nri << 5) | t]), 7)[0]
            idr = nal_token(rng, bytes([0x65]), 8)[0]
            sh = Msg(9, 0, hex_tok(avc_seq_header([AVC_SETS[0][0]], [AVC_SETS[0][1]])))
            fill = [video_msg("avc", False, 200 + 40 * i, 0, [nal_token(rng, bytes([0x41]), 5)[0]]) for i in range(16)]
            for toks in ([u], [u, idr], [idr, u, idr], [u, u]):
                ms = [sh, video_msg("avc", True, 100, 0, [idr]), video_msg("avc", t == 5, 140, 0, toks)]
                yield Case(ts_line("", ms), cls="ts-naltype-avc")
                if 1 <= t <= 23:
                    yield Case(rtsp_line(ms + fill), cls="rtsp-naltype-avc")
    for t in range(0, 64):
        u = nal_token(rng, bytes([t << 1, 0x01]), 7)[0]
        idr = nal_token(rng, bytes([0x26, 0x01]), 8)[0]
        for mode in (("classic",) if t % 4 else ("classic", "ex1")):
            sh = Msg(9, 0, hex_tok(hevc_seq_header(*HEVC_SETS[0], enhanced=mode != "classic")))
            fill = [video_msg("hevc", False, 200 + 40 * i, 0, [nal_token(rng, bytes([0x02, 0x01]), 5)[0]], mode) for i in range(16)]
            for toks in ([u], [u, idr], [idr, u, idr]):
                ms = [sh, video_msg("hevc", True, 100, 0, [idr], mode), video_msg("hevc", 16 <= t <= 23, 140, 0, toks, mode)]
                yield Case(ts_line("", ms), cls="ts-naltype-hevc")
                if t not in (48, 49, 50):
                    yield Case(rtsp_line(ms + fill), cls="rtsp-naltype-hevc")
    # sizes: NAL / frame sizes around the TS packet, PES length and RTP payload boundaries
    sizes = [1, 2, 3, 150, 151, 152, 153, 157, 158, 170, 183, 184, 185, 300, 1199, 1200, 1201, 1202, 2397, 2398, 2399, 65500, 65519, 65520, 65535, 65536]
    if thorough:
        sizes += [100000, 204800, 307200]
    for sz in sizes:
        for vc in ("avc", "hevc"):
            sh = Msg(9, 0, hex_tok(avc_seq_header([AVC_SETS[1][0]], [AVC_SETS[1][1]]))) if vc == "avc" else Msg(9, 0, hex_tok(hevc_seq_header(*HEVC_SETS[0])))
            k = nal_token(rng, bytes([0x65]) if vc == "avc" else bytes([0x26, 0x01]), sz)[0]
            p = nal_token(rng, bytes([0x41]) if vc == "avc" else bytes([0x02, 0x01]), sz)[0]
            ms = [sh, Msg(8, 0, hex_tok(bytes([0xAF, 0]) + asc_bytes(2, 4, 2))), video_msg(vc, True, 0, 0, [k]), audio_msg(rng, "aac", 10, 100),
                  video_msg(vc, False, 40, 0, [p, nal_token(rng, bytes([0x41]) if vc == "avc" else bytes([0x02, 0x01]), 3)[0]])]
            yield Case(ts_line("", ms), cls="size")
            yield Case(rtsp_line(ms), cls="rtsp-size")
    # AAC configurations: every sampling index, object types, channel configurations, frame sizes up to the 13-bit limit
    for sfi in range(0, 13):
        for aot, chan in ((2, 2), (1, 1), (4, 6), (2, 7)):
            ms = [Msg(8, 0, hex_tok(bytes([0xAF, 0]) + asc_bytes(aot, sfi, chan, rng.choice([b"", b"\x56\xe5\x00"]))))]
            t = 0.0
            for i in range(20):
                ms.append(audio_msg(rng, "aac", int(t), rng.choice([1, 2, 7, 300, 8177, 8184]) if i % 5 == 0 else rng.choice([3, 90, 371])))
                t += 1024000.0 / AAC_RATES[sfi]
            yield Case(ts_line("", ms), cls="aac-config")
            yield Case(rtsp_line(ms), cls="rtsp-aac-config")
    # sequence headers repeated in steady state (identical content): no consumer may see anything of them
    for vc in ("avc", "hevc"):
        ms = gen_stream(rng, vc, "aac", 6, 12, dict(sizes=[9, 40], audio_sizes=[8, 30], sei=0, aud=0, resend=3))
        yield Case(ts_line("", ms), cls="resend-headers")
        yield Case(rtsp_line(ms), cls="rtsp-resend-headers")
    # a changed AudioSpecificConfig mid-stream (TS follows it, RTSP keeps the first one)
    ms = [Msg(8, 0, hex_tok(bytes([0xAF, 0]) + asc_bytes(2, 4, 2)))] + [audio_msg(rng, "aac", 23 * i, 9) for i in range(18)] + \
         [Msg(8, 500, hex_tok(bytes([0xAF, 0]) + asc_bytes(2, 3, 1)))] + [audio_msg(rng, "aac", 500 + 21 * i, 9) for i in range(5)]
    yield Case(ts_line("", ms), cls="asc-change")
    # metadata driven audio for RTSP (G.711 / Opus with and without sample rate)
    for acodec, cid in (("g711a", 7), ("g711u", 8), ("opus", 13)):
        for rate in (None, 8000, 16000, 48000, 0):
            for meta in (True, False):
                items = []
                if meta:
                    items.append(metadata_msg(cid, rate))
                sh = Msg(9, 0, hex_tok(avc_seq_header([AVC_SETS[0][0]], [AVC_SETS[0][1]])))
                items.append(sh)
                for i in range(4):
                    items.append(audio_msg(rng, acodec, 20 * i, 160))
                    items.append(video_msg("avc", i == 0, 40 * i, 0, [nal_token(rng, bytes([0x65 if i == 0 else 0x41]), 30)[0]]))
                yield Case(rtsp_line(items), cls="rtsp-meta")
        ms = [Msg(9, 0, hex_tok(avc_seq_header([AVC_SETS[0][0]], [AVC_SETS[0][1]])))]
        for i in range(6):
            ms.append(audio_msg(rng, acodec, 20 * i, 80))
            ms.append(video_msg("avc", i == 0, 40 * i, 0, [nal_token(rng, bytes([0x65 if i == 0 else 0x41]), 30)[0]]))
        yield Case(ts_line("", ms), cls="ts-" + acodec)
    # ---------------- (ii) structured random streams
    n_rand = 2500 if thorough else 150
    for i in range(n_rand):
        vcodec = rng.choice(["avc", "avc", "hevc", "hevc", None])
        acodec = rng.choice(["aac", "aac", "aac", "opus", None]) if vcodec else rng.choice(["aac", "opus"])
        big = thorough and i % 60 == 0
        opts = dict(sizes=rng.choice([[1, 2, 5, 40], [5, 160, 200, 1300], [3, 2500, 30], [1, 184, 188, 7000]]) + ([307200] if big else []),
                    bframes=rng.random() < 0.4, inband=rng.choice([0, 0, 0.5]), sei=rng.choice([0, 0.3]), aud=rng.choice([0, 0.3, 1.0]),
                    sfi=rng.choice([3, 4, 4, 6, 8, 11, 0]), chan=rng.choice([1, 2]), fps_ms=rng.choice([16, 33, 40, 100, 500]),
                    hevc_mode=rng.choice(["classic", "classic", "ex1", "exmix"]), multi_ps=rng.random() < 0.1,
                    start_ts=rng.choice([0, 0, 5, 12345, 4000000]), gop=rng.choice([1, 3, 8, 50]), nals_max=rng.choice([1, 3, 6]),
                    audio_sizes=rng.choice([[3, 60, 200], [400, 700], [1, 2]]), audio_ms=rng.choice([None, None, 5, 60, 200]))
        nv = rng.randrange(1, 14) if vcodec else 0
        na = rng.randrange(1, 30) if acodec else 0
        if rng.random() < 0.3:
            opts["jump"] = (rng.randrange(1, max(2, nv + na)), rng.choice([-100000, -2000, -500, -50, 700, 5000, 2000000]))
        if rng.random() < 0.15:
            opts["audio_start"] = rng.choice([100, 1000])
        if rng.random() < 0.15:
            opts["video_start"] = rng.choice([100, 1000])
        if rng.random() < 0.4:
            opts["resend"] = rng.choice([1, 2])
        ms = gen_stream(rng, vcodec, acodec, nv, na, opts)
        script = rand_script(rng, len(ms) + 4, rng.choice([0, 0.2, 0.5, 1.0]))
        fl = set(rng.sample(range(len(ms) + 1), k=min(len(ms), rng.choice([0, 0, 1, 3]))))
        yield Case(ts_line(script, ms, dispose=rng.random() < 0.85, flushes=fl), cls="ts-random")
        items = list(ms)
        if acodec in (None, "aac", "opus") and rng.random() < 0.5:
            # RTSP with G.711 instead of no audio / as extra variety
            pass
        yield Case(rtsp_line(items), cls="rtsp-random")
    n_rand2 = 600 if thorough else 50
    for i in range(n_rand2):
        acodec = rng.choice(["g711a", "g711u", "opus"])
        vcodec = rng.choice(["avc", "hevc", None])
        ms = gen_stream(rng, vcodec, acodec, rng.randrange(1, 10) if vcodec else 0, rng.randrange(17 if not vcodec else 1, 30),
                        dict(audio_sizes=[80, 160, 320], audio_ms=rng.choice([10, 20, 40]), sizes=[4, 90, 1500], hevc_mode=rng.choice(["classic", "ex1"])))
        items = ([metadata_msg({"g711a": 7, "g711u": 8, "opus": 13}[acodec], rng.choice([None, 8000, 48000]))] if rng.random() < 0.5 else []) + ms
        yield Case(rtsp_line(items), cls="rtsp-random-g711")
    # ---------------- (iii) end to end through logic.Group: HTTP-TS subscribers, HLS segments, RTSP subscribers
    n_e2e = 500 if thorough else 36
    for i in range(n_e2e):
        vcodec = rng.choice(["avc", "avc", "hevc", None])
        acodec = rng.choice(["aac", "aac", "opus", None]) if vcodec else rng.choice(["aac", "opus"])
        opts = dict(sizes=rng.choice([[1, 2, 5, 40], [5, 160, 200, 1300], [3, 2500, 30]]), bframes=rng.random() < 0.4,
                    inband=rng.choice([0, 0.5]), sei=rng.choice([0, 0.3]), aud=rng.choice([0, 0.5]), sfi=rng.choice([3, 4, 8]),
                    fps_ms=rng.choice([33, 40, 200, 500]), hevc_mode=rng.choice(["classic", "ex1"]), gop=rng.choice([1, 3, 5]),
                    nals_max=rng.choice([1, 3]), audio_sizes=rng.choice([[3, 60, 200], [400, 700]]), audio_ms=rng.choice([None, None, 60, 200]),
                    start_ts=rng.choice([0, 777]))
        if rng.random() < 0.25:
            opts["jump"] = (rng.randrange(2, 12), rng.choice([-300, 700, 5000, 30000]))
        nv = rng.randrange(3, 16) if vcodec else 0
        na = rng.randrange(3, 30) if acodec else 0
        ms = gen_stream(rng, vcodec, acodec, nv, na, opts)
        joins = {}
        ids = iter(range(1, 20))
        for _ in range(rng.randrange(1, 4)):
            joins.setdefault(rng.choice([0, 0, rng.randrange(len(ms) + 1)]), []).append("Jt:%d" % next(ids))
        for _ in range(rng.randrange(0, 3)):
            joins.setdefault(rng.choice([0, rng.randrange(len(ms) + 1)]), []).append("Jr:%d" % next(ids))
        yield Case(e2e_line(rng.choice([100, 400, 1000, 3000]), rng.choice([1, 1, 1, 0]), 1, ms, joins,
                            wk=rng.choice([0, 1, 1]), tsgop=rng.choice([0, 1, 1, 2])), cls="e2e")
    # joins in the middle of longer streams: RTSP players with / without OutWaitKeyFrameFlag, HTTP-TS with / without GOP cache
    n_join = 400 if thorough else 30
    for i in range(n_join):
        vcodec = rng.choice(["avc", "avc", "hevc"])
        acodec = rng.choice(["aac", "aac", "opus", None])
        opts = dict(sizes=rng.choice([[1, 2, 5, 40], [5, 160, 200, 1300], [3, 2500, 30]]), bframes=rng.random() < 0.3,
                    inband=rng.choice([0, 0.5]), sei=rng.choice([0, 0.4]), aud=rng.choice([0, 0.5]), sfi=rng.choice([3, 4, 8]),
                    fps_ms=rng.choice([33, 40, 200]), hevc_mode=rng.choice(["classic", "ex1"]), gop=rng.choice([2, 3, 5]),
                    nals_max=rng.choice([1, 3]), audio_sizes=rng.choice([[3, 60, 200], [400, 700]]), audio_ms=rng.choice([None, 60]))
        ms = gen_stream(rng, vcodec, acodec, rng.randrange(10, 24), rng.randrange(8, 30) if acodec else 0, opts)
        joins = {}
        ids = iter(range(1, 20))
        for _ in range(rng.randrange(1, 4)):
            joins.setdefault(rng.randrange(2, len(ms) + 1), []).append("Jt:%d" % next(ids))
        for _ in range(rng.randrange(1, 4)):
            joins.setdefault(rng.randrange(2, len(ms) + 1), []).append("Jr:%d" % next(ids))
        yield Case(e2e_line(rng.choice([100, 400, 3000]), rng.choice([1, 0]), 1, ms, joins,
                            wk=rng.choice([0, 1, 1]), tsgop=rng.choice([0, 1, 2])), cls="e2e-join")
    # time stamp jumps while the remuxer holds audio, HLS on: FlushAudio from inside openFragment feeds audio of the
    # other side of the jump back into hls.Muxer (forced splits nested in a forced split)
    n_jump = 120 if thorough else 10
    for i in range(n_jump):
        opts = dict(sizes=[5, 40, 300], sfi=rng.choice([3, 4]), fps_ms=rng.choice([33, 40]), gop=rng.choice([2, 3]), nals_max=1,
                    audio_sizes=[30, 200], audio_ms=None, start_ts=rng.choice([0, 5000]))
        opts["jump"] = (rng.randrange(6, 20), rng.choice([-3000, -1500, 12000, 40000]))
        ms = gen_stream(rng, rng.choice(["avc", "hevc"]), "aac", rng.randrange(10, 20), rng.randrange(14, 30), opts)
        joins = {rng.randrange(0, len(ms)): ["Jt:1"]}
        yield Case(e2e_line(rng.choice([100, 400]), 1, 1, ms, joins, wk=0, tsgop=rng.choice([0, 1])), cls="e2e-jump")
    # onMetaData at EVERY position relative to the sequence headers, the end of the RTSP analysis and the first frames, for
    # AAC (the ASC names one rate, the metadata none / the same / another / a string), Opus and G.711, audiocodecid absent /
    # agreeing / naming another codec / a string: what the SDP announces and what the packers run at must agree
    def meta_variants(acodec, asc_rate):
        own = {"aac": 10, "opus": 13, "g711a": 7, "g711u": 8}[acodec]
        other_rate = 44100 if asc_rate != 44100 else 22050
        v = [dict(acodec_id=None, rate=None), dict(acodec_id=own, rate=asc_rate), dict(acodec_id=own, rate=other_rate),
             dict(acodec_id=None, rate=other_rate), dict(acodec_id=own, rate=None, rate_str="%d" % other_rate),
             dict(acodec_id=None, rate=0), dict(acodec_id=None, rate=None, acodec_str="mp4a")]
        if acodec != "aac":
            v.append(dict(acodec_id=None, rate=16000))
        else:
            v.append(dict(acodec_id=13, rate=other_rate))      # names another codec than the stream carries
        return v
    meta_cases = []
    for acodec, sfi in (("aac", 7), ("aac", 4), ("opus", None), ("g711a", None), ("g711u", None)):
        asc_rate = {7: 22050, 4: 44100}.get(sfi, 48000 if acodec == "opus" else 8000)
        for order in ("va", "av"):
            vsh = Msg(9, 0, hex_tok(avc_seq_header([AVC_SETS[0][0]], [AVC_SETS[0][1]])))
            ash = audio_msgs_header(acodec, sfi if sfi is not None else 4, 2)
            heads = ([vsh] + ash) if order == "va" else (ash + [vsh])
            frames = []
            for i in range(3):
                frames.append(audio_msg(rng, acodec, 23 * i, 40))
                frames.append(video_msg("avc", i == 0, 40 * i, 0, [nal_token(rng, bytes([0x65 if i == 0 else 0x41]), 20)[0]]))
            base_items = heads + frames
            own_id = {"aac": 10, "opus": 13, "g711a": 7, "g711u": 8}[acodec]
            for mv in meta_variants(acodec, asc_rate):
                # a metadata that names ANOTHER codec than the stream carries is believed while the analysis runs (the
                # publisher lied: out of scope); after the SDP has been handed out it must change nothing
                lie = mv.get("acodec_id") not in (None, own_id)
                for pos in range(len(heads) if lie else 0, len(heads) + 4):
                    items = list(base_items)
                    items.insert(pos, metadata_msg(**mv))
                    meta_cases.append(Case(rtsp_line(items), cls="rtsp-meta-pos"))
                # two metadata messages: the usual one in front, a contradicting one after the headers
                items = [metadata_msg(acodec_id=own_id, rate=asc_rate)] + heads + [metadata_msg(**mv)] + frames
                meta_cases.append(Case(rtsp_line(items), cls="rtsp-meta-pos"))
    if not thorough:
        rng.shuffle(meta_cases)
        meta_cases = meta_cases[:220]
    for c in meta_cases:
        yield c
    # the same through logic.Group: metadata after the headers, players joining
    for acodec, sfi, mrate in (("aac", 7, 44100), ("g711a", None, 16000), ("opus", None, 16000)):
        vsh = Msg(9, 0, hex_tok(avc_seq_header([AVC_SETS[0][0]], [AVC_SETS[0][1]])))
        ash = audio_msgs_header(acodec, sfi if sfi is not None else 4, 2)
        own = {"aac": 10, "opus": 13, "g711a": 7}[acodec]
        ms = [metadata_msg(own, None), vsh] + ash + [metadata_msg(own, mrate)]
        for i in range(6):
            ms.append(audio_msg(rng, acodec, 23 * i, 40))
            ms.append(video_msg("avc", i % 3 == 0, 40 * i, 0, [nal_token(rng, bytes([0x65 if i % 3 == 0 else 0x41]), 20)[0]]))
        yield Case(e2e_line(1000, 0, 1, ms, {0: ["Jr:1"], 5: ["Jr:2"]}, wk=0, tsgop=0), cls="e2e-meta")
    # a track that JOINS LATE and whose first message already yields TS output: Opus (no sequence header) after 16, 17, 40
    # video-only messages - the PMT that announces the track must be in front of its first packet (a demultiplexer drops
    # packets of a PID no PMT lists yet); also with the scripted FlushAudio observer and through logic.Group
    for k in (16, 17, 40):
        for vc in ("avc", "hevc"):
            for mode in (("classic",) if vc == "avc" else ("classic", "ex1")):
                if vc == "avc":
                    ms = [Msg(9, 0, hex_tok(avc_seq_header([AVC_SETS[0][0]], [AVC_SETS[0][1]])))]
                    key_h, non_h = bytes([0x65]), bytes([0x41])
                else:
                    ms = [Msg(9, 0, hex_tok(hevc_seq_header(*HEVC_SETS[0], enhanced=mode != "classic")))]
                    key_h, non_h = bytes([0x26, 0x01]), bytes([0x02, 0x01])
                for i in range(k - 1):
                    ms.append(video_msg(vc, i % 5 == 0, 40 * i, 0, [nal_token(rng, key_h if i % 5 == 0 else non_h, 8)[0]], mode))
                t = 40 * (k - 1)
                for i in range(4):
                    ms.append(audio_msg(rng, "opus", t + 20 * i, 30))
                    ms.append(video_msg(vc, i == 2, t + 40 * i + 5, 0, [nal_token(rng, key_h if i == 2 else non_h, 8)[0]], mode))
                for script in ("", "1"):
                    yield Case(ts_line(script, ms), cls="ts-late-join")
                if k != 40:
                    yield Case(e2e_line(400, 1, 0, ms, {0: ["Jt:1"], k + 3: ["Jt:2"]}, wk=0, tsgop=rng.choice([0, 1])), cls="e2e-late-join")
    # ... and late VIDEO after audio-only, the first late message being a FRAME (an inter frame passes although no parameter
    # sets are cached yet), then the sequence header and a key frame: AVC, HEVC classic and enhanced-RTMP form
    for k in (16, 17, 40):
        for ac in ("aac", "opus"):
            for vc, mode in (("avc", "classic"), ("hevc", "classic"), ("hevc", "ex1")):
                ms = list(audio_msgs_header(ac, 4, 2))
                for i in range(k - len(ms)):
                    ms.append(audio_msg(rng, ac, 23 * i, 20))
                t = 23 * k
                if vc == "avc":
                    vsh = Msg(9, t + 40, hex_tok(avc_seq_header([AVC_SETS[0][0]], [AVC_SETS[0][1]])))
                    key_h, non_h = bytes([0x65]), bytes([0x41])
                else:
                    vsh = Msg(9, t + 40, hex_tok(hevc_seq_header(*HEVC_SETS[0], enhanced=mode != "classic")))
                    key_h, non_h = bytes([0x26, 0x01]), bytes([0x02, 0x01])
                ms.append(video_msg(vc, False, t, 0, [nal_token(rng, non_h, 8)[0]], mode))
                ms.append(audio_msg(rng, ac, t + 10, 20))
                ms.append(vsh)
                ms.append(video_msg(vc, True, t + 40, 0, [nal_token(rng, key_h, 8)[0]], mode))
                ms.append(audio_msg(rng, ac, t + 50, 20))
                ms.append(video_msg(vc, False, t + 80, 0, [nal_token(rng, non_h, 8)[0]], mode))
                yield Case(ts_line("", ms), cls="ts-late-join-video")
    # late sequence headers (after the probe / analysis windows): known limitation classes
    for k in (17, 20):
        ms = gen_stream(rng, "avc", "aac", 6, k + 8, dict(vsh_at=k + 2, video_start=23 * (k + 2), sizes=[9], audio_sizes=[8], sfi=4))
        yield Case(ts_line("", ms), cls="ts-late-track")
        yield Case(rtsp_line(ms), cls="rtsp-late-track")


# ================================================================================================== reference readers of the INPUT
class Pub:
    """what was published, read from the case line with reference parsers (FLV spec E.4.3, enhanced RTMP v1, ISO 14496-15)"""

    def __init__(self):
        self.items = []      # in order: dict(kind=..., ...)


def parse_avc_record(b):
    """AVCDecoderConfigurationRecord -> ([sps], [pps])"""
    if len(b) < 7 or b[0] != 1:
        raise ValueError("avcC")
    n = b[5] & 31
    i = 6
    spss, ppss = [], []
    for _ in range(n):
        ln = (b[i] << 8) | b[i + 1]
        spss.append(bytes(b[i + 2:i + 2 + ln]))
        i += 2 + ln
    m = b[i]
    i += 1
    for _ in range(m):
        ln = (b[i] << 8) | b[i + 1]
        ppss.append(bytes(b[i + 2:i + 2 + ln]))
        i += 2 + ln
    return spss, ppss


def parse_hevc_record(b):
    """HEVCDecoderConfigurationRecord -> {type: [nal]}"""
    if len(b) < 23 or b[0] != 1:
        raise ValueError("hvcC")
    n = b[22]
    i = 23
    out = {}
    for _ in range(n):
        t = b[i] & 63
        cnt = (b[i + 1] << 8) | b[i + 2]
        i += 3
        for _k in range(cnt):
            ln = (b[i] << 8) | b[i + 1]
            out.setdefault(t, []).append(bytes(b[i + 2:i + 2 + ln]))
            i += 2 + ln
    return out


def read_video_tag(p):
    """-> dict(codec, kind='seq'|'nalu'|'other', key, cts, data)"""
    b0 = p[0]
    if b0 & 0x80:
        ft, pt = (b0 >> 4) & 7, b0 & 15
        four = bytes(p[1:5])
        codec = "hevc" if four == b"hvc1" else "other"
        if pt == 0:
            return dict(codec=codec, kind="seq", key=ft == 1, cts=0, data=bytes(p[5:]), enhanced=True)
        if pt == 1:
            return dict(codec=codec, kind="nalu", key=ft == 1, cts=int.from_bytes(p[5:8], "big"), data=bytes(p[8:]), enhanced=True)
        if pt == 3:
            return dict(codec=codec, kind="nalu", key=ft == 1, cts=0, data=bytes(p[5:]), enhanced=True)
        return dict(codec=codec, kind="other", key=False, cts=0, data=b"", enhanced=True)
    ft, cid = b0 >> 4, b0 & 15
    codec = {7: "avc", 12: "hevc"}.get(cid, "other")
    if len(p) < 5:
        return dict(codec=codec, kind="other", key=False, cts=0, data=b"", enhanced=False)
    kind = {0: "seq", 1: "nalu"}.get(p[1], "other")
    return dict(codec=codec, kind=kind, key=ft == 1, cts=int.from_bytes(p[2:5], "big"), data=bytes(p[5:]), enhanced=False)


def nal_type(codec, u):
    return (u[0] & 31) if codec == "avc" else ((u[0] >> 1) & 63)


PARAM_TYPES = {"avc": (7, 8), "hevc": (32, 33, 34)}
AUD_TYPE = {"avc": 9, "hevc": 35}
TS_DROPPED = {"avc": (9, 7, 8), "hevc": (35, 32, 33, 34, 39, 40)}


def is_key_nal(codec, u):
    t = nal_type(codec, u)
    return t == 5 if codec == "avc" else 16 <= t <= 23


def read_published(items):
    """items: the ';' separated items of a case line -> list of published things in order"""
    out = []
    for it in items:
        f = it.split(":")
        if f[0] == "M":
            ty, ts, p = int(f[1]), int(f[2]), tok_bytes(f[3])
            if ty == 9 and len(p) > 5:
                v = read_video_tag(p)
                if v["kind"] == "seq":
                    try:
                        if v["codec"] == "avc":
                            spss, ppss = parse_avc_record(v["data"])
                            out.append(dict(kind="vsh", codec="avc", params=spss + ppss, ts=ts, counts=(len(spss), len(ppss))))
                        else:
                            r = parse_hevc_record(v["data"])
                            out.append(dict(kind="vsh", codec="hevc", params=r.get(32, []) + r.get(33, []) + r.get(34, []), ts=ts))
                    except (ValueError, IndexError):
                        out.append(dict(kind="junk"))
                elif v["kind"] == "nalu" and v["codec"] in ("avc", "hevc"):
                    try:
                        nals = R19F.ref_avcc(v["data"])
                    except ValueError:
                        out.append(dict(kind="junk"))
                        continue
                    out.append(dict(kind="video", codec=v["codec"], key=v["key"], ts=ts, cts=v["cts"], nals=nals))
                else:
                    out.append(dict(kind="junk"))
            elif ty == 8 and len(p) > 2:
                fmt = p[0] >> 4
                if fmt == 10:
                    if p[1] == 0:
                        out.append(dict(kind="ash", asc=bytes(p[2:]), ts=ts))
                    else:
                        out.append(dict(kind="audio", codec="aac", ts=ts, frame=bytes(p[2:])))
                elif fmt in (13, 7, 8):
                    out.append(dict(kind="audio", codec={13: "opus", 7: "g711a", 8: "g711u"}[fmt], ts=ts, frame=bytes(p[1:])))
                else:
                    out.append(dict(kind="junk"))
            else:
                out.append(dict(kind="junk", ty=ty))
        elif f[0] == "I":
            out.append(dict(kind="meta", acodec=None if f[1] == "-" else int(f[1]), rate=None if f[2] == "-" else int(f[2])))
        elif f[0] in ("F", "D"):
            out.append(dict(kind=f[0]))
    return out


# ================================================================================================== oracle: c06.ts
def subseq_match(expected, got, eq):
    """got must be a subsequence of expected that contains every mandatory entry; returns error text or None.
    expected: list of (value, mandatory)"""
    i = 0
    for g in got:
        while i < len(expected) and not eq(expected[i][0], g):
            if expected[i][1]:
                return "expected unit %d missing (or out of order)" % i
            i += 1
        if i >= len(expected):
            return "a recovered unit is not one of the published ones (or is repeated / out of order)"
        i += 1
    while i < len(expected):
        if expected[i][1]:
            return "published unit %d was not recovered" % i
        i += 1
    return None


def read_pmt_packet(pkt):
    """one PMT packet -> {pid: (stream_type, descriptors)}"""
    pid1, pmt = R09.ref_section(pkt)
    if pmt["table_id"] != 2:
        raise R09.Bad("not a PMT")
    d = pmt["data"]
    pil = ((d[2] & 15) << 8) | d[3]
    es = d[4 + pil:]
    streams = {}
    i = 0
    while i < len(es):
        st, pid, eil = es[i], ((es[i + 1] & 31) << 8) | es[i + 2], ((es[i + 3] & 15) << 8) | es[i + 4]
        streams[pid] = (st, R09.ref_descriptors(es[i + 5:i + 5 + eil]))
        i += 5 + eil
    return pid1, pmt["ext"], pmt["version"], streams


def demux_ts(data):
    """a conforming demultiplexer of one program: PAT (PID 0) names the PMT PID, the PMT in force names the elementary
    streams; packets of a PID the PMT in force does not announce are IGNORED; a changed PMT must carry another
    version_number.  -> ({pid: [unit dict(pts, dts, rai, sid, payload, index, stype)]}, number of PMT versions seen)"""
    if len(data) % 188:
        raise R09.Bad("TS output is %d bytes" % len(data))
    pmt_pid = None
    streams = None
    version = None
    nver = 0
    cur = {}        # pid -> (last cc, [idx, [packets]] of the unit being collected)
    done = {}       # pid -> finished units
    last_cc = {}

    def finish(pid):
        u = cur.pop(pid, None)
        if u is not None:
            idx, ds, stype = u
            pes = R09.ref_pes(b"".join(x["payload"] for x in ds))
            done.setdefault(pid, []).append(dict(pts=pes["pts"], dts=pes["dts"] if pes["dts"] is not None else pes["pts"], rai=ds[0]["rai"],
                                                 sid=pes["sid"], payload=pes["payload"], index=idx, stype=stype))

    for k in range(0, len(data), 188):
        pkt = data[k:k + 188]
        d = R09.ref_ts_packet(pkt)
        pid = d["pid"]
        if pid == 0:
            pid0, pat = R09.ref_section(pkt)
            if pat["table_id"] != 0:
                raise R09.Bad("PID 0 does not carry a PAT")
            progs = [((pat["data"][i] << 8) | pat["data"][i + 1], ((pat["data"][i + 2] & 31) << 8) | pat["data"][i + 3]) for i in range(0, len(pat["data"]), 4)]
            if len(progs) != 1:
                raise R09.Bad("PAT with %d programs" % len(progs))
            pmt_pid = progs[0][1]
            continue
        if pmt_pid is not None and pid == pmt_pid:
            _, _, ver, st = read_pmt_packet(pkt)
            if streams is not None and st != streams and ver == version:
                raise R09.Bad("the PMT changed but kept version_number %d" % ver)
            if streams is None or st != streams:
                nver += 1
                # streams that are no longer announced end here
                for p in list(cur):
                    if p not in st:
                        finish(p)
            streams, version = st, ver
            continue
        if streams is None or pid not in streams:
            continue          # not (yet) announced: a conforming demultiplexer ignores it
        if d["disc"]:
            raise R09.Bad("discontinuity_indicator")
        if not d["afc"] & 1:
            raise R09.Bad("packet without payload on PID 0x%x" % pid)
        if pid in last_cc and d["cc"] != (last_cc[pid] + 1) % 16:
            raise R09.Bad("continuity counter jumps from %d to %d on PID 0x%x" % (last_cc[pid], d["cc"], pid))
        last_cc[pid] = d["cc"]
        if d["pusi"]:
            finish(pid)
            cur[pid] = (k // 188, [d], streams[pid][0])
        else:
            if pid not in cur:
                if pid in done:
                    raise R09.Bad("PID 0x%x: continuation packet without a unit start" % pid)
                continue      # joined in the middle of a unit that started before the PID was announced
            cur[pid][1].append(d)
    for p in list(cur):
        finish(p)
    return done, nver


def split_adts(b):
    """ISO 14496-3 1.A.2/1.A.3: adts_frame()* tiling b exactly -> [(header dict, raw_data)]"""
    out = []
    i = 0
    while i < len(b):
        if len(b) - i < 7:
            raise ValueError("truncated ADTS header")
        h = R19A.ref_adts(b[i:i + 7])
        if h["syncword"] != 0xFFF or h["layer"] != 0:
            raise ValueError("no ADTS syncword at %d" % i)
        hl = 7 if h["protection_absent"] else 9
        if h["frame_length"] < hl or i + h["frame_length"] > len(b):
            raise ValueError("aac_frame_length %d does not fit" % h["frame_length"])
        if h["blocks"] != 0:
            raise ValueError("several raw data blocks")
        out.append((h, bytes(b[i + hl:i + h["frame_length"]])))
        i += h["frame_length"]
    return out


def expected_video_units(pub):
    """per published video message (after AUD / parameter set / HEVC SEI removal): list of dict(kept, key, ts, cts, allowed params, mandatory)"""
    out = []
    cur = None       # parameter sets in force
    codec = None
    for it in pub:
        if it["kind"] == "vsh":
            cur = list(it["params"])
            codec = it["codec"]
        elif it["kind"] == "video":
            c = it["codec"]
            kept = [u for u in it["nals"] if nal_type(c, u) not in TS_DROPPED[c]]
            inband = [u for u in it["nals"] if nal_type(c, u) in PARAM_TYPES[c]]
            before = list(cur) if cur is not None else None
            if inband and all(any(nal_type(c, u) == t for u in inband) for t in PARAM_TYPES[c]):
                cur = [[u for u in inband if nal_type(c, u) == t][-1] for t in ((32, 33, 34) if c == "hevc" else (7, 8))]
                codec = c
            if not kept:
                continue
            out.append(dict(kept=kept, key=it["key"], ts=it["ts"], cts=it["cts"], codec=c, before=before, after=list(cur) if cur is not None else None,
                            has_key_nal=any(is_key_nal(c, u) for u in kept), mandatory=before is not None or cur is not None))
    return out


def check_video_unit(u, e):
    """u: demuxed unit, e: expected entry -> error or None (NAL level)"""
    c = e["codec"]
    try:
        nals = R19F.ref_annexb(u["payload"])
    except ValueError as ex:
        return "video PES payload is not an Annex B byte stream: %s" % ex
    if not nals or nal_type(c, nals[0]) != AUD_TYPE[c]:
        return "access unit does not start with an access unit delimiter"
    rest = nals[1:]
    allowed = (e["before"] or []) + (e["after"] or [])
    body = [x for x in rest if nal_type(c, x) not in PARAM_TYPES[c]]
    if body != e["kept"]:
        if len(body) != len(e["kept"]):
            return "%d NAL units recovered, %d published (after AUD / parameter set / SEI removal)" % (len(body), len(e["kept"]))
        k = next(i for i in range(len(body)) if body[i] != e["kept"][i])
        return "NAL unit %d differs from the published one (%d vs %d bytes)" % (k, len(body[k]), len(e["kept"][k]))
    for x in rest:
        if nal_type(c, x) in PARAM_TYPES[c] and x not in allowed:
            return "inserted parameter set is not one in force"
    if any(nal_type(c, x) == AUD_TYPE[c] for x in rest):
        return "a second access unit delimiter"
    if e["has_key_nal"]:
        first_key = next(i for i, x in enumerate(rest) if is_key_nal(c, x))
        pre = rest[:first_key]
        for want in (e["after"], e["before"]):
            if want is not None and all(w in pre for w in want):
                break
        else:
            return "key picture without the parameter sets in force in front of it"
    else:
        if len(rest) != len(body):
            return "parameter sets inserted into a non-key access unit"
    return None


def ts_clock_check(pairs, what):
    """pairs: [(90 * published time, value33, first published time of the track, published time)]: ONE constant per
    track on the 33-bit clock, also for frames stamped below the first frame of their track (clock restart, 32-bit
    wrap of the RTMP time stamp; F-23, fixed) -> (error or None, False)"""
    base = None
    for want, got, first_ts, ts in pairs:
        if base is None:
            base = (got - want) % M33
        elif (got - want) % M33 != base:
            return ("%s clock: %d for published time %d (constant of the track %d)" % (what, got, ts, base), False)
    return (None, False)


def parse_patpmt(pp):
    """376 bytes -> {pid: (stream_type, descriptors)}; raises on anything a conforming reader refuses"""
    if len(pp) != 376:
        raise R09.Bad("PAT/PMT block is %d bytes" % len(pp))
    pid0, pat = R09.ref_section(pp[:188])
    pid1, pmt = R09.ref_section(pp[188:])
    if pid0 != 0 or pat["table_id"] != 0:
        raise R09.Bad("first packet is not a PAT")
    progs = [((pat["data"][i] << 8) | pat["data"][i + 1], ((pat["data"][i + 2] & 31) << 8) | pat["data"][i + 3]) for i in range(0, len(pat["data"]), 4)]
    if len(progs) != 1 or progs[0][1] != pid1 or pmt["table_id"] != 2 or pmt["ext"] != progs[0][0]:
        raise R09.Bad("PAT does not point at the PMT")
    d = pmt["data"]
    pil = ((d[2] & 15) << 8) | d[3]
    es = d[4 + pil:]
    streams = {}
    i = 0
    while i < len(es):
        st, pid, eil = es[i], ((es[i + 1] & 31) << 8) | es[i + 2], ((es[i + 3] & 15) << 8) | es[i + 4]
        streams[pid] = (st, R09.ref_descriptors(es[i + 5:i + 5 + eil]))
        i += 5 + eil
    return streams


def check_ts_stream(pub, data, disposed, suffix):
    """the property for one transport stream (`data` = all its packets, PAT/PMT included).
    suffix=False: the stream holds everything from the start (c06.ts); suffix=True: a consumer that joined somewhere:
    every track must be a tail of what was published.  Returns (ok, why); why starts with a finding tag when it is one."""
    try:
        units, nver = demux_ts(data)
    except (R09.Bad, ValueError, IndexError) as ex:
        return False, "TS output does not demultiplex: %s" % ex
    for pid in units:
        if pid not in (0x100, 0x101):
            return False, "unexpected PID 0x%x" % pid
    if nver > 3:
        return False, "%d versions of the PMT for two tracks" % nver
    # ---- video
    vexp = expected_video_units(pub)
    vun = units.get(0x100, [])
    if vun:
        codec = vexp[0]["codec"] if vexp else None
        want_type = {"avc": 0x1B, "hevc": 0x24}.get(codec)
        if any(u["stype"] != want_type for u in vun):
            return False, "video PID 0x100 carries %s but the PMT declares stream type 0x%x" % (codec, vun[0]["stype"])

    def veq(e, u):
        return check_video_unit(u, e) is None
    if suffix:
        if len(vun) > len(vexp):
            return False, "video: %d access units recovered, %d published" % (len(vun), len(vexp))
        vcand = vexp[len(vexp) - len(vun):]
        for k, (e, u) in enumerate(zip(vcand, vun)):
            why = check_video_unit(u, e)
            if why:
                return False, "video frame %d from the join point: %s" % (k, why)
        if vun and not (vcand[0]["has_key_nal"] and vcand[0]["key"]):
            return False, "the consumer's first video frame is not a key frame"
        vmatched = list(zip(vcand, vun))
    else:
        err = subseq_match([(e, e["mandatory"]) for e in vexp], vun, veq)
        if err:
            k = 0
            for u in vun:
                while k < len(vexp) and not veq(vexp[k], u) and not vexp[k]["mandatory"]:
                    k += 1
                if k >= len(vexp):
                    return False, "video: " + err
                why = check_video_unit(u, vexp[k])
                if why:
                    return False, "video frame %d: %s" % (k, why)
                k += 1
            return False, "video: " + err
        vmatched = []
        k = 0
        for u in vun:
            while not veq(vexp[k], u):
                k += 1
            vmatched.append((vexp[k], u))
            k += 1
    pairs_d, pairs_p = [], []
    # "below the base" is judged against the first frame of the TRACK (the filter's base), which a late joiner does not see
    track_first_v = next((e["ts"] for e in vexp if e["mandatory"]), None)
    for e, u in vmatched:
        pairs_d.append((90 * e["ts"], u["dts"], track_first_v, e["ts"]))
        pairs_p.append((90 * (e["ts"] + e["cts"]), u["pts"], track_first_v, e["ts"]))
        if u["rai"] != e["key"]:
            return False, "random_access_indicator %s on a frame published as key=%s" % (u["rai"], e["key"])
        if u["sid"] != 0xE0:
            return False, "video stream id 0x%x" % u["sid"]
    # ---- audio
    aun = units.get(0x101, [])
    aexp = []      # (frame, asc or None, ts, mandatory)
    asc = None
    acodec = None
    for it in pub:
        if it["kind"] == "ash":
            asc = it["asc"]
        elif it["kind"] == "audio" and it["codec"] in ("aac", "opus"):
            acodec = acodec or it["codec"]
            if it["codec"] == "aac":
                aexp.append((it["frame"], asc, it["ts"], asc is not None and len(asc) >= 2))
            else:
                aexp.append((it["frame"], None, it["ts"], True))
    got = []       # (frame, header or None, pts of its PES or None when not the first of the PES)
    try:
        for u in aun:
            if u["sid"] != 0xC0:
                return False, "audio stream id 0x%x" % u["sid"]
            if u["rai"]:
                return False, "random access mark on an audio unit"
            if acodec == "aac":
                fr = split_adts(u["payload"])
                if not fr:
                    return False, "empty audio PES"
                for j, (h, raw) in enumerate(fr):
                    got.append((raw, h, u["pts"] if j == 0 else None, u))
            else:
                got.append((u["payload"], None, u["pts"], u))
    except ValueError as ex:
        return False, "audio PES payload is not a sequence of ADTS frames: %s" % ex
    if aun:
        want = {"aac": 0x0F, "opus": 0x06}.get(acodec)
        if any(u["stype"] != want for u in aun):
            return False, "audio PID 0x101 carries %s but the PMT declares stream type 0x%x" % (acodec, aun[0]["stype"])
    if suffix:
        mand = [x for x in aexp if x[3]]
        if len(got) > len(mand):
            return False, "audio: %d frames recovered, %d published" % (len(got), len(mand))
        acand = mand[len(mand) - len(got):]
        for k, (x, g) in enumerate(zip(acand, got)):
            if x[0] != g[0]:
                return False, "audio frame %d from the join point differs from the published one" % k
        amatched = list(zip(acand, got))
    else:
        exp_list = [((f, a, t), m and disposed) for (f, a, t, m) in aexp]
        err = subseq_match(exp_list, got, lambda e, g: e[0] == g[0])
        if err:
            return False, "audio: " + err
        amatched = []
        k = 0
        for g in got:
            while aexp[k][0] != g[0]:
                k += 1
            amatched.append((aexp[k], g))
            k += 1
    pairs_a = []
    track_first_a = next((x[2] for x in aexp if x[3]), None)
    for (f, a, t, m), g in amatched:
        if g[1] is not None:
            ra = R19A.ref_asc(a) if a is not None else None
            h = g[1]
            if ra is None or ra.get("escape"):
                return False, "AAC frame without a usable AudioSpecificConfig in force"
            if h["id"] != 0 or h["protection_absent"] != 1 or h["profile"] != (ra["aot"] - 1) & 3 or h["sfi"] != ra["sfi"] or h["chan"] != ra["chan"] & 7:
                return False, "ADTS header (profile %d, index %d, channels %d) does not match the AudioSpecificConfig (%d, %d, %d)" % (
                    h["profile"], h["sfi"], h["chan"], ra["aot"], ra["sfi"], ra["chan"])
            if h["frame_length"] != len(f) + 7:
                return False, "aac_frame_length %d for a %d byte frame" % (h["frame_length"], len(f))
        if g[2] is not None:
            pairs_a.append((90 * t, g[2], track_first_a, t))
    # ---- clocks
    kf = None
    for pairs, what in ((pairs_d, "video DTS"), (pairs_p, "video PTS"), (pairs_a, "audio PTS")):
        e2, below = ts_clock_check(pairs, what)
        if e2:
            if below:
                kf = e2
            else:
                return False, e2
    if kf:
        return False, kf
    return True, ""


def oracle_ts(line_items, out):
    pub = read_published(line_items)
    items = [] if out == "-" else out.split(";")
    if out.startswith(("panic", "crash", "timeout", "bad-", "unknown-op", "err")):
        return False, "remuxer failed: " + out[:80]
    pats = [i for i, x in enumerate(items) if x.startswith("P:")]
    tsi = [x for x in items if x.startswith("T:")]
    if not items:
        # nothing came out: acceptable only while the probe has not seen both codecs / 16 messages
        msgs = [p for p in pub if p["kind"] not in ("F", "D", "meta")]
        has_v = any(p["kind"] in ("vsh", "video") for p in msgs)
        has_a = any(p["kind"] in ("ash", "audio") for p in msgs)
        if (has_v and has_a) or len(msgs) >= 16:
            return False, "no output although the probe window was complete"
        return True, ""
    if not pats or pats[0] != 0:
        return False, "PAT/PMT must come first (positions %r)" % pats
    data = b""
    prev = None
    for x in items:
        if x.startswith("P:"):
            pp = tok_bytes(x[2:])
            try:
                st = parse_patpmt(pp)
            except (R09.Bad, ValueError, IndexError) as ex:
                return False, "PAT/PMT: %s" % ex
            if prev is not None and not (set(prev) < set(st) and all(st[k] == prev[k] for k in prev)):
                return False, "PAT/PMT repeated without announcing a new track"
            prev = st
            data += pp
        elif x.startswith("T:"):
            f = x.split(":")
            if f[9] == "1" and num(f[2]) == 0x100 and f[4] != "1":
                return False, "boundary flag on a non-key video frame"
            data += tok_bytes(f[11])
    disposed = any(p["kind"] == "D" for p in pub[-1:])
    return check_ts_stream(pub, data, disposed, False)


def analysis_end(pub):
    """index (in pub) of the message with which Rtmp2RtspRemuxer's analysis phase ends, None if it never does:
    both kinds of header known (video sequence header + AAC sequence header / a G.711 or Opus message / metadata
    naming such a codec), or 16 other messages cached"""
    vsh = ash = apt = False
    cached = 0
    for i, p in enumerate(pub):
        k = p["kind"]
        if k == "meta":
            if p["acodec"] in (7, 8, 13):
                apt = True
            continue
        if k == "vsh":
            vsh = True
        elif k == "ash":
            ash = True
        elif k == "audio" and p["codec"] != "aac":
            apt = True
            cached += 1
        elif k in ("audio", "video"):
            cached += 1
        elif k == "junk" and p.get("ty") not in (8, 9):
            cached += 1
        else:
            continue
        if (vsh and (ash or apt)) or cached >= 16:
            return i
    return None


# ================================================================================================== oracle: c06.rtsp
def oracle_rtsp(line_items, out):
    pub = read_published(line_items)
    if out.startswith(("panic", "crash", "timeout", "bad-", "unknown-op", "err")):
        return False, "remuxer failed: " + out[:80]
    items = [] if out == "-" else out.split(";")
    msgs = [p for p in pub if p["kind"] not in ("meta",)]
    sd = [i for i, x in enumerate(items) if x.startswith("S:")]
    if not items:
        return True, ""       # still analysing (fewer than 16 cached messages and a header missing)
    if sd != [0]:
        return False, "SDP must come exactly once, before every RTP packet (positions %r)" % sd
    raw = tok_bytes(items[0][2:])
    try:
        _, medias = R19S.rfc_read_sdp(raw)
        views = {}
        for m in medias:
            v = R19S.rfc_rtp_view(m)
            views[v["media"]] = v
    except R19S.SdpError as ex:
        return False, "SDP: %s" % ex
    # published configuration at the time the SDP was produced = first headers
    vsh = next((p for p in pub if p["kind"] == "vsh"), None)
    ash = next((p for p in pub if p["kind"] == "ash"), None)
    pk = {"a": [], "v": []}
    for x in items[1:]:
        f = x.split(":")
        if f[0] != "R":
            return False, "unexpected item " + x[:20]
        pk[f[1]].append(dict(pt=num(f[2]), m=num(f[3]), seq=num(f[4]), ts=num(f[5]), payload=tok_bytes(f[6])))
    for tr in ("a", "v"):
        for i, p in enumerate(pk[tr]):
            if p["seq"] != i & 0xFFFF:
                return False, "%s sequence number %d at position %d" % (tr, p["seq"], i)
    late = []
    end = analysis_end(pub)
    i_vsh = next((i for i, p in enumerate(pub) if p["kind"] == "vsh"), None)
    i_ash = next((i for i, p in enumerate(pub) if p["kind"] == "ash"), None)
    late_v = end is not None and i_vsh is not None and i_vsh > end
    late_a = end is not None and i_ash is not None and i_ash > end
    # ---- video
    vframes = [p for p in pub if p["kind"] == "video"]
    if pk["v"]:
        if b"video" not in views:
            return False, "video packets without a video section in the SDP"
        vv = views[b"video"]
        codec = {b"H264": "avc", b"H265": "hevc"}.get(vv["codec"])
        if codec is None or vsh is None or codec != vsh["codec"]:
            return False, "SDP video codec %r, published %r" % (vv["codec"], vsh and vsh["codec"])
        if codec == "avc":
            if vv.get("nals") != vsh["params"][:1] + [p for p in vsh["params"] if nal_type("avc", p) == 8][:1]:
                return False, "sprop-parameter-sets differ from the published sequence header"
        else:
            if (vv.get("vpss"), vv.get("spss"), vv.get("ppss")) != tuple([[x] for x in vsh["params"][:3]]):
                return False, "sprop-vps/sps/pps differ from the published sequence header"
        groups, cur = [], []
        for p in pk["v"]:
            if p["pt"] != vv["pt"]:
                return False, "video payload type %d, SDP says %d" % (p["pt"], vv["pt"])
            cur.append(p)
            if p["m"]:
                groups.append(cur)
                cur = []
        if cur:
            return False, "last video frame has no marker"
        exp = []
        for fr in vframes:
            u = [x for x in fr["nals"] if nal_type(fr["codec"], x) != AUD_TYPE[fr["codec"]]]
            if u:
                exp.append((u, fr["ts"]))
        if len(groups) != len(exp):
            if vsh is not None and len(groups) < len(exp):
                return False, "%d video frames recovered, %d published" % (len(groups), len(exp))
            return False, "%d video frames recovered, %d published" % (len(groups), len(exp))
        for g, (u, ts) in zip(groups, exp):
            if len(set(p["ts"] for p in g)) != 1:
                return False, "one frame, several RTP time stamps"
            try:
                got = (R12.ref_depack_h264 if codec == "avc" else R12.ref_depack_h265)([p["payload"] for p in g])
            except ValueError as ex:
                return False, "video depacketisation: %s" % ex
            if got != u:
                return False, "video frame at %d ms: depacketised NAL units differ from the published ones (%d vs %d units)" % (ts, len(got), len(u))
            want = ts * 90
            if min((g[0]["ts"] - want) % (1 << 32), (want - g[0]["ts"]) % (1 << 32)) > 1:
                return False, "video RTP time stamp %d for %d ms" % (g[0]["ts"], ts)
            if any(len(p["payload"]) > 1200 for p in g):
                return False, "RTP payload above 1200 bytes"
    elif vframes and vsh is not None and any(p["kind"] == "video" and p["nals"] for p in pub):
        exp = [fr for fr in vframes if [x for x in fr["nals"] if nal_type(fr["codec"], x) != AUD_TYPE[fr["codec"]]]]
        if exp:
            if not late_v:
                return False, "no video packet although %d frames and a sequence header were published" % len(exp)
            late.append("no video packet although %d frames and a sequence header were published" % len(exp))
    # ---- audio
    aframes = [p for p in pub if p["kind"] == "audio"]
    if pk["a"]:
        if b"audio" not in views:
            return False, "audio packets without an audio section in the SDP"
        av = views[b"audio"]
        name = av["codec"]
        acodec = aframes[0]["codec"] if aframes else None
        want_name = {"aac": b"MPEG4-GENERIC", "opus": b"OPUS", "g711a": b"PCMA", "g711u": b"PCMU"}.get(acodec)
        if name != want_name:
            return False, "SDP audio codec %r, published %r" % (name, acodec)
        rate = av["rate"]
        if acodec == "aac":
            if ash is None or av["asc"] != ash["asc"]:
                return False, "SDP config differs from the published AudioSpecificConfig"
            ra = R19A.ref_asc(ash["asc"])
            if ra.get("freq") != rate:
                return False, "SDP clock rate %d, AudioSpecificConfig says %r" % (rate, ra.get("freq"))
        exp = [(fr["frame"], fr["ts"]) for fr in aframes if acodec != "aac" or ash is not None]
        if len(pk["a"]) != len(exp):
            return False, "%d audio packets, %d frames published" % (len(pk["a"]), len(exp))
        meta_rate = next((p["rate"] for p in pub if p["kind"] == "meta" and p["rate"]), None)
        for p, (fr, ts) in zip(pk["a"], exp):
            if p["pt"] != av["pt"] or not p["m"]:
                return False, "audio payload type / marker"
            try:
                got = R12.ref_depack_aac([p["payload"]]) if acodec == "aac" else [p["payload"]]
            except ValueError as ex:
                return False, "audio depacketisation: %s" % ex
            if got != [fr]:
                return False, "audio frame at %d ms differs" % ts
            want = ts * rate // 1000
            if min((p["ts"] - want) % (1 << 32), (want - p["ts"]) % (1 << 32)) > 1:
                return False, "audio RTP time stamp %d for %d ms at %d Hz" % (p["ts"], ts, rate)
    elif aframes and (aframes[0]["codec"] != "aac" or ash is not None):
        if not late_a:
            return False, "no audio packet although %d frames were published" % len(aframes)
        late.append("no audio packet although %d frames were published" % len(aframes))
    if late:
        return False, "LATE-SH " + late[0]
    return True, ""


# ================================================================================================== oracle: c06.e2e
def read_m3u8(text):
    """RFC 8216 media playlist -> (target duration, [(EXTINF seconds, uri)])"""
    lines = text.decode("latin-1").split("\n")
    if not lines or lines[0].strip() != "#EXTM3U":
        raise ValueError("no #EXTM3U")
    target, items, dur = None, [], None
    for ln in lines[1:]:
        ln = ln.strip()
        if ln.startswith("#EXT-X-TARGETDURATION:"):
            target = int(ln.split(":", 1)[1])
        elif ln.startswith("#EXTINF:"):
            dur = float(ln.split(":", 1)[1].split(",")[0])
        elif ln and not ln.startswith("#"):
            if dur is None:
                raise ValueError("segment without EXTINF")
            items.append((dur, ln))
            dur = None
    if target is None:
        raise ValueError("no EXT-X-TARGETDURATION")
    return target, items


def read_hls_ops(v, frag_ms):
    """the calls hls.Muxer made on the file system layer, in order.  -> (error or None, [segment bytes in creation order]).
    Checked at EVERY play list version written: each listed segment exists by then, its EXTINF rounds to at most the
    target duration, and the duration it is listed with is the span of the time stamps it holds, up to the frame
    that ended it (RFC 8216 4.3.2.1: the duration of the media segment)"""
    order, content, closed, listed = [], {}, set(), set()
    for op in v.split(";"):
        f = op.split(":")
        if f[0] == "cr" and f[1].endswith(".ts"):
            order.append(f[1])
            content[f[1]] = b""
        elif f[0] == "wr" and f[1] in content:
            content[f[1]] += tok_bytes(f[2])
        elif f[0] == "cl":
            closed.add(f[1])
        elif f[0] == "wf" and f[1].endswith("playlist.m3u8.bak"):
            try:
                target, items = read_m3u8(tok_bytes(f[2]))
            except ValueError as ex:
                return "play list: %s" % ex, None
            for dur, uri in items:
                name = next((n for n in order if n.endswith("/" + uri)), None)
                if name is None or name not in closed:
                    return "play list names %s, which is not a finished segment" % uri, None
                if int(dur + 0.5) > target:
                    return "EXTINF %.3f above the target duration %d" % (dur, target), None
                listed.add((name, dur))
    # the durations, against what the segments hold in the end (the frame that ended a segment is written after the play list)
    def stamps_of(name):
        units, _ = demux_ts(content[name])
        return [u["dts"] if pid == 0x100 else u["pts"] for pid, us in units.items() for u in us]
    for name, dur in sorted(listed):
        uri = name.rsplit("/", 1)[1]
        try:
            stamps = stamps_of(name)
        except (R09.Bad, ValueError, IndexError) as ex:
            return "segment %s: %s" % (uri, ex), None
        if not stamps:
            continue
        first = min(stamps)
        span = (max(stamps) - first) / 90000.0
        bound = span
        k = order.index(name)
        if k + 1 < len(order):
            try:
                nst = stamps_of(order[k + 1])
            except (R09.Bad, ValueError, IndexError):
                nst = []
            # the frame that ended the segment counts (it is in the next segment, behind the audio FlushAudio
            # handed over when that segment was opened), unless it forced the split (more than 10 target durations ahead)
            for t in nst:
                nxt = (t - first) / 90000.0
                if 0 <= nxt <= frag_ms * 10 / 1000.0:
                    bound = max(bound, nxt)
        if dur > bound + 0.0015:
            return "segment %s is listed with EXTINF %.3f but holds %.3f s of media (up to the frame that ended it: %.3f s)" % (uri, dur, span, bound), None
    return None, [content[n] for n in order]


GOP_START_TYPES = {"avc": (5, 7, 8), "hevc": tuple(range(16, 24)) + (32, 33, 34)}


def check_rtp_track(codec_kind, pkts, exp, rate, what, gate=False):
    """pkts: [dict(m, seq, ts, payload)] of one track of one subscriber; exp: [(units-or-frame, ts_ms)] published; the
    recovered frames must be a tail of exp.  gate (video with OutWaitKeyFrameFlag): the stream starts at the first
    unit that starts a GOP (IDR / IRAP picture or parameter set) - the units of that frame in front of it are not
    sent - and that is where it must start"""
    for i, p in enumerate(pkts):
        if p["seq"] != i & 0xFFFF:
            return "%s sequence number %d at position %d" % (what, p["seq"], i)
    groups, cur = [], []
    for p in pkts:
        cur.append(p)
        if p["m"]:
            groups.append(cur)
            cur = []
    if cur:
        return "%s: last frame has no marker" % what
    if len(groups) > len(exp):
        return "%s: %d frames recovered, %d published" % (what, len(groups), len(exp))
    cand = exp[len(exp) - len(groups):]
    for g, (u, ts) in zip(groups, cand):
        if len(set(p["ts"] for p in g)) != 1:
            return "%s: one frame, several RTP time stamps" % what
        try:
            if codec_kind == "avc":
                got = R12.ref_depack_h264([p["payload"] for p in g])
            elif codec_kind == "hevc":
                got = R12.ref_depack_h265([p["payload"] for p in g])
            elif codec_kind == "aac":
                got = R12.ref_depack_aac([p["payload"] for p in g])
            else:
                got = [p["payload"] for p in g]
        except ValueError as ex:
            return "%s depacketisation: %s" % (what, ex)
        if gate and g is groups[0]:
            if not got or nal_type(codec_kind, got[0]) not in GOP_START_TYPES[codec_kind]:
                return "%s: a player that waits for a key frame starts with a unit that starts no GOP" % what
            k = len(u) - len(got)
            if k < 0 or u[k:] != got or any(nal_type(codec_kind, x) in GOP_START_TYPES[codec_kind] for x in u[:k]):
                return "%s first frame at %d ms is not the published one from its first GOP-start unit on" % (what, ts)
            got = u
        if got != u:
            return "%s frame at %d ms differs from the published one" % (what, ts)
        want = ts * rate // 1000
        if min((g[0]["ts"] - want) % (1 << 32), (want - g[0]["ts"]) % (1 << 32)) > 1:
            return "%s RTP time stamp %d for %d ms at %d Hz" % (what, g[0]["ts"], ts, rate)
    return None


def oracle_e2e(cfg, line_items, out):
    if out.startswith(("panic", "crash", "timeout", "bad-", "unknown-op", "err")):
        return False, "group run failed: " + out[:80]
    msg_items = [x for x in line_items if x[:2] in ("M:", "I:")]
    pub = read_published(msg_items)
    cf = cfg.split(":")
    wk = len(cf) >= 5 and cf[3] == "1"
    parts = {}
    if out != "-":
        for p in out.split("|"):
            k, _, v = p.partition("=")
            parts[k] = v
    finding = None
    for k, v in parts.items():
        if k.startswith("ts") or k == "hlsops":
            if k == "hlsops":
                if v == "none":
                    continue
                err, segs = read_hls_ops(v, int(cf[0]))
                if err:
                    return False, "hls: " + err
                if not segs:
                    continue
                data = b""
                for sb in segs:
                    try:
                        parse_patpmt(sb[:376])
                    except (R09.Bad, ValueError, IndexError) as ex:
                        return False, "hls segment does not start with PAT/PMT: %s" % ex
                    data += sb
            else:
                data = tok_bytes(v)
                if not data:
                    continue
                try:
                    parse_patpmt(data[:376])
                except (R09.Bad, ValueError, IndexError) as ex:
                    return False, "%s does not start with PAT/PMT: %s" % (k, ex)
            ok, why = check_ts_stream(pub, data, True, True)
            if not ok:
                return False, "%s: %s" % (k, why)
        elif k.startswith("rtp"):
            sid = k[3:]
            raw = tok_bytes(parts.get("sdp" + sid, "-"))
            if not raw:
                if v != "none":
                    return False, "%s: packets without an SDP" % k
                continue
            try:
                _, medias = R19S.rfc_read_sdp(raw)
                views = {}
                for m in medias:
                    vw = R19S.rfc_rtp_view(m)
                    views[vw["media"]] = vw
            except R19S.SdpError as ex:
                return False, "%s SDP: %s" % (k, ex)
            vp, ap = [], []
            if v != "none":
                for x in v.split(","):
                    ch, _, hx = x.partition(".")
                    if ch.startswith("?"):
                        return False, "%s: garbage on the interleaved connection" % k
                    d = R12.parse_rtp(tok_bytes(hx))
                    if d["v"] != 2 or d["p"] or d["x"] or d["cc"]:
                        return False, "%s: RTP header" % k
                    (vp if ch == "0" else ap if ch == "2" else None).append(dict(m=d["m"], seq=d["seq"], ts=d["ts"], payload=d["payload"], pt=d["pt"]))
            vsh = next((p for p in pub if p["kind"] == "vsh"), None)
            if vp:
                vv = views.get(b"video")
                codec = {b"H264": "avc", b"H265": "hevc"}.get(vv["codec"]) if vv else None
                if codec is None or vsh is None or codec != vsh["codec"] or any(p["pt"] != vv["pt"] for p in vp):
                    return False, "%s: video packets do not match the SDP" % k
                exp = []
                for fr in (p for p in pub if p["kind"] == "video"):
                    u = [x for x in fr["nals"] if nal_type(fr["codec"], x) != AUD_TYPE[fr["codec"]]]
                    if u:
                        exp.append((u, fr["ts"]))
                err = check_rtp_track(codec, vp, exp, 90000, "video", gate=wk)
                if err:
                    return False, "%s: %s" % (k, err)
            if ap:
                av = views.get(b"audio")
                aframes = [p for p in pub if p["kind"] == "audio"]
                acodec = aframes[0]["codec"] if aframes else None
                want_name = {"aac": b"MPEG4-GENERIC", "opus": b"OPUS", "g711a": b"PCMA", "g711u": b"PCMU"}.get(acodec)
                if av is None or av["codec"] != want_name or any(p["pt"] != av["pt"] for p in ap):
                    return False, "%s: audio packets do not match the SDP" % k
                exp = [([fr["frame"]], fr["ts"]) for fr in aframes]
                err = check_rtp_track("aac" if acodec == "aac" else "raw", ap, exp, av["rate"], "audio")
                if err:
                    return False, "%s: %s" % (k, err)
    if finding:
        return False, finding
    return True, ""


# ================================================================================================== plumbing
def case_items(line):
    f = line.split(" ")
    return f[0], f[1:]


def oracle(c, out):
    op, a = case_items(c.line)
    try:
        if op == "c06.ts":
            return oracle_ts([] if a[1] == "-" else a[1].split(";"), out)
        if op == "c06.rtsp":
            return oracle_rtsp([] if a[0] == "-" else a[0].split(";"), out)
        if op == "c06.e2e":
            return oracle_e2e(a[0], [] if a[1] == "-" else a[1].split(";"), out)
    except (IndexError, KeyError, ValueError, StopIteration) as ex:
        return False, "oracle could not read the output: %r" % (ex,)
    return None


def classify_finding(c, out):
    r = oracle(c, out)
    if r is None or r[0]:
        return None
    if r[1].startswith("LATE-SH"):
        return "C06-rtsp-late-sequence-header"
    return None


def split_impl(c, out):
    """the part of the implementation's observation the model produces as well"""
    return out


def nontrivial(c, out):
    if out in ("-", "") or out.startswith(("panic", "crash", "bad", "unknown")):
        return None
    n = out.count(";")
    return "%s:%d:%d" % (c.cls, min(n, 40), min(len(out) // 4000, 50))


def neighbors(c, rng):
    op, a = case_items(c.line)
    if op == "c06.ts" and a[1] != "-":
        items = a[1].split(";")
        for k in range(min(len(items), 30)):
            yield "c06.ts %s %s" % (a[0], ";".join(items[:k] + items[k + 1:]) or "-")
        for k in range(1, min(len(items), 30)):
            yield "c06.ts %s %s" % (a[0], ";".join(items[:k]) + ";D")
    elif op == "c06.rtsp" and a[0] != "-":
        items = a[0].split(";")
        for k in range(min(len(items), 30)):
            yield "c06.rtsp %s" % (";".join(items[:k] + items[k + 1:]) or "-")
