# C01 - live relay delivers the publisher's messages intact to RTMP/FLV consumers
from lib.vf import Case
from gen.common import *
from gen import fanout

ID = "C01"
RULE = ("fan-out histories on a real logic.Group with real rtmp/httpflv/ws/httpts sessions over fake conns, a real relay push to a "
        "stub origin and an FLV recording: one consumer of each kind joining at every index of 8 stream shapes under 7 "
        "configurations (GOP cache size, per-GOP cap, merge-write size, recording), then seeded random multi-epoch histories; "
        "each consumer's captured BYTES are parsed back into per-message units; a case is distinct by its text and non-trivial "
        "when some consumer received at least one media unit")
ASSUMPTIONS = ["consumer transports are not back-pressured (fake conns, synchronous writes)",
               "messages are well-framed A/V/metadata with payloads of 0 or >= 5 bytes (shorter payloads: C05)",
               "the relay-push target is lal's own rtmp.Server; its view is compared per decoded message",
               "unit bytes themselves (chunking, FLV tags) are decided by C08/C11/C18; here units are compared byte-exactly against lal's own per-message conversion"]
FULL_OUTPUT = True


def gen_cases(tier, rng):
    # per-message conversion (MakeDefaultRtmpHeader + chunking, FLV tag, @setDataFrame handling): byte-exact
    sdf = fanout.SDF
    metas = [fanout.amf_str(b"onMetaData") + bytes([8, 0, 0, 0, 0, 0, 0, 9]), sdf + fanout.amf_str(b"onMetaData") + bytes([3, 0, 0, 9]),
             sdf, bytes([2, 0, 200, 65]), bytes([12, 0, 0, 0, 13]) + b"@setDataFrame" + fanout.amf_str(b"onMetaData"), bytes([2, 0]), b"\x05"]
    for t in (8, 9, 18):
        for ts in (0, 1, 16777214, 16777215, 16777216, 4294967295):
            for n in (1, 2, 5, 4095, 4096, 4097, 8191, 8192, 8193, 70000 if tier == "thorough" else 12289):
                yield Case("c01.conv %d %d %s" % (t, ts, payload_tok(rng, n)), cls="conv")
    for mp in metas:
        for ts in (0, 16777215):
            yield Case("c01.conv 18 %d %s" % (ts, hex_tok(mp)), cls="conv-meta")
    yield from fanout.gen_histories(tier, rng)
    yield from fanout.gen_wait_histories(tier, rng, counts=(2,))


def split_impl(c, out):
    """popen= (relay-push sessions still open at the end) is observed on the implementation only"""
    return "|".join(p for p in out.split("|") if not p.startswith("popen=")) or "-"


def nontrivial(c, out):
    return c.line if any(x in out for x in ("c", "t")) and not out.startswith(("err", "bad", "model-")) else None


def oracle(c, out):
    """C01 evaluated on the implementation's observation, from the history text alone."""
    if c.line.startswith("c01.conv"):
        return None
    if out.startswith(("panic@", "crash@", "timeout", "err", "bad")):
        return (False, "implementation failed: " + out)
    cfg, evs = fanout.parse_case(c.line)
    obs = fanout.parse_obs(out)
    # ground truth: published messages, epochs, join/leave positions
    msgs = []          # (type, ts, payload, epoch, position)
    joins, leaves, kinds = {}, {}, {}
    epoch = -1
    in_epoch = False
    epoch_spans = []   # (start_pos, end_pos)
    for pos, e in enumerate(evs):
        if e[0] == "I" and not in_epoch:
            epoch += 1
            in_epoch = True
            epoch_spans.append([pos, len(evs)])
        elif e[0] == "O" and in_epoch:
            in_epoch = False
            epoch_spans[-1][1] = pos
        elif e[0] == "P":
            msgs.append((int(e[1]), int(e[2]), tok_bytes(e[3]), epoch if in_epoch else None, pos))
        elif e[0][0] == "J":
            i = e[1]
            if i not in joins:
                joins[i] = pos
                kinds[i] = e[0][1]
        elif e[0] == "L":
            leaves.setdefault(e[1], pos)
    for cid, k in kinds.items():
        if k == "t" or obs.get(cid) == [["!"]]:
            continue   # TS consumers: C02 / C06; consumers whose connection was broken are not observed
        segs = obs.get(cid)
        if segs is None:
            return (False, "consumer %s missing from the observation" % cid)
        if k == "p":
            # one segment per input epoch; each must be prologue + complete contiguous run of that epoch
            spans = epoch_spans
            if len(segs) != len(spans) and not (len(spans) == 0 and segs == [[]]):
                return (False, "push target saw %d sessions for %d input epochs" % (len(segs), len(spans)))
            for ep, seg in enumerate(segs):
                r = check_stream(cfg, msgs, seg, "p", spans[ep][0], spans[ep][1], cid)
                if r:
                    return (False, r)
            continue
        if len(segs) != 1:
            return (False, "consumer %s has %d streams" % (cid, len(segs)))
        seg = segs[0]
        if k in ("f", "w"):
            if seg[:1] != ["HF"]:
                return (False, "HTTP-FLV consumer %s did not get response header + FLV header first" % cid)
            seg = seg[1:]
        r = check_stream(cfg, msgs, seg, k, joins[cid], leaves.get(cid, len(evs)), cid)
        if r:
            return (False, r)
    if cfg.get("rec"):
        segs = obs.get("rec", [])
        if len(segs) != len(epoch_spans) and not (len(epoch_spans) == 0 and segs == [[]]):
            return (False, "%d recordings for %d input epochs" % (len(segs), len(epoch_spans)))
        for ep, seg in enumerate(segs):
            if not epoch_spans:
                break
            if seg[:1] != ["F"]:
                return (False, "recording %d does not start with the FLV header" % ep)
            want = ["t%d" % i for i, m in enumerate(msgs) if m[3] == ep and len(m[2]) > 0]
            if seg[1:] != want:
                return (False, "recording %d holds %s, published in that epoch %s" % (ep, seg[1:][:12], want[:12]))
    return (True, "")


def check_stream(cfg, msgs, seg, k, a, b, cid):
    """seg = labels one consumer received; it was attached during event positions (a, b)."""
    pfx = "t" if k in ("f", "w") else "c"
    idx = []
    for lab in seg:
        if lab[0] == "?":
            return "consumer %s received bytes that are no whole unit of any published message: %s" % (cid, lab)
        if lab[0] not in ((pfx, pfx.upper()) if k == "p" else (pfx,)):
            return "consumer %s (kind %s) received a unit of the wrong form: %s" % (cid, k, lab)
        i = int(lab[1:])
        m = msgs[i]
        if len(m[2]) == 0:
            return "consumer %s received zero-length message %d" % (cid, i)
        if m[0] == 18:
            wo = fanout.without_sdf(m[2])
            has = wo != m[2] or False
            # players get metadata without @setDataFrame, push targets with it
            if k == "p" and lab[0] == "c" and _ensure_with(m[2]) != wo:
                return "push target %s received metadata %d without @setDataFrame" % (cid, i)
            if k != "p" and lab[0] == "C":
                return "player %s received metadata %d with @setDataFrame" % (cid, i)
        idx.append(i)
    if len(set(idx)) != len(idx):
        return "consumer %s received message(s) twice: %s" % (cid, seg[:20])
    # live window: non-empty messages published while attached (per epoch for long-lived consumers)
    live = [i for i, m in enumerate(msgs) if a < m[4] < b and len(m[2]) > 0]
    liveset = set(live)
    got_live = [i for i in idx if i in liveset]
    pro = [i for i in idx if i not in liveset]
    # prologue entirely before live data
    if pro and got_live and idx.index(got_live[0]) < max(idx.index(p) for p in pro):
        return "consumer %s received earlier (cached) message after live data: %s" % (cid, seg[:20])
    if any(i > min(live) for i in pro) if (pro and live) else False:
        return "consumer %s received a message published after it left" % cid
    if got_live != sorted(got_live):
        return "consumer %s received live messages out of order: %s" % (cid, seg[:30])
    # per epoch: a contiguous block of that epoch's live messages, running to its end
    by_epoch = {}
    for i in live:
        by_epoch.setdefault(msgs[i][3], []).append(i)
    for ep, lst in by_epoch.items():
        got = [i for i in got_live if msgs[i][3] == ep]
        if k == "p":
            if not got:
                continue
            s = lst.index(got[0])
            want = lst[s:]
        else:
            # a player may be made to wait for a key frame: until its first FRAME it receives exactly the
            # metadata / sequence-header messages published meanwhile (they are no frames and must not be
            # withheld), from that frame on every message
            frames = [i for i in got if not _is_header(msgs[i])]
            if frames:
                s = lst.index(frames[0])
                want = [i for i in lst[:s] if _is_header(msgs[i])] + lst[s:]
            else:
                want = [i for i in lst if _is_header(msgs[i])]
                if got != want[:len(got)] and got == lst[:len(got)]:
                    want = lst     # admitted from its first message on, the rest is still in the merge buffer
        if got != want[:len(got)]:
            return "consumer %s skipped a message inside its run (epoch %s): got %s, due %s of %s" % (cid, ep, got[:20], want[:20], lst[:20])
        missing = want[len(got):]
        if missing and k != "p" and not any(not _is_header(msgs[i]) for i in got):
            # nothing but headers received so far: what is missing may sit in the merge buffer behind other messages
            missing = lst[(lst.index(got[-1]) + 1) if got else 0:]
            # ... or the player is still made to wait for a key frame (whether it may be is C02's question, not
            # C01's): only a key frame among the missing messages ends every wait, from there on the run is due
            keys = [j for j, i in enumerate(missing) if fanout.classify_payload(msgs[i][0], msgs[i][2]) == "key"]
            if not keys and got:
                continue
            if keys and got:
                missing = missing[keys[0]:]
        if missing:
            if k == "r" and cfg.get("mw", 0) > 0:
                size = sum(fanout.chunk_len(len(_wo(msgs[i])), msgs[i][1], cfg.get("extfix", 0)) for i in missing)
                if size < cfg["mw"]:
                    continue
                return "RTMP consumer %s trails by %d bytes >= merge-write size %d" % (cid, size, cfg["mw"])
            return "consumer %s's run ended before it or the publisher left: missing %s" % (cid, missing[:12])
    return None


def _is_header(m):
    """metadata, AVC/HEVC sequence header or AAC sequence header (FLV / enhanced-RTMP tag layout)"""
    return fanout.classify_payload(m[0], m[2]) in ("meta", "vsh", "ash")


def _wo(m):
    return fanout.without_sdf(m[2]) if m[0] == 18 else m[2]


def _ensure_with(p):
    if len(p) >= 3 and p[0] == 2 and (p[1] << 8 | p[2]) <= len(p) - 3:
        return p if p[:16] == fanout.SDF else fanout.SDF + p
    return p


def neighbors(c, rng):
    return []
