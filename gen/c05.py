# C05 - no published media payload can terminate the server.
import os, re
from lib.vf import Case
from lib import vf
from gen.common import *

ID = "C05"
RULE = ("(i) exhaustive: every payload length 0..12 x every first byte the classification helpers test "
        "(0x17 0x27 0x1c 0x2c 0x90..0x93 0xa0.. 0xaf 0x7x 0x8x 0xdx ...) x message type 8/9/18 through every helper of base/t_rtmp.go and "
        "through the whole fan-out with every output enabled; truncations at every offset of valid AVC / HEVC / enhanced-HEVC "
        "sequence headers, AAC sequence headers and AVCC NAL frames; NAL length fields pointing past the end / zero / huge; "
        "(ii) structured random publish histories (sequence headers, key / inter frames, AAC frames, metadata, g711/opus audio, unknown codec ids, "
        "huge / equal / backward timestamps) interleaved with consumer joins of every kind under random output sets; "
        "(iii) mutation stream (flip / truncate / extend / splice) of those histories; a case is non-trivial when at least one "
        "message got past the validity gates of a remuxer (model trace), counted by distinct case line")
ASSUMPTIONS = ["64-bit Go int",
               "nazalog.Assert with the default behaviour (log only)",
               "file-system calls of the recorders / hls muxer succeed (memory file system for hls, a temp dir for the recorders)",
               "wall-clock per message is measured, not proved: only > 1 s for a <= 64 KiB message fails the check",
               "the theorem covers the modelled call tree only (listed in design.d/C05.md); cross-stream isolation and scheduler stalls are runtime behaviour"]
FULL_OUTPUT = True

AVC_SH = bytes.fromhex("17000000000164001fffe1000a2764001fac5680b40a1901000428ee3cb0")
AVC_SH2 = bytes.fromhex("170000000001640020ffe1001967640020acd940c029b011000003000100000300320f18319601000568ebecb22c")
HEVC_SH = bytes.fromhex("1c000000000101600000009000000000003ff000fcfdf8f800000f04200001001840010c01ffff01600000030090000003000003003fba0240"
                        "210001002a42010101600000030090000003000003003fa005020171f2e5ba4a4c2f01010000030001000003000f08"
                        "22000100064401c073c18927")
assert len(HEVC_SH) >= 113
EHEVC_SH = bytes([0x90]) + b"hvc1" + HEVC_SH[5:]
AAC_SH = bytes.fromhex("af001210")
AAC_SH_LONG = bytes.fromhex("af00121056e500")


def avcc(*nals):
    return b"".join(len(n).to_bytes(4, "big") + n for n in nals)


AVC_IDR = bytes.fromhex("1701000000") + avcc(bytes.fromhex("6588840a"), bytes.fromhex("0605ffff"))
AVC_IDR_PS = bytes.fromhex("1701000000") + avcc(bytes.fromhex("09f0"), bytes.fromhex("6764001fac"), bytes.fromhex("68ee3cb0"), bytes.fromhex("65888400ff"))
AVC_P = bytes.fromhex("2701000028") + avcc(bytes.fromhex("419a0011223344"))
HEVC_IDR = bytes.fromhex("1c01000000") + avcc(bytes.fromhex("2601af0011"), bytes.fromhex("4e01aa"))
HEVC_IDR_PS = bytes.fromhex("1c01000000") + avcc(bytes.fromhex("40010c01"), bytes.fromhex("42010101"), bytes.fromhex("4401c073"), bytes.fromhex("2601af"))
HEVC_P = bytes.fromhex("2c01000010") + avcc(bytes.fromhex("0201d000aa"))
EHEVC_KEY = bytes([0x91]) + b"hvc1" + bytes.fromhex("000010") + avcc(bytes.fromhex("2601af0011"))
EHEVC_KEYX = bytes([0x93]) + b"hvc1" + avcc(bytes.fromhex("2601af0011"))
EHEVC_P = bytes([0xa1]) + b"hvc1" + bytes.fromhex("000000") + avcc(bytes.fromhex("0201d000"))
EAV1 = bytes([0x90]) + b"av01" + bytes.fromhex("81050c00")
AAC_RAW = bytes.fromhex("af01211004608c1c")
G711A = bytes.fromhex("72") + bytes(range(20))
G711U = bytes.fromhex("82") + bytes(range(20))
OPUS = bytes.fromhex("d2") + bytes(range(12))
MP3 = bytes.fromhex("2f") + bytes(range(12))


def amf_str(s):
    return b"\x02" + len(s).to_bytes(2, "big") + s


def amf_num(x):
    import struct
    return b"\x00" + struct.pack(">d", x)


def metadata(pairs, sdf=False, ecma=False):
    b = b""
    if sdf:
        b += amf_str(b"@setDataFrame")
    b += amf_str(b"onMetaData")
    b += (b"\x08" + len(pairs).to_bytes(4, "big")) if ecma else b"\x03"
    for k, v in pairs:
        b += len(k).to_bytes(2, "big") + k + v
    b += b"\x00\x00\x09"
    return b


META_G711U = metadata([(b"audiocodecid", amf_num(8)), (b"audiosamplerate", amf_num(8000))], sdf=True)
META_OPUS = metadata([(b"audiocodecid", amf_num(13))], ecma=True)
META_PLAIN = metadata([(b"width", amf_num(640)), (b"height", amf_num(360)), (b"videocodecid", amf_num(7))])

VALID_VIDEO = [AVC_SH, AVC_SH2, HEVC_SH, EHEVC_SH, AVC_IDR, AVC_IDR_PS, AVC_P, HEVC_IDR, HEVC_IDR_PS, HEVC_P, EHEVC_KEY, EHEVC_KEYX, EHEVC_P, EAV1]
VALID_AUDIO = [AAC_SH, AAC_SH_LONG, AAC_RAW, G711A, G711U, OPUS, MP3]
VALID_META = [META_G711U, META_OPUS, META_PLAIN]

FIRST_BYTES = [0x00, 0x07, 0x0c, 0x10, 0x17, 0x1c, 0x1f, 0x27, 0x2c, 0x37, 0x47, 0x57, 0x7f, 0x72, 0x82, 0x80, 0x8f,
               0x90, 0x91, 0x92, 0x93, 0x94, 0x9f, 0xa0, 0xa1, 0xa3, 0xaf, 0xb0, 0xc1, 0xd2, 0xdf, 0xe3, 0xf0, 0xff, 0x2f]

ALL_ON = "re=1,rg=1,fe=1,fg=1,te=1,tg=1,he=1,se=1,wk=1,rf=1,rm=1,hk=1"
JOIN_ALL = "Jr:1;Jf:2;Jw:3;Jt:4;Js:5"


def P(t, ts, payload):
    return "P:%d:%d:%s" % (t, ts, payload if isinstance(payload, str) else hex_tok(payload))


def bcast(cfg, evs, cls):
    return Case("c05.bcast %s %s" % (cfg, ";".join(evs)), cls=cls)
