# C05 - no published media payload can terminate the server.
import os, re
from lib.vf import Case
from lib import vf
from gen.common import *

ID = "C05"
RULE = ("(i) exhaustive: every payload length 0..12 x every first byte the classification helpers test "
        "(0x17 0x27 0x1c 0x2c 0x90..0x93 0xa0.. 0xaf 0x7x 0x8x 0xdx ...) x message type 8/9/18 through every helper of base/t_rtmp.go and "
        "through the whole fan-out with every output enabled; truncations at every offset of valid AVC / HEVC / enhanced-HEVC "
        "sequence headers, AAC sequence headers and AVCC NAL frames; NAL length fields pointing past the end / zero / huge; "
        "(ii) structured random publish histories (sequence headers, key / inter frames, AAC frames, metadata, g711/opus audio, unknown codec ids, "
        "huge / equal / backward timestamps) interleaved with consumer joins of every kind under random output sets; "
        "(iii) mutation stream (flip / truncate / extend / splice) of those histories; a case is non-trivial when at least one "
        "message got past the validity gates of a remuxer (model trace), counted by distinct case line")
ASSUMPTIONS = ["64-bit Go int",
               "nazalog.Assert with the default behaviour (log only)",
               "file-system calls of the recorders / hls muxer succeed (memory file system for hls, a temp dir for the recorders)",
               "wall-clock per message is measured, not proved: only > 2 s for a <= 64 KiB message fails the check (largest observed: a few ms)",
               "the theorem covers the modelled call tree only (listed in design.d/C05.md); cross-stream isolation and scheduler stalls are runtime behaviour"]
FULL_OUTPUT = True

AVC_SH = bytes.fromhex("17000000000164001fffe1000a2764001fac5680b40a1901000428ee3cb0")
AVC_SH2 = bytes.fromhex("170000000001640020ffe1001967640020acd940c029b011000003000100000300320f18319601000568ebecb22c")
HEVC_SH = bytes.fromhex("1c000000000101600000009000000000003ff000fcfdf8f800000f04200001001840010c01ffff01600000030090000003000003003fba0240"
                        "210001002a42010101600000030090000003000003003fa005020171f2e5ba4a4c2f01010000030001000003000f08"
                        "22000100064401c073c18927")
assert len(HEVC_SH) >= 113
EHEVC_SH = bytes([0x90]) + b"hvc1" + HEVC_SH[5:]
AAC_SH = bytes.fromhex("af001210")
AAC_SH_LONG = bytes.fromhex("af00121056e500")


def avcc(*nals):
    return b"".join(len(n).to_bytes(4, "big") + n for n in nals)


AVC_IDR = bytes.fromhex("1701000000") + avcc(bytes.fromhex("6588840a"), bytes.fromhex("0605ffff"))
AVC_IDR_PS = bytes.fromhex("1701000000") + avcc(bytes.fromhex("09f0"), bytes.fromhex("6764001fac"), bytes.fromhex("68ee3cb0"), bytes.fromhex("65888400ff"))
AVC_P = bytes.fromhex("2701000028") + avcc(bytes.fromhex("419a0011223344"))
HEVC_IDR = bytes.fromhex("1c01000000") + avcc(bytes.fromhex("2601af0011"), bytes.fromhex("4e01aa"))
HEVC_IDR_PS = bytes.fromhex("1c01000000") + avcc(bytes.fromhex("40010c01"), bytes.fromhex("42010101"), bytes.fromhex("4401c073"), bytes.fromhex("2601af"))
HEVC_P = bytes.fromhex("2c01000010") + avcc(bytes.fromhex("0201d000aa"))
EHEVC_KEY = bytes([0x91]) + b"hvc1" + bytes.fromhex("000010") + avcc(bytes.fromhex("2601af0011"))
EHEVC_KEYX = bytes([0x93]) + b"hvc1" + avcc(bytes.fromhex("2601af0011"))
EHEVC_P = bytes([0xa1]) + b"hvc1" + bytes.fromhex("000000") + avcc(bytes.fromhex("0201d000"))
EAV1 = bytes([0x90]) + b"av01" + bytes.fromhex("81050c00")
AAC_RAW = bytes.fromhex("af01211004608c1c")
G711A = bytes.fromhex("72") + bytes(range(20))
G711U = bytes.fromhex("82") + bytes(range(20))
OPUS = bytes.fromhex("d2") + bytes(range(12))
MP3 = bytes.fromhex("2f") + bytes(range(12))


def amf_str(s):
    return b"\x02" + len(s).to_bytes(2, "big") + s


def amf_num(x):
    import struct
    return b"\x00" + struct.pack(">d", x)


def metadata(pairs, sdf=False, ecma=False):
    b = b""
    if sdf:
        b += amf_str(b"@setDataFrame")
    b += amf_str(b"onMetaData")
    b += (b"\x08" + len(pairs).to_bytes(4, "big")) if ecma else b"\x03"
    for k, v in pairs:
        b += len(k).to_bytes(2, "big") + k + v
    b += b"\x00\x00\x09"
    return b


META_G711U = metadata([(b"audiocodecid", amf_num(8)), (b"audiosamplerate", amf_num(8000))], sdf=True)
META_OPUS = metadata([(b"audiocodecid", amf_num(13))], ecma=True)
META_PLAIN = metadata([(b"width", amf_num(640)), (b"height", amf_num(360)), (b"videocodecid", amf_num(7))])

VALID_VIDEO = [AVC_SH, AVC_SH2, HEVC_SH, EHEVC_SH, AVC_IDR, AVC_IDR_PS, AVC_P, HEVC_IDR, HEVC_IDR_PS, HEVC_P, EHEVC_KEY, EHEVC_KEYX, EHEVC_P, EAV1]
VALID_AUDIO = [AAC_SH, AAC_SH_LONG, AAC_RAW, G711A, G711U, OPUS, MP3]
VALID_META = [META_G711U, META_OPUS, META_PLAIN]

FIRST_BYTES = [0x00, 0x07, 0x0c, 0x10, 0x17, 0x1c, 0x1f, 0x27, 0x2c, 0x37, 0x47, 0x57, 0x7f, 0x72, 0x82, 0x80, 0x8f,
               0x90, 0x91, 0x92, 0x93, 0x94, 0x9f, 0xa0, 0xa1, 0xa3, 0xaf, 0xb0, 0xc1, 0xd2, 0xdf, 0xe3, 0xf0, 0xff, 0x2f]

ALL_ON = "re=1,rg=1,fe=1,fg=1,te=1,tg=1,he=1,se=1,wk=1,rf=1,rm=1,hk=1"
JOIN_ALL = "Jr:1;Jf:2;Jw:3;Jt:4;Js:5"


def P(t, ts, payload):
    return "P:%d:%d:%s" % (t, ts, payload if isinstance(payload, str) else hex_tok(payload))


def bcast(cfg, evs, cls):
    return Case("c05.bcast %s %s" % (cfg, ";".join(evs)), cls=cls)


# --------------------------------------------------------------------------
# generators
RESTS = [lambda n: bytes(n), lambda n: (b"hvc1" + bytes(n))[:n], lambda n: (b"\x01" + bytes(n))[:n],
         lambda n: (b"hvc1\x00\x00\x10\x00\x00\x00\x01\x26" + bytes(n))[:n], lambda n: b"\xff" * n]


def short_payloads(types=(8, 9, 18), lens=range(0, 13), rests=range(len(RESTS))):
    for t in types:
        for n in lens:
            if n == 0:
                yield t, b""
                continue
            for fb in FIRST_BYTES:
                for r in rests:
                    yield t, bytes([fb]) + RESTS[r](n - 1)


PREAMBLE_AVC = [P(9, 0, AVC_SH), P(8, 0, AAC_SH), P(9, 0, AVC_IDR), P(8, 10, AAC_RAW)]
PREAMBLE_HEVC = [P(9, 0, HEVC_SH), P(8, 0, AAC_SH), P(9, 0, HEVC_IDR)]
PREAMBLE_EHEVC = [P(9, 0, EHEVC_SH), P(8, 0, AAC_SH), P(9, 0, EHEVC_KEY)]
PREAMBLES = [PREAMBLE_AVC, PREAMBLE_HEVC, PREAMBLE_EHEVC]
JOINS = ["Jr:1", "Jf:2", "Jw:3", "Jt:4", "Js:5"]


def nal_len_mutations(b, off=5):
    """every 4-byte AVCC length field of frame payload b replaced by boundary values"""
    out = []
    pos = off
    while pos + 4 <= len(b):
        n = int.from_bytes(b[pos:pos + 4], "big")
        rem = len(b) - pos - 4
        for v in (0, 1, max(rem - 1, 0), rem, rem + 1, 0x7fffffff, 0x80000000, 0xffffffff):
            out.append(b[:pos] + v.to_bytes(4, "big") + b[pos + 4:])
        if n == 0 or pos + 4 + n > len(b):
            break
        pos += 4 + n
    return out


def mutate(rng, b):
    b = bytearray(b)
    r = rng.random()
    if r < 0.3 and len(b):
        b = b[:rng.randrange(len(b) + 1)]
    elif r < 0.6 and len(b):
        for _ in range(rng.randrange(1, 4)):
            i = rng.randrange(len(b))
            b[i] = rng.choice([0, 1, 2, 3, 4, 0xff, 0x80, 0x7f, rng.randrange(256)])
    elif r < 0.8:
        b += bytes(rng.randrange(256) for _ in range(rng.randrange(1, 8)))
    else:
        if len(b) > 9:
            i = rng.randrange(5, len(b) - 3)
            b[i:i + 4] = rng.choice([b"\x00\x00\x00\x00", b"\xff\xff\xff\xff", b"\x00\x00\x00\x01",
                                     (len(b) - i - 4).to_bytes(4, "big"), (len(b) - i - 3).to_bytes(4, "big")])
    return bytes(b)


def rand_payload(rng, t):
    r = rng.random()
    if r < 0.2:
        n = rng.randrange(0, 13)
        if n == 0:
            return b""
        fb = rng.choice(FIRST_BYTES)
        rest = bytes(rng.choice([0, 1, 2, 3, 0x68, 0x76, 0x63, 0x31, rng.randrange(256)]) for _ in range(n - 1))
        return bytes([fb]) + rest
    pool = VALID_VIDEO if t == 9 else VALID_AUDIO if t == 8 else VALID_META
    b = rng.choice(pool)
    if r < 0.3 and t == 9:
        # a large frame: several nals, one of them beyond the RTP payload size
        nals = [bytes([rng.choice([0x65, 0x41, 0x06, 0x09, 0x67, 0x68, 0x26, 0x02, 0x40, 0x42, 0x44, 0x4e, 0x46, 0x1c, 0x18, 0x62])]) +
                bytes(rng.randrange(256) for _ in range(rng.choice([0, 1, 3, 40, 1198, 1199, 1200, 1201, 2500])))
                for _ in range(rng.randrange(1, 4))]
        hdr = rng.choice([bytes.fromhex("1701000000"), bytes.fromhex("2701000010"), bytes.fromhex("1c01000000"), bytes.fromhex("2c01000000"),
                          bytes([0x91]) + b"hvc1" + b"\x00\x00\x00", bytes([0xa3]) + b"hvc1"])
        return hdr + avcc(*nals)
    if r < 0.65:
        return b
    return mutate(rng, b)


def rand_cfg(rng, dummy_ok=True):
    bits = []
    full = rng.random() < 0.5
    for k in ["re", "fe", "te", "he", "se", "rf", "rm", "hk", "wk"]:
        if full or rng.random() < 0.5:
            bits.append(k + "=1")
    if rng.random() < 0.6:
        bits += ["rg=%d" % rng.choice([1, 2]), "fg=1", "tg=1"]
    if dummy_ok and rng.random() < 0.3:
        bits += ["da=1", "dw=%d" % rng.choice([0, 100, 150])]
    return ",".join(bits) or "re=0"


def rand_history(rng, joins=True, maxlen=14, start=None):
    evs = []
    ts = start if start is not None else rng.choice([0, 0, 0, 1000, 0xfffffff0, 0x7ffffff0])
    js = list(JOINS) + ["Js:6", "Jr:7", "Jf:8"]
    for _ in range(rng.randrange(1, maxlen)):
        if joins and rng.random() < 0.25 and js:
            evs.append(js.pop(rng.randrange(len(js))))
        t = rng.choice([8, 9, 9, 9, 18])
        evs.append(P(t, ts & 0xffffffff, rand_payload(rng, t)))
        ts += rng.choice([0, 0, 20, 40, 40, 400, 3500, 12000, 0xfffffff0, 0x80000000] if rng.random() < 0.3 else [0, 20, 23, 40])
    return evs


def stream_history(rng, n=12):
    """a mostly valid stream: headers first, then frames"""
    codec = rng.choice(["avc", "hevc", "ehevc", "audio-only", "g711", "opus"])
    evs = []
    ts = rng.choice([0, 1000])
    if rng.random() < 0.5:
        evs.append(P(18, ts, rng.choice(VALID_META)))
    if codec == "avc":
        evs += [P(9, ts, rng.choice([AVC_SH, AVC_SH2]))]
    elif codec == "hevc":
        evs += [P(9, ts, HEVC_SH)]
    elif codec == "ehevc":
        evs += [P(9, ts, EHEVC_SH)]
    if codec in ("avc", "hevc", "ehevc", "audio-only") and rng.random() < 0.8:
        evs += [P(8, ts, rng.choice([AAC_SH, AAC_SH_LONG]))]
    for i in range(n):
        ts += rng.choice([20, 23, 40])
        r = rng.random()
        if codec in ("g711", "opus"):
            evs.append(P(8, ts, {"g711": rng.choice([G711A, G711U]), "opus": OPUS}[codec]))
            if r < 0.5:
                evs.append(P(9, ts, rng.choice([AVC_SH, AVC_IDR, AVC_P])))
        elif r < 0.4:
            evs.append(P(8, ts, AAC_RAW if rng.random() < 0.9 else bytes.fromhex("af01") + bytes(rng.randrange(256) for _ in range(rng.choice([1, 2, 300])))))
        else:
            pool = {"avc": [AVC_IDR, AVC_IDR_PS, AVC_P, AVC_P], "hevc": [HEVC_IDR, HEVC_IDR_PS, HEVC_P, HEVC_P],
                    "ehevc": [EHEVC_KEY, EHEVC_KEYX, EHEVC_P, EHEVC_P], "audio-only": [AVC_P]}[codec]
            evs.append(P(9, ts, rng.choice(pool)))
    return evs


def avc_seq_header(sps, pps):
    return bytes.fromhex("17000000000164001fffe1") + len(sps).to_bytes(2, "big") + sps + b"\x01" + len(pps).to_bytes(2, "big") + pps


def hevc_seq_header(vps, sps, pps, enhanced=False):
    head = (bytes([0x90]) + b"hvc1") if enhanced else bytes.fromhex("1c00000000")
    rec = HEVC_SH[5:27] + b"\x03"
    for t, d in ((0x20, vps), (0x21, sps), (0x22, pps)):
        rec += bytes([t, 0, 1]) + len(d).to_bytes(2, "big") + d
    return head + rec


AVC_SPS = bytes.fromhex("2764001fac5680b40a19")
AVC_SPS2 = bytes.fromhex("67640020acd940c029b011000003000100000300320f183196")
AVC_PPS = bytes.fromhex("28ee3cb0")
HEVC_VPS = bytes.fromhex("40010c01ffff01600000030090000003000003003fba0240")
HEVC_SPS = bytes.fromhex("42010101600000030090000003000003003fa005020171f2e5ba4a4c2f010100000300010000030 00f08".replace(" ", ""))
HEVC_PPS = bytes.fromhex("4401c073c18927")
F13_AVC_SPS = bytes.fromhex("6742001eff")     # every remaining bit is the 1 of ue(0): the last zero-width read sits at the end of the buffer


def sps_tail_cases():
    """sequence headers that are well formed as records but whose SPS stops early / ends in 1-bits"""
    for sps in (AVC_SPS, AVC_SPS2):
        for cut in range(0, len(sps) + 1):
            for tail in (b"", b"\xff", b"\x80", b"\x00"):
                yield avc_seq_header(sps[:cut] + tail, AVC_PPS)
    for cut in range(0, len(HEVC_SPS) + 1):
        for tail in (b"", b"\xff", b"\x80"):
            yield hevc_seq_header(HEVC_VPS, HEVC_SPS[:cut] + tail, HEVC_PPS)
            yield hevc_seq_header(HEVC_VPS, HEVC_SPS[:cut] + tail, HEVC_PPS, enhanced=True)
    yield avc_seq_header(F13_AVC_SPS, AVC_PPS)


# --------------------------------------------------------------------------
# SPS whose COUNT fields are huge while the data ends right behind them: the time a sequence header takes must
# depend on its size, not on a value it carries (pic_order_cnt cycle, scaling lists, sub-layer loops, every ue(v))
def _bits(prefix, fields, pad):
    from gen import c19_ps
    c19_ps.f_pad[0] = pad
    try:
        return c19_ps.raw_bits_sps(prefix, fields)
    finally:
        c19_ps.f_pad[0] = 0


UE0 = (1, 1)                                   # ue(v) / se(v) of value 0
HUGE_UE = [("z", 8, 255), ("z", 16, 65535), ("z", 30, (1 << 30) - 1), ("z", 31, 0), ("z", 31, (1 << 31) - 2), ("z", 31, (1 << 31) - 1),
           ("z", 32, 0), ("z", 32, (1 << 32) - 1), ("z", 33, 5), ("z", 40, 1), ("z", 62, 3)]


def avc_loop_sps():
    """(label, sps bytes)"""
    out = []
    # baseline profile, pic_order_cnt_type = 1: sps_id, log2_max_frame_num, poc_type=1 '010', delta_always_zero, 2 x se, cycle count, offsets
    head66 = [UE0, UE0, ("z", 1, 0), (1, 0), UE0, UE0]
    # high profile: sps_id, chroma_format_idc=1, bit depths, bypass, scaling matrix flag
    head100 = [UE0, ("z", 1, 0), UE0, UE0, (1, 0)]
    for pad in (0, 1):
        for cnt in [("z", 0, 0), ("z", 1, 0), ("z", 2, 3)] + HUGE_UE:
            for k in ((0, 1, 3) if cnt[1] < 30 else (0,)):
                out.append(("avc-poc-cycle", _bits([0x67, 66, 0, 30], head66 + [cnt] + [UE0] * k, pad)))
                out.append(("avc-poc-cycle", _bits([0x67, 100, 0, 30], head100 + [(1, 0)] + head66[1:] + [cnt] + [UE0] * k, pad)))
        # scaling matrix present, every list present, data ends inside / right behind the lists
        for nlists in (0, 1, 6, 7, 8):
            for deltas in (0, 1, 15, 16, 63, 64):
                f = head100 + [(1, 1)] + [(1, 1)] * nlists + [UE0] * deltas
                out.append(("avc-scaling", _bits([0x67, 100, 0, 30], f, pad)))
                out.append(("avc-scaling", _bits([0x67, 244, 0, 30], [UE0, ("z", 2, 0), (1, 0)] + f[2:], pad)))   # chroma_format_idc 3: 12 lists
        # every ue(v) of a complete baseline SPS in turn huge, the data ending right behind it
        full = [UE0, UE0, ("z", 1, 1), ("z", 2, 1), (1, 0), ("z", 5, 8), ("z", 4, 13), (1, 1), (1, 1), (1, 1), UE0, UE0, UE0, UE0, (1, 0)]
        for i, f in enumerate(full):
            if f[0] == "z" or f == UE0:
                for h in HUGE_UE[2:]:
                    out.append(("avc-ue-huge", _bits([0x67, 66, 0, 30], full[:i] + [h], pad)))
                    out.append(("avc-ue-huge", _bits([0x67, 66, 0, 30], full[:i] + [h] + full[i + 1:], pad)))
    return out


def hevc_loop_sps():
    ptl = [(2, 0), (1, 0), (5, 1), (32, 0x60000000), (32, 0x90000000), (16, 0), (8, 93)]
    out = []
    for pad in (0, 1):
        for maxsub in (0, 1, 6, 7):
            sub = []
            if maxsub:
                sub = [(1, 1), (1, 1)] * maxsub + [(2, 0)] * (8 - maxsub)
            for nsub in range(0, maxsub + 1, max(1, maxsub // 2)):
                body = [(32, 1), (32, 2), (24, 3), (8, 90)] * nsub
                head = [(4, 0), (3, maxsub), (1, 1)] + ptl + sub + body
                out.append(("hevc-sublayers", _bits([0x42, 0x01], head, pad)))
                tail = [UE0, ("z", 1, 0), ("z", 10, 896), ("z", 10, 64), (1, 0), UE0, UE0, ("z", 2, 1), (1, 1)] + [UE0] * 3 * (maxsub + 1) + [UE0] * 6
                if nsub == maxsub:
                    out.append(("hevc-sublayers", _bits([0x42, 0x01], head + tail + [(1, 1)], pad)))
                    for i, f in enumerate(tail):
                        if f[0] == "z" or f == UE0:
                            for h in (HUGE_UE[3], HUGE_UE[5], HUGE_UE[7], HUGE_UE[9]):
                                out.append(("hevc-ue-huge", _bits([0x42, 0x01], head + tail[:i] + [h], pad)))
                                if i % 4 == 0:
                                    out.append(("hevc-ue-huge", _bits([0x42, 0x01], head + tail[:i] + [h] + tail[i + 1:], pad)))
    return out


def sps_loop_cases():
    """(class, video payload): well-framed sequence headers around those SPS"""
    seen = set()
    for cls, sps in avc_loop_sps():
        if sps not in seen:
            seen.add(sps)
            yield cls, avc_seq_header(sps, AVC_PPS)
    for cls, sps in hevc_loop_sps():
        if sps not in seen:
            seen.add(sps)
            yield cls, hevc_seq_header(HEVC_VPS, sps, HEVC_PPS)
            if len(seen) % 3 == 0:
                yield cls, hevc_seq_header(HEVC_VPS, sps, HEVC_PPS, enhanced=True)


def boundary_cases():
    """(class, history): an rtsp consumer in PLAY and waiting for a GOP start (out_wait_key_frame_flag) while the publisher
    sends nal units whose first bytes are the ones rtprtcp.IsAvcBoundary / IsHevcBoundary index: STAP-A 24 (b[3]),
    FU-A 28 (b[1]), hevc AP 48 / FU 49 (b[2]), in nal units of 1..5 bytes, in the audio body of g711 / opus too"""
    cfgs = ["se=1,wk=1", ALL_ON]
    inter = {"avc": bytes.fromhex("2701000000"), "hevc": bytes.fromhex("2c01000000"), "ehevc": bytes([0xa3]) + b"hvc1"}
    pre = {"avc": PREAMBLE_AVC, "hevc": PREAMBLE_HEVC, "ehevc": PREAMBLE_EHEVC}
    heads = {"avc": [0x18, 0x78, 0x1c, 0x7c, 0x5c, 0x05, 0x65, 0x67, 0x41, 0x00],
             "hevc": [0x60, 0x61, 0x62, 0x63, 0x26, 0x40, 0x02, 0x00],
             "ehevc": [0x60, 0x62, 0x26, 0x02]}
    tails = [b"", b"\x00", b"\x85", b"\x00\x01", b"\x01\x93", b"\x00\x01\x65", b"\x01\x00\x07", b"\x00\x02\x67\x42", b"\x01\x93\xa6\x00"]
    for codec in ("avc", "hevc", "ehevc"):
        for h in heads[codec]:
            for t in tails:
                nal = bytes([h]) + t
                for ci, cfg in enumerate(cfgs):
                    if ci == 1 and len(t) not in (0, 2):
                        continue
                    # consumer joins after the key frame: it waits; the hostile nal; then a key frame releases it
                    evs = pre[codec] + ["Js:5", P(9, 40, inter[codec] + avcc(nal)), P(9, 80, {"avc": AVC_IDR, "hevc": HEVC_IDR, "ehevc": EHEVC_KEYX}[codec])]
                    yield "bcast-rtsp-boundary", cfg, evs
                if len(t) in (0, 2, 3):
                    # two consumers: one that sent DESCRIBE before the stream had a description, one in between
                    evs = ["Js:5"] + pre[codec][:2] + ["Js:6"] + pre[codec][2:] + [P(9, 40, inter[codec] + avcc(bytes([0x41, 0x9a]), nal))]
                    yield "bcast-rtsp-boundary", cfgs[0], evs
        # the same bytes as the RTP body of an audio packet (g711 / opus are carried raw)
        for a in (0x72, 0x82, 0xd2):
            for h in heads["avc"][:5] + heads["hevc"][:4]:
                for t in tails[:6]:
                    evs = pre[codec][:1] + [P(8, 0, bytes([a, 0x55, 0x55]))] + pre[codec][2:] + ["Js:5", P(8, 40, bytes([a, h]) + t)]
                    yield "bcast-rtsp-boundary-audio", cfgs[0], evs
    # fragmented nal units (FU-A / hevc FU): start fragment of a key / non-key nal while the consumer waits
    for codec, hs in (("avc", [0x65, 0x41, 0x67, 0x1c]), ("hevc", [0x26, 0x02, 0x40, 0x62])):
        for h in hs:
            for n in (1199, 1200, 1201, 2500):
                nal = bytes([h, 0x01]) + bytes((i * 7) & 0xff for i in range(n - 2))
                evs = pre[codec] + ["Js:5", P(9, 40, inter[codec] + avcc(nal)), P(9, 60, inter[codec] + avcc(bytes([hs[1], 1, 2])))]
                yield "bcast-rtsp-boundary-fu", cfgs[0], evs


# --------------------------------------------------------------------------
# metadata whose fields have every AMF0 type: the broadcast path reads `audiocodecid` and `audiosamplerate`
# (Rtmp2RtspRemuxer) with a type assertion; everything else only passes through ParseMetadata / DebugString
def amf_values():
    """(name, encoded AMF0 value) for every value type of the AMF0 specification"""
    import struct
    return [("number", amf_num(8)), ("number13", amf_num(13)), ("number-big", b"\x00" + struct.pack(">d", 1e300)), ("nan", b"\x00" + b"\x7f\xf8" + bytes(6)),
            ("boolean", b"\x01\x01"), ("string", amf_str(b"44100")), ("string-empty", amf_str(b"")),
            ("long-string", b"\x0c" + (70000).to_bytes(4, "big") + b"4" * 70000), ("long-string-short", b"\x0c\x00\x00\x00\x02ab"),
            ("object", b"\x03" + b"\x00\x01a" + amf_num(1) + b"\x00\x00\x09"), ("object-empty", b"\x03\x00\x00\x09"),
            ("null", b"\x05"), ("undefined", b"\x06"), ("reference", b"\x07\x00\x00"),
            ("ecma-array", b"\x08\x00\x00\x00\x01" + b"\x00\x01a" + amf_num(1) + b"\x00\x00\x09"),
            ("strict-array", b"\x0a\x00\x00\x00\x02" + amf_num(1) + amf_str(b"x")), ("strict-array-empty", b"\x0a\x00\x00\x00\x00"),
            ("date", b"\x0b" + bytes(8) + b"\x00\x00"), ("unsupported", b"\x0d"), ("xml", b"\x0f\x00\x00\x00\x01x"), ("typed-object", b"\x10\x00\x01c\x00\x00\x09")]


META_KEYS = [b"audiocodecid", b"audiosamplerate", b"videocodecid", b"width", b"height", b"duration", b"framerate", b"stereo", b"encoder"]


def metadata_type_cases():
    """(label, metadata payload)"""
    base = [(b"duration", amf_num(0)), (b"width", amf_num(640)), (b"audiocodecid", amf_num(8)), (b"audiosamplerate", amf_num(8000)), (b"stereo", b"\x01\x00")]
    out = []
    for key in META_KEYS:
        for tname, enc in amf_values():
            for sdf in (False, True):
                for ecma in (False, True):
                    if key not in (b"audiocodecid", b"audiosamplerate") and (sdf or ecma) and tname not in ("string", "null", "strict-array"):
                        continue
                    pairs = [(k, (enc if k == key else v)) for k, v in base]
                    if key not in [k for k, _ in base]:
                        pairs.append((key, enc))
                    out.append(("meta-type-%s" % tname, metadata(pairs, sdf=sdf, ecma=ecma)))
    # missing / duplicated keys, value position
    for key in (b"audiocodecid", b"audiosamplerate"):
        others = [(k, v) for k, v in base if k != key]
        out.append(("meta-keys", metadata(others)))
        for tname, enc in amf_values()[:12]:
            out.append(("meta-keys", metadata([(key, enc)] + base)))                 # the odd one first: Find returns the first match
            out.append(("meta-keys", metadata(base + [(key, enc)], ecma=True)))      # the odd one last
            out.append(("meta-keys", metadata([(key, enc), (key, enc)], sdf=True)))
    out.append(("meta-keys", metadata([])))
    out.append(("meta-keys", metadata([], ecma=True, sdf=True)))
    return out


def drop_empty(evs):
    """the remuxers sit behind the group's empty-payload gate"""
    return [e for e in evs if not e.endswith(":-")]


def gen_cases(tier, rng):
    quick = tier != "thorough"
    # (0) record-level valid sequence headers whose SPS is cut at every byte / ends in 1-bits (F-13 neighbourhood, repaired)
    for b in sps_tail_cases():
        yield bcast(ALL_ON, JOINS + [P(9, 0, b), P(9, 40, AVC_P)], "bcast-sps-tail")
        yield Case("c05.rtsp 0 %s" % ";".join([P(9, 0, b), P(8, 0, AAC_SH), P(9, 40, AVC_IDR)]), cls="rtsp-sps-tail")
        yield Case("c05.ts %s" % ";".join([P(9, 0, b), P(8, 0, AAC_SH), P(9, 40, AVC_IDR)]), cls="ts-sps-tail")
    # (0b) SPS with huge loop counts and no data behind them, as the first sequence header of a publish (the stat block
    #      parses it) and behind a valid one; a message that takes more than 2 s is reported `slow` by the Go side
    for cls, b in sps_loop_cases():
        yield bcast(ALL_ON, [P(9, 0, b), P(9, 40, AVC_P)], "bcast-sps-loops-" + cls)
        if not quick:
            yield bcast("re=1", [P(9, 0, AVC_SH2[:5] + b"\x00" * 3), P(9, 0, b)], "bcast-sps-loops-" + cls)
    # (0c) rtsp consumers waiting for a GOP start while the nal units the boundary classifiers index arrive
    for cls, cfg, evs in boundary_cases():
        yield bcast(cfg, evs, cls)
    # (0d) metadata: every field the broadcast path reads (and the usual others) x every AMF0 value type, object / ecma-array form,
    #      with / without @setDataFrame, missing / duplicated keys; then g711 audio so that the values are used
    for cls, b in metadata_type_cases():
        tail = [P(8, 0, G711U), P(9, 0, AVC_SH), P(9, 0, AVC_IDR), P(8, 20, G711U)]
        yield bcast(ALL_ON, JOINS[:2] + [P(18, 0, b)] + tail, "bcast-" + cls)
        if len(b) < 2000:
            yield Case("c05.rtsp 0 %s" % ";".join([P(18, 0, b)] + tail), cls="rtsp-" + cls)
    # (0e) long payloads (3 and more rtmp chunks of 4096) x timestamps around the 24-bit / 32-bit limits (extended timestamp
    #      repeated in every continuation chunk), for audio, video and metadata
    for n in (4096, 4097, 8192, 8193, 12288, 12289, 70000):
        for ts in (0, 0xfffffe, 0xffffff, 0x1000000, 0x7fffffff, 0xffffffff):
            for t, head in ((9, AVC_P[:5]), (9, bytes([0x91]) + b"hvc1" + b"\x00\x00\x00"), (8, b"\xaf\x01"), (8, b"\x82"),
                            (18, metadata([(b"encoder", b"\x0c" + (n).to_bytes(4, "big") + b"e" * n)])[:n])):
                if t == 18:
                    tok = hex_tok(head) if len(head) <= 64 else "%s+r%d.%d" % (hex_tok(head[:32]), n - 32, n & 0xffff)
                else:
                    tok = "%s+r%d.%d" % (hex_tok(head), n - len(head), (n + ts) & 0xffff)
                pre = PREAMBLE_AVC if ts < 0x10000 else [P(9, ts - 40, AVC_SH), P(8, ts - 40, AAC_SH), P(9, ts - 40, AVC_IDR)]
                yield bcast(ALL_ON, JOINS + pre + [P(t, ts, tok), P(9, ts, AVC_IDR)], "bcast-long-ts")
                if n in (8193, 70000):
                    yield bcast("re=1,rg=1", ["Jr:1", P(t, ts, tok), "Jr:7", P(t, ts, tok)], "bcast-long-ts")
    # (0f) remux.RtspRemuxerAddSpsPps2KeyFrameFlag on (F-46, repaired): key frames of 6..14 bytes and longer, avc / hevc /
    #      enhanced hevc (nalu data at GetEnchanedHevcNaluIndex()), several nalus, through the remuxer and the whole fan-out
    for pre, heads in ((PREAMBLE_AVC, [bytes.fromhex("1701000000"), bytes.fromhex("2701000000")]),
                       (PREAMBLE_HEVC, [bytes.fromhex("1c01000000"), bytes.fromhex("2c01000000")]),
                       (PREAMBLE_EHEVC, [bytes([0x91]) + b"hvc1" + b"\x00\x00\x10", bytes([0x93]) + b"hvc1", bytes([0xa1]) + b"hvc1" + b"\x00\x00\x00"])):
        for h in heads:
            bodies = [bytes(k) for k in range(0, 6)] + [avcc(b"\x65"), avcc(b"\x26\x01\xaf"), avcc(b"\x65\x88", b"\x41\x9a\x00"),
                                                       b"\x00\x00\x00\x09\x65\x88", avcc(bytes([0x65]) + bytes(1500))]
            for b in bodies:
                evs = pre + [P(9, 40, h + b), P(9, 80, AVC_P)]
                yield Case("c05.rtsp 1 %s" % ";".join(evs), cls="rtsp-addflag")
                yield bcast("se=1,wk=1,re=1,ak=1", pre[:2] + ["Js:5"] + pre[2:] + [P(9, 40, h + b)], "bcast-addflag")
    # (1) helpers of t_rtmp.go, exhaustive on short payloads
    for t, b in short_payloads():
        yield Case("c05.cls %d %s" % (t, hex_tok(b)), cls="cls-short")
    for b in VALID_VIDEO + VALID_AUDIO + VALID_META:
        for t in (8, 9):
            yield Case("c05.cls %d %s" % (t, hex_tok(b)), cls="cls-valid")
    # (2) the same short payloads through the whole fan-out, every output on, consumers of every kind:
    #     first message of a stream / after a stream start that leaves every consumer waiting for a key frame
    pre_wait = [P(9, 0, AVC_SH), P(8, 0, AAC_SH)] + JOINS
    rests = range(len(RESTS)) if not quick else (0, 3)
    for t, b in short_payloads(types=(8, 9), rests=rests):
        yield bcast(ALL_ON, JOINS + [P(t, 0, b)], "bcast-short-first")
        yield bcast(ALL_ON, pre_wait + [P(t, 40, b)], "bcast-short-waiting")
    for t, b in short_payloads(types=(8, 9), rests=(0, 3), lens=range(0, 10)):
        yield bcast(ALL_ON + ",da=1,dw=0", [P(9, 0, AVC_P)] + JOINS + [P(t, 40, b)], "bcast-short-dummy")
        if len(b):
            # what follows the hostile message shows whether it damaged the remuxer's state (cached headers)
            yield Case("c05.ts %s" % ";".join([P(8, 0, AAC_SH), P(9, 0, AVC_SH), P(t, 40, b), P(9, 80, AVC_IDR), P(8, 80, AAC_RAW)]), cls="ts-short")
            yield Case("c05.rtsp 0 %s" % ";".join([P(9, 0, AVC_SH), P(t, 40, b), P(8, 40, AAC_SH), P(9, 80, AVC_IDR), P(8, 80, AAC_RAW)]), cls="rtsp-short")
    for b in [b"", b"\x02", b"\x02\x00", b"\x02\x00\x0aonMetaData", b"\x02\x00\x0aonMetaData\x03", b"\x02\x00\x0aonMetaData\x08\x00\x00",
              b"\x03\x00\x00\x09", b"\x0c\xff\xff\xff\xff"]:
        yield bcast(ALL_ON, JOINS + [P(18, 0, b)], "bcast-short-first")
    # (3) truncations of valid messages at every offset, in several stream contexts
    for sample in VALID_VIDEO + VALID_AUDIO + VALID_META:
        t = 9 if sample in VALID_VIDEO else 8 if sample in VALID_AUDIO else 18
        step = 1 if (not quick or len(sample) <= 48) else 3
        for cut in list(range(0, len(sample), step)) + [len(sample)]:
            b = sample[:cut]
            yield bcast(ALL_ON, JOINS + [P(t, 0, b), P(9, 40, AVC_P)], "bcast-trunc-first")
            for pre in PREAMBLES:
                yield bcast(ALL_ON, pre[:2] + JOINS + pre[2:] + [P(t, 40, b)], "bcast-trunc-mid")
            if len(b):
                yield Case("c05.ts %s" % ";".join(PREAMBLE_AVC[:2] + [P(t, 40, b), P(9, 80, AVC_IDR), P(8, 80, AAC_RAW)]), cls="ts-trunc")
                yield Case("c05.rtsp 0 %s" % ";".join([P(t, 0, b)] + PREAMBLE_AVC + [P(t, 40, b)]), cls="rtsp-trunc")
                yield Case("c05.rtsp 0 %s" % ";".join([P(9, 0, AVC_SH), P(t, 40, b), P(8, 40, AAC_SH), P(9, 80, AVC_IDR), P(8, 80, AAC_RAW)]), cls="rtsp-trunc")
    # (4) NAL length fields: zero, one short, exact, one past the end, huge
    for sample in [AVC_IDR, AVC_IDR_PS, AVC_P, HEVC_IDR, HEVC_IDR_PS, HEVC_P]:
        for b in nal_len_mutations(sample):
            pre = PREAMBLE_AVC if sample[0] & 0x0f == 7 else PREAMBLE_HEVC
            yield bcast(ALL_ON, pre + JOINS + [P(9, 40, b)], "bcast-nal-len")
            yield Case("c05.ts %s" % ";".join(pre + [P(9, 40, b)]), cls="ts-nal-len")
            yield Case("c05.rtsp 0 %s" % ";".join(pre + [P(9, 40, b)]), cls="rtsp-nal-len")
    for sample, off in [(EHEVC_KEY, 8), (EHEVC_KEYX, 5), (EHEVC_P, 8)]:
        for b in nal_len_mutations(sample, off):
            yield bcast(ALL_ON, PREAMBLE_EHEVC + JOINS + [P(9, 40, b)], "bcast-nal-len")
            yield Case("c05.ts %s" % ";".join(PREAMBLE_EHEVC + [P(9, 40, b)]), cls="ts-nal-len")
            yield Case("c05.rtsp 0 %s" % ";".join(PREAMBLE_EHEVC + [P(9, 40, b)]), cls="rtsp-nal-len")
    # (5) timestamps: huge, equal, backward, around the 32-bit wrap; dummy audio
    tss = [0, 1, 21, 22, 150, 151, 9999, 10000, 10001, 10022, 65535, 0x7fffffff, 0x80000000, 0xfffffff0, 0xffffffea, 0xfffffffe, 0xffffffff]
    for wait in (0, 150):
        for a in tss:
            for b in tss:
                evs = [P(9, a, AVC_SH), P(9, a, AVC_P), P(9, (a + wait) & 0xffffffff, AVC_P), P(9, b, AVC_P), P(8, b, AAC_RAW), P(9, b, AVC_SH)]
                yield Case("c05.dummy %d 6 %s" % (wait, ";".join(evs)), cls="dummy-ts")
    for a in tss:
        for b in tss:
            yield Case("c05.ts %s" % ";".join(PREAMBLE_AVC[:2] + [P(9, a, AVC_IDR), P(8, a, AAC_RAW), P(8, b, AAC_RAW), P(9, b, AVC_P)]), cls="ts-ts")
            if a <= b or not quick:
                yield bcast(ALL_ON + ",da=1,dw=150", [P(9, a, AVC_SH), P(9, a, AVC_IDR)] + JOINS + [P(9, (a + 150) & 0xffffffff, AVC_P), P(9, b, AVC_P), P(9, b, AVC_IDR)], "bcast-ts-dummy")
    # (6) structured random: mostly valid streams, consumers joining anywhere, random output sets
    n = 250 if quick else 20000
    for i in range(n):
        evs = stream_history(rng)
        js = list(JOINS)
        rng.shuffle(js)
        for j in js[:rng.randrange(0, 6)]:
            evs.insert(rng.randrange(len(evs) + 1), j)
        yield bcast(rand_cfg(rng), evs, "bcast-stream")
        pevs = [e for e in evs if e.startswith("P")]
        if drop_empty(pevs):
            yield Case("c05.ts %s" % ";".join(drop_empty(pevs)), cls="ts-stream")
            yield Case("c05.rtsp %d %s" % (i % 2, ";".join(drop_empty(pevs))), cls="rtsp-stream")
        if i % 3 == 0:
            yield Case("c05.dummy %d 8 %s" % (rng.choice([0, 100, 150]), ";".join(pevs)), cls="dummy-stream")
    # (7) mutation stream: hostile histories
    n = 700 if quick else 80000
    for i in range(n):
        evs = rand_history(rng)
        yield bcast(rand_cfg(rng), evs, "bcast-hostile")
        if i % 2 == 0:
            pevs = [e for e in evs if e.startswith("P")]
            if drop_empty(pevs):
                yield Case("c05.ts %s" % ";".join(drop_empty(pevs)), cls="ts-hostile")
                yield Case("c05.rtsp %d %s" % ((i // 2) % 2, ";".join(drop_empty(pevs))), cls="rtsp-hostile")
        if i % 4 == 0:
            yield Case("c05.dummy %d 8 %s" % (rng.choice([0, 100, 150]), ";".join(pevs)), cls="dummy-hostile")


# --------------------------------------------------------------------------
# observation, oracle, known findings
T_RE = re.compile(r" t=(\d+)$")
MAX_WALL_US = [0]
SLOW_LIMIT_US = 2000000

KNOWN_SITES = {
    # site -> finding id (F-13, nazabits.(*BitReader).ReadBits32:index, is repaired on the lal side: a panic there is a violation again)
}


def split_impl(case, io):
    """the Go side appends the largest per-message wall time of a c05.bcast history; the model has no clock"""
    return T_RE.sub("", io)


def _sites(out):
    return re.findall(r"(?:panic|crash)@([^,| ]+)", out)


def oracle(case, impl_out):
    """C05 on the implementation's observation: the server survived every message (no panic, no crash of the
    process), and no message of at most 64 KiB took more than a second.
    The component ops print a precise observable; for them the property is only `no panic`.
    c05.cls calls the helpers of t_rtmp.go directly, outside the validity gates of their callers: panics there are
    API preconditions, not reachable from a published payload; the op has no oracle (model == implementation only)."""
    op = case.line.split(" ", 1)[0]
    if op in ("c05.cls", "c05.cls0"):
        return None
    if op in ("c05.ts", "c05.rtsp") and any(e.endswith(":-") for e in case.line.split(" ")[-1].split(";")):
        return None     # the remuxers sit behind the group's empty-payload gate: not a published-payload input
    m = T_RE.search(impl_out)
    if m:
        MAX_WALL_US[0] = max(MAX_WALL_US[0], int(m.group(1)))
    if impl_out.startswith(("panic@", "crash@")) or ",panic@" in impl_out or ",crash@" in impl_out or "crash@" in impl_out:
        return (False, "a published message terminated the server: %s" % ",".join(_sites(impl_out)))
    if "timeout" in impl_out or "not-run" in impl_out:
        return (False, "a published message stalled the server (harness timeout)")
    if re.search(r"(^|,)slow(,| |$)", impl_out):
        return (False, "a message of at most 64 KiB took more than 2 s: its processing time does not depend on its size alone")
    if impl_out.startswith(("err", "bad", "unknown-op")):
        return (False, "harness error: " + impl_out[:80])
    return (True, "")


def classify_finding(case, impl_out):
    op = case.line.split(" ", 1)[0]
    sites = _sites(impl_out)
    if len(sites) == 1 and sites[0] in KNOWN_SITES:
        return KNOWN_SITES[sites[0]]
    return None


def nontrivial(case, model_out):
    """a history is non-trivial when at least one message was processed (or the model predicts the panic)"""
    if case.line.startswith("c05.cls"):
        return case.line if "=1" in model_out or "panic@" in model_out else None
    return case.line if ("ok" in model_out or "/" in model_out or "+" in model_out or "panic@" in model_out) else None


def neighbors(case, rng):
    """around a model/implementation disagreement: the same history with one payload mutated / truncated"""
    parts = case.line.split(" ")
    evs = parts[-1].split(";")
    for _ in range(60):
        i = rng.randrange(len(evs))
        if not evs[i].startswith("P:"):
            continue
        f = evs[i].split(":")
        b = mutate(rng, tok_bytes(f[3]))
        if len(b) == 0 and parts[0] in ("c05.ts", "c05.rtsp"):
            continue
        ev2 = list(evs)
        ev2[i] = ":".join(f[:3] + [hex_tok(b)])
        yield " ".join(parts[:-1] + [";".join(ev2)])


def run(ctx, cases, cov, violations, known_hits, notes):
    import sys
    vf.generic_diff(sys.modules[__name__], ctx, cases, cov, violations, known_hits, notes)
    cov["max_message_wall_us"] = MAX_WALL_US[0]
    notes.append("largest per-message wall time in this run: %d us (limit %d us for a message of at most 64 KiB)" % (MAX_WALL_US[0], SLOW_LIMIT_US))
