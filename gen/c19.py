# C19 - codec configuration survives every re-encoding; SDP and SPS info are right.
# The property has five parts; each part is a module with the same interface
# (OPS, gen_cases, oracle, nontrivial, neighbors, classify_finding); this file
# dispatches on the op name.
import importlib
from lib.vf import Case

ID = "C19"
FULL_OUTPUT = True
PART_NAMES = ["c19_ps", "c19_framing", "c19_aac", "c19_sdp", "c19_multi"]
PARTS = []
for _n in PART_NAMES:
    try:
        PARTS.append(importlib.import_module("gen." + _n))
    except ModuleNotFoundError as e:
        if ("gen." + _n) not in str(e):
            raise

RULE = " || ".join(p.RULE for p in PARTS)
ASSUMPTIONS = [a for p in PARTS for a in getattr(p, "ASSUMPTIONS", [])]


def _part(line):
    op = line.split(" ", 1)[0]
    for p in PARTS:
        if hasattr(p, "claims") and p.claims(line):     # a part may answer for another part's op on its own input class
            return p
    for p in PARTS:
        if op in p.OPS:
            return p
    return None


def gen_cases(tier, rng):
    for p in PARTS:
        for c in p.gen_cases(tier, rng):
            yield c


def nontrivial(c, out):
    p = _part(c.line)
    return p.nontrivial(c, out) if p else None


def oracle(c, out):
    p = _part(c.line)
    if p is None:
        return None
    if out.startswith(("crash@", "timeout", "not-run", "unknown-op", "panic@")):
        return (False, "implementation crashed or did not run: " + out)
    return p.oracle(c, out)


def classify_finding(c, out):
    p = _part(c.line)
    return p.classify_finding(c, out) if p and hasattr(p, "classify_finding") else None


def neighbors(c, rng):
    p = _part(c.line)
    if p and hasattr(p, "neighbors"):
        for l in p.neighbors(c, rng):
            yield l
