# Shared generator / parser for fan-out histories (C01, C02, C16): op c01.hist
from lib.vf import Case
from gen.common import *

SDF = bytes([2, 0, 13]) + b"@setDataFrame"
EXTFIX = 1   # lal writes the extended timestamp also for ts == 0xFFFFFF (fix F-01, bee1ba4)


def amf_str(s):
    return bytes([2, len(s) >> 8, len(s) & 255]) + s


AVC_SH = bytes.fromhex("1700000000" "0164001fffe1000a" "2764001fac5680b40a19" "010004" "28ee3cb0")
_VPS = "40010c01ffff01600000030090000003000003003fba0240"
_SPS = "420101016000000300900000030000030" "03fa005020171f2e5ba4a4c2f01010000030001000003000f08"
_PPS = "4401c073c189"
HVCC = bytes.fromhex("0101" "60000000" "900000000000" "3f" "f000" "fc" "fd" "f8" "f8" "0000" "0f" "03"
                     + "2000010018" + _VPS + "210001002a" + _SPS + "2200010006" + _PPS)
HEVC_SH = bytes.fromhex("1c00000000") + HVCC
EHEVC_SH = bytes([0x90]) + b"hvc1" + HVCC


class Hist:
    """builds one history; keeps the python-side ground truth"""

    def __init__(self, rng, cfg):
        self.rng = rng
        self.cfg = dict(cfg)
        self.ev = []
        self.n = 0
        self.next_id = 1
        self.uniq = 0
        self.last_tok = {}

    def cfg_tok(self):
        c = dict(self.cfg)
        c["extfix"] = EXTFIX
        return ",".join("%s=%d" % kv for kv in sorted(c.items()))

    def line(self):
        return "c01.hist %s %s" % (self.cfg_tok(), ";".join(self.ev))

    def payload(self, head, size):
        """payload token: head bytes + unique filler of total length size"""
        self.uniq += 1
        u = self.uniq
        fill = max(0, size - len(head) - 2)
        tok = hex_tok(head + bytes([(u >> 8) & 255, u & 255]))
        if fill > 0:
            tok += "+r%d.%d" % (fill, u)
        return tok

    def pub(self, kind, ts=None, size=None):
        r = self.rng
        if ts is None:
            ts = r.choice([0, 40, 16777214, 16777215 if EXTFIX else 16777213, 16777216, 4294967295, r.randrange(1 << 32), r.randrange(100000)])
        if size is None:
            size = r.choice([5, 6, 7, 20, 100, 4090, 4095, 4096, 4097, 8191, 8192, 8193, r.randrange(5, 9000)])
        size = max(size, 7)
        if kind.startswith("ehx:"):
            # enhanced-rtmp video message with an arbitrary first byte (frame type / packet type sweep)
            b0 = int(kind[4:], 16)
            body = (EHEVC_SH[1:] if b0 & 15 == 0 else b"hvc1")
            tok = self.payload(bytes([b0]) + body, len(body) + 3 if b0 & 15 == 0 else max(size, 12))
            self.ev.append("P:9:%d:%s" % (ts, tok))
            self.n += 1
            return
        if kind.endswith("_same"):
            base = kind[:-5]
            if base in self.last_tok:
                t, tok = self.last_tok[base]
                self.uniq += 1
                self.ev.append("P:%d:%d:%s" % (t, 5000000 + self.uniq, tok))
                self.n += 1
                return
            kind = base
        t, head = {
            "meta": (18, amf_str(b"onMetaData")),
            "meta_sdf": (18, SDF + amf_str(b"onMetaData")),
            "meta_bad": (18, bytes([2, 0, 200, 65])),
            "vsh": (9, AVC_SH),
            "key": (9, bytes([0x17, 1, 0, 0, 0])),
            "inter": (9, bytes([0x27, 1, 0, 0, 0])),
            "hvsh": (9, HEVC_SH),
            "hkey": (9, bytes([0x1c, 1, 0, 0, 0])),
            "hinter": (9, bytes([0x2c, 1, 0, 0, 0])),
            "ehvsh": (9, EHEVC_SH),
            "ehkey": (9, bytes([0x91]) + b"hvc1"),
            "ehinter": (9, bytes([0xa1]) + b"hvc1"),
            "ash": (8, bytes([0xaf, 0, 0x12, 0x10, 0])),
            "aac": (8, bytes([0xaf, 1, 0, 0, 0])),
            "g711": (8, bytes([0x72, 0, 0, 0, 0])),
            "empty": (r.choice([8, 9, 18]), b""),
        }[kind]
        if kind == "meta_bad" and self.cfg.get("push"):
            # the stub push target is lal's own RTMP server, which closes the
            # session on metadata it cannot parse; keep such metadata for the
            # histories without a push target
            kind = "meta"
            t, head = 18, amf_str(b"onMetaData")
        if kind == "empty":
            tok = "-"
        elif kind in ("vsh", "hvsh", "ehvsh"):
            tok = self.payload(head, len(head) + 2)
        else:
            tok = self.payload(head, size if kind not in ("meta", "meta_sdf", "meta_bad") else min(size, 300) + len(head))
        if kind in ("vsh", "ash", "hvsh", "ehvsh"):
            self.last_tok[kind] = (t, tok)
        self.ev.append("P:%d:%d:%s" % (t, ts, tok))
        self.n += 1

    def join(self, k):
        i = self.next_id
        self.next_id += 1
        self.ev.append("J%s:%d" % (k, i))
        return i

    def leave(self, i):
        self.ev.append("L:%d" % i)

    def start(self, pat=True):
        self.ev.append("I")
        if self.cfg.get("push"):
            self.ev.append("Jp:900")
        if pat:
            self.pat()

    def stop(self):
        self.ev.append("O")

    def sdp(self):
        self.uniq += 1
        self.ev.append("S:763d30%04x+r%d.%d" % (self.uniq, self.rng.choice([40, 300]), self.uniq))

    def sdp_real(self, v, audio=""):
        """a parseable SDP: video PT 96 (a = H264, h = H265, o = a codec lal does not know), audio PT 97
        (AAC; audio = "g": PCMA, "p": Opus - the audio codec makes no difference to the fan-out)"""
        self.uniq += 1
        self.cur_v = v
        self.ev.append("S:%s%s:u%d" % (v, audio, self.uniq))

    def play(self, i):
        self.ev.append("Y:%d" % i)

    def rtp(self, cls, **kw):
        """one RTP packet of class cls (see RTP_BODIES) for the codec of the current SDP"""
        self.uniq += 1
        self.seq = getattr(self, "seq", self.rng.randrange(65000, 65536)) + 1
        v = getattr(self, "cur_v", "a")
        if cls == "alien" and v == "o":
            cls = "non"      # a packet of a payload type the SDP does not announce never reaches the group (BaseInSession drops it);
                             # it is generated only where it is no GOP start, and under an unknown codec every packet is one
        pt, body = rtp_body(v, cls)
        fill = self.rng.choice([0, 0, 3, 40, 1400]) if not cls.startswith("au:") else self.rng.choice([0, 3, 160])
        body = body + bytes([self.uniq & 255, (self.uniq >> 8) & 255]) * (1 if cls not in RTP_SHORT else 0)
        body += bytes((self.uniq * 7 + i) & 255 for i in range(fill if cls not in RTP_SHORT else 0))
        self.ev.append("R:" + hex_tok(rtp_packet(pt, self.seq & 0xFFFF, (self.uniq * 3000) & 0xFFFFFFFF, body, **kw)))

    def describe(self):
        i = self.next_id
        self.next_id += 1
        self.ev.append("D:%d" % i)
        return i

    def brk(self, i):
        self.ev.append("B:%d" % i)

    def tick(self):
        self.ev.append("K")

    def dispose(self):
        """Group.Dispose(): must be the last event of a history"""
        self.ev.append("X")

    def stop_quick(self):
        self.ev.append("Oq")

    def ts(self, boundary):
        self.uniq += 1
        self.ev.append("T:47%04x+r%d.%d:%d" % (self.uniq, 188 * self.rng.choice([1, 2, 7]) - 3, self.uniq, 1 if boundary else 0))

    def pat(self):
        self.uniq += 1
        self.ev.append("A:4740%04x+r373.%d" % (self.uniq, self.uniq))


# ---------------------------------------------------------------------------
# RTP packets for RTSP subscribers (RFC 3550 header, RFC 6184 / RFC 7798 payload heads)

def rtp_packet(pt, seq, ts, body, marker=0, pad=0, ncsrc=0, ext=None, ssrc=0x11223344):
    b0 = 0x80 | (0x20 if pad else 0) | (0x10 if ext is not None else 0) | ncsrc
    out = bytes([b0, (marker << 7) | pt]) + seq.to_bytes(2, "big") + ts.to_bytes(4, "big") + ssrc.to_bytes(4, "big")
    out += b"".join((0xC0000000 + i).to_bytes(4, "big") for i in range(ncsrc))
    if ext is not None:
        out += bytes([0xBE, 0xDE]) + (len(ext) // 4).to_bytes(2, "big") + ext
    out += body
    if pad:
        out += bytes(pad - 1) + bytes([pad])
    return out


_AVC = {
    "sps": bytes([0x67, 0x64, 0, 0x1f]), "pps": bytes([0x68, 0xee, 0x3c, 0x80]), "idr": bytes([0x65, 0x88, 0x84, 0]),
    "non": bytes([0x41, 0x9a, 0x02, 0x05]), "sei": bytes([0x06, 5, 1, 0x80]), "aud": bytes([0x09, 0x10]),
    "stap_key": bytes([0x78, 0, 4, 0x67, 0x64, 0, 0x1f, 0, 2, 0x68, 0xee]), "stap_non": bytes([0x78, 0, 3, 0x41, 0x9a, 2]),
    "fu_key_start": bytes([0x7c, 0x85, 0x88, 0x84]), "fu_key_mid": bytes([0x7c, 0x05, 0x11, 0x22]), "fu_key_end": bytes([0x7c, 0x45, 0x11, 0x22]),
    "fu_non_start": bytes([0x7c, 0x81, 0x9a, 2]), "fu_non_mid": bytes([0x7c, 0x01, 0x9a, 2]),
    # heads too short for the byte the classifier wants to look at
    "short_stap": bytes([0x78, 0, 4]), "short_fu": bytes([0x7c]), "one_idr": bytes([0x65]), "one_non": bytes([0x41]),
}
_HEVC = {
    "sps": bytes([0x42, 1, 1, 1]), "pps": bytes([0x44, 1, 0xc0, 0x73]), "vps": bytes([0x40, 1, 0x0c, 1]), "idr": bytes([0x26, 1, 0xaf, 0x08]),
    "cra": bytes([0x2a, 1, 0xaf, 0x08]), "non": bytes([0x02, 1, 0xd0, 0x09]), "sei": bytes([0x4e, 1, 5, 1]), "aud": bytes([0x46, 1, 0x50]),
    "stap_key": bytes([0x60, 1, 0, 4, 0x42, 1, 1, 1]), "stap_non": bytes([0x60, 1, 0, 4, 0x02, 1, 0xd0, 9]),   # aggregation packet (48): lal does not look inside
    "fu_key_start": bytes([0x62, 1, 0x93, 0xaf]), "fu_key_mid": bytes([0x62, 1, 0x13, 0xaf]), "fu_key_end": bytes([0x62, 1, 0x53, 0xaf]),
    "fu_non_start": bytes([0x62, 1, 0x81, 0xd0]), "fu_non_mid": bytes([0x62, 1, 0x01, 0xd0]),
    "short_stap": bytes([0x60, 1]), "short_fu": bytes([0x62, 1]), "one_idr": bytes([0x26]), "one_non": bytes([0x02]),
}
RTP_SHORT = ("short_stap", "short_fu", "one_idr", "one_non")
RTP_BODIES = {"a": _AVC, "h": _HEVC, "o": _AVC}


def rtp_body(v, cls):
    if cls.startswith("au:"):
        # an audio packet (PT 97) whose payload starts with the given byte(s): G.711 samples, an Opus TOC byte,
        # the high byte of a long AAC AU-headers-length ...
        return 97, bytes.fromhex(cls[3:])
    if cls == "audio":
        return 97, bytes([0x00, 0x10, 0x0a, 0x40, 0x21, 0x10])     # AAC-hbr: AU-headers-length 16, one AU header
    if cls == "alien":
        return 98, RTP_BODIES[v]["non"]                                # a payload type the SDP does not announce
    return 96, RTP_BODIES[v][cls]


RTP_STREAMS = {
    "plain": ["sps", "pps", "idr", "audio", "non", "non", "audio", "non", "idr", "non", "audio", "non"],
    "packed": ["stap_key", "fu_key_start", "fu_key_mid", "fu_key_end", "audio", "fu_non_start", "fu_non_mid", "stap_non", "audio", "fu_key_mid",
               "fu_key_start", "fu_key_end", "non"],
    "edges": ["non", "short_stap", "short_fu", "one_non", "audio", "sei", "aud", "alien", "one_idr", "non", "audio", "short_fu", "cra" if False else "idr", "non"],
    "audio": ["audio", "audio", "audio", "audio", "audio", "audio"],
    "nokey": ["non", "audio", "non", "fu_non_start", "fu_key_mid", "stap_non", "audio", "non"],
}


# audio payloads whose first bytes read as a GOP start when taken for video (F-34)
OPUS_TOCS = [0x05, 0x25, 0xE5, 0x07, 0x27, 0x08, 0x48, 0x68, 0x78, 0x7c, 0xfc,       # AVC: IDR / SPS / PPS / STAP-A / FU-A
             0x20, 0x26, 0x2a, 0x2e, 0x40, 0x42, 0x44, 0xa6, 0xc2, 0x62, 0xe2]       # HEVC: IRAP range, VPS / SPS / PPS, FU
AUDIO_COLLIDERS = (["au:%02x" % t for t in OPUS_TOCS]
                   + ["au:0500", "au:0800", "au:2600", "au:4201"]                    # AAC: AU-headers-length >= 1280 bits
                   + ["au:78000467", "au:78000441", "au:7c85", "au:7c05", "au:7c81",   # STAP-A / FU-A shaped sample runs
                      "au:620193", "au:620113", "au:620181"])


def gen_rtsp_audio_histories(tier, rng):
    """waiting RTSP subscribers against AUDIO packets: the first payload byte sweeps all 256 values (G.711 samples),
    plus Opus TOCs / AAC AU headers / sample runs shaped like STAP and FU packets; a new subscriber plays before every
    audio packet, video inter frames in between, the GOP start only at the end"""
    base = dict(re=1, rg=1, rm=0, fe=1, fg=1, fm=0, tg=0, tm=0, mw=0, rec=0, rw=1)
    sweep = ["au:%02x" % b for b in range(256)]
    for v in ("a", "h"):
        chunks = [sweep[i:i + 32] for i in range(0, 256, 32)] + [AUDIO_COLLIDERS]
        for ci, chunk in enumerate(chunks):
            h = Hist(rng, base)
            h.start(pat=False)
            h.pub("vsh" if v != "h" else "hvsh", ts=0)
            h.sdp_real(v, "g" if ci < 8 else "p")
            early = h.describe()
            h.play(early)
            h.rtp("idr")
            h.rtp("non")
            for i, cls in enumerate(chunk):
                d = h.describe()
                h.play(d)
                h.rtp(rng.choice(["non", "fu_non_start", "fu_non_mid", "stap_non"]))
                h.rtp(cls)
                if i % 3 == 0:
                    h.rtp("audio")
                h.rtp("non")
            h.rtp("sps")
            h.rtp("idr")
            h.rtp("non")
            yield Case(h.line(), cls="rtsp-audio-sweep-%s" % v)
    # the same audio packets inside ordinary streams, subscribers joining at every index; also with the flag off / no codec known
    n = 0
    for v in ("a", "h", "o"):
        for rw, known in ((1, True), (1, False), (0, True)):
            seq = []
            pool = list(AUDIO_COLLIDERS)
            rng.shuffle(pool)
            for i, a in enumerate(pool[:10]):
                seq += [["non", "fu_non_mid", "stap_non", "sei"][i % 4], a]
                if i == 6:
                    seq += ["idr", "non"]
            for pos in range(len(seq) + 1):
                n += 1
                if tier == "quick" and not (rw == 1 and known and v != "o") and n % 4:
                    continue
                c = dict(base)
                c["rw"] = rw
                h = Hist(rng, c)
                h.start(pat=False)
                if known:
                    h.pub("vsh" if v != "h" else "hvsh", ts=0)
                h.sdp_real(v, "p")
                mid = None
                for idx, cls in enumerate(seq):
                    if idx == pos:
                        mid = h.describe()
                        h.play(mid)
                    h.rtp(cls)
                if pos >= len(seq):
                    mid = h.describe()
                    h.play(mid)
                    h.rtp("au:65")
                    h.rtp("non")
                yield Case(h.line(), cls="rtsp-audio-join-%s" % v)


def gen_rtsp_histories(tier, rng, multi_epoch=False):
    """RTSP subscribers: real rtsp command sessions (DESCRIBE / SETUP / PLAY) joining at every index of RTP streams"""
    base = dict(re=1, rg=1, rm=0, fe=1, fg=1, fm=0, tg=0, tm=0, mw=0, rec=0)
    hdr_opts = [dict(), dict(pad=4), dict(ncsrc=2), dict(ext=bytes(8)), dict(ext=b"", marker=1), dict(pad=1, ncsrc=1, ext=bytes(4))]
    count = 0
    if not multi_epoch:
        for v in ("a", "h", "o"):
            for rw in (1, 0):
                for known in (True, False):
                    for sname in sorted(RTP_STREAMS):
                        seq = RTP_STREAMS[sname]
                        if v == "h" and sname == "edges":
                            seq = [("cra" if x == "sei" else x) for x in seq]
                        for pos in range(len(seq) + 1):
                            count += 1
                            if tier == "quick" and (count % 3 != 0) and not (rw == 1 and known and v != "o" and sname != "audio"):
                                continue
                            c = dict(base)
                            c["rw"] = rw
                            h = Hist(rng, c)
                            early = h.describe()          # DESCRIBE before any SDP exists: answered when the SDP arrives
                            h.start(pat=False)
                            if known:
                                h.pub("vsh" if v != "h" else "hvsh", ts=0)
                            h.sdp_real(v)
                            h.play(early)
                            mid = slow = None
                            for idx, cls in enumerate(seq):
                                if idx == pos:
                                    mid = h.describe()
                                    h.play(mid)
                                    slow = h.describe()
                                if slow is not None and idx == pos + 2:
                                    h.play(slow)
                                if mid is not None and idx == pos + 5 and count % 2:
                                    h.leave(mid)
                                h.rtp(cls, **rng.choice(hdr_opts))
                                if rng.random() < 0.2:
                                    h.pub("inter" if known else "aac", ts=idx * 40)
                            if pos >= len(seq):
                                mid = h.describe()
                                h.play(mid)
                                h.rtp("non")
                                h.rtp("idr")
                                h.rtp("non")
                            yield Case(h.line(), cls="rtsp-join-%s-%s" % (v, sname))
    # several inputs of the name while RTSP subscribers stay attached; packets that arrive after the input ended
    n = (60 if tier == "quick" else 600) if not multi_epoch else (80 if tier == "quick" else 800)
    for k in range(n):
        c = dict(base)
        c["rw"] = rng.choice([1, 1, 0])
        if multi_epoch:
            c["rec"] = 1
            c["hook"] = 1
        h = Hist(rng, c)
        subs = []
        for e in range(rng.choice([1, 2, 2, 3])):
            if rng.random() < 0.4:
                subs.append([h.describe(), False])
            h.start(pat=False)
            v = rng.choice(["a", "a", "h", "o"])
            known = rng.random() < 0.7
            if known and rng.random() < 0.5:
                h.pub("vsh" if v != "h" else "hvsh", ts=0)
                known = False
            h.sdp_real(v)
            seq = list(RTP_STREAMS[rng.choice(sorted(RTP_STREAMS))])
            if rng.random() < 0.3:
                rng.shuffle(seq)
            for cls in seq[:rng.randrange(0, len(seq) + 1)]:
                a = rng.random()
                if a < 0.2:
                    subs.append([h.describe(), False])
                elif a < 0.45 and subs:
                    x = rng.choice(subs)
                    h.play(x[0])
                elif a < 0.5 and subs:
                    h.leave(subs.pop(rng.randrange(len(subs)))[0])
                elif a < 0.6 and known:
                    h.pub("vsh" if v != "h" else "hvsh", ts=0)
                    known = False
                elif a < 0.65:
                    h.sdp_real(v)        # the SDP is announced again (an RTSP pull that re-describes)
                if v == "h" and cls == "sei" and rng.random() < 0.5:
                    cls = "cra"
                if cls == "audio" and rng.random() < 0.5:
                    cls = rng.choice(AUDIO_COLLIDERS + ["au:%02x" % rng.randrange(256)])
                h.rtp(cls)
            h.stop()
            if rng.random() < 0.5:
                # late packets: the publisher's RTP goroutine may still deliver after the input was removed
                for cls in rng.sample(["idr", "non", "audio", "sps"], 2):
                    h.rtp(cls)
            if rng.random() < 0.3 and subs:
                h.play(rng.choice(subs)[0])
        if multi_epoch and k % 3 == 0:
            if rng.random() < 0.6:
                h.start(pat=False)
                h.sdp_real("a")
                h.pub("vsh", ts=0)
                for x in subs:
                    h.play(x[0])
                h.rtp("idr")
                h.rtp("non")
            h.dispose()
        yield Case(h.line(), cls="rtsp-random%s" % ("-epochs" if multi_epoch else ""))


CFGS = [
    dict(re=1, rg=0, rm=0, fe=1, fg=0, fm=0, tg=0, tm=0, mw=0, rec=1),
    dict(re=1, rg=1, rm=0, fe=1, fg=1, fm=0, tg=1, tm=0, mw=0, rec=0),
    dict(re=1, rg=3, rm=2, fe=1, fg=3, fm=2, tg=2, tm=2, mw=0, rec=1),
    dict(re=1, rg=1, rm=1, fe=1, fg=0, fm=0, tg=0, tm=0, mw=8192, rec=0),
    dict(re=1, rg=0, rm=0, fe=1, fg=2, fm=1, tg=1, tm=1, mw=1, rec=0),
    dict(re=1, rg=2, rm=0, fe=1, fg=2, fm=0, tg=3, tm=0, mw=20000, rec=1),
    dict(re=1, rg=2, rm=1, fe=1, fg=1, fm=3, tg=2, tm=1, mw=0, rec=0),
]

STREAMS = {
    "av": ["meta", "vsh", "ash", "key", "aac", "inter", "aac", "inter", "key", "inter", "aac", "inter", "inter", "key", "aac", "inter"],
    "video": ["vsh", "key", "inter", "inter", "key", "inter", "inter", "inter", "key", "inter"],
    "audio": ["meta_sdf", "ash", "aac", "aac", "aac", "aac", "aac", "aac"],
    "g711": ["g711", "g711", "g711", "g711", "g711"],
    "hevc": ["meta", "hvsh", "hkey", "hinter", "aac", "hinter", "hkey", "hinter"],
    "ehevc": ["ehvsh", "ehkey", "ehinter", "ehinter", "ehkey", "ehinter"],
    # enhanced-rtmp HEVC with its sequence header repeated / changed in the middle of a GOP (a waiting joiner must keep waiting)
    "hdrsame_eh": ["ehvsh", "ehkey", "ehinter", "ehvsh_same", "ehinter", "ehinter", "ehkey", "ehinter", "ehvsh_same", "ehinter", "ehkey"],
    "hdrchange_eh": ["meta", "ehvsh", "ash", "ehkey", "aac", "ehinter", "ehvsh", "ehinter", "aac", "ehinter", "ehkey", "ehinter", "ehvsh_same", "ehinter"],
    "hdrsame_h": ["hvsh", "hkey", "hinter", "hvsh_same", "hinter", "hkey", "hinter", "hvsh", "hinter"],
    "nokey": ["vsh", "inter", "inter", "aac", "inter", "inter"],
    "hdrchange": ["meta", "vsh", "ash", "key", "aac", "inter", "vsh", "inter", "key", "inter", "ash", "aac", "meta", "inter", "key"],
    "hdrsame": ["vsh", "ash", "key", "inter", "vsh_same", "ash_same", "key", "inter", "aac", "vsh_same", "inter"],
    "mixed": ["meta_bad", "vsh", "key", "empty", "inter", "meta", "vsh", "inter", "key", "empty", "aac"],
}


def gen_histories(tier, rng, push_every=6, header_changes=False):
    """yield Case objects: joins/leaves at every index of the publish sequences"""
    kinds = ["r", "f", "w", "t"]
    count = 0
    names = sorted(n for n in STREAMS if header_changes or not n.startswith("hdr"))
    # systematic: one consumer of a kind joining at every index of each stream shape
    for ci, cfg in enumerate(CFGS):
        for sname in names:
            seq = STREAMS[sname]
            positions = range(0, len(seq) + 1)
            for pos in positions:
                if tier == "quick" and (ci * 7 + pos + len(sname)) % 2 != 0:
                    continue
                c = dict(cfg)
                if count % push_every == 0:
                    c["push"] = 1
                h = Hist(rng, c)
                early = [h.join(k) for k in rng.sample(kinds, 2)]
                h.start()
                mids = []
                for idx, kind in enumerate(seq):
                    if idx == pos:
                        mids = [h.join(k) for k in kinds]
                    h.pub(kind, ts=idx * 40 if rng.random() < 0.7 else None)
                    if rng.random() < 0.5:
                        h.ts(kind in ("key", "hkey", "ehkey"))
                    if mids and idx == pos + 3 and rng.random() < 0.5:
                        h.leave(mids[0])
                if pos >= len(seq):
                    mids = [h.join(k) for k in kinds]
                count += 1
                yield Case(h.line(), cls="join-at-%s" % sname)
    # systematic re-publish: consumers join at chosen points of the SECOND input of the name
    for ci, cfg in enumerate(CFGS):
        for s1 in ("av", "video", "hevc"):
            for s2 in ("av", "audio", "video", "g711"):
                for pos in (0, 2, 4, 99):
                    if tier == "quick" and (ci + pos + len(s1) + len(s2)) % 2:
                        continue
                    c = dict(cfg)
                    h = Hist(rng, c)
                    stay = h.join(rng.choice(kinds))
                    h.start()
                    for idx, kind in enumerate(STREAMS[s1][:rng.choice([3, 5, 9])]):
                        h.pub(kind, ts=idx * 40)
                        if kind == "key":
                            h.ts(True)
                    h.stop()
                    h.start()
                    seq2 = STREAMS[s2][:8]
                    for idx, kind in enumerate(seq2):
                        if idx == pos:
                            for k in kinds:
                                h.join(k)
                        h.pub(kind, ts=1000 + idx * 40)
                        if rng.random() < 0.5:
                            h.ts(kind == "key")
                    if pos >= len(seq2):
                        for k in kinds:
                            h.join(k)
                        h.pub("aac" if s2 != "g711" else "g711", ts=5000)
                    yield Case(h.line(), cls="republish-%s-%s" % (s1, s2))
    # a consumer whose connection is broken (its writes fail) while it is still attached:
    # the others must not notice
    for ci, cfg in enumerate(CFGS):
        for sname in ("av", "audio"):
            for nb in (1, 2):
                c = dict(cfg)
                c["mw"] = [0, 0, 1, 8192][(ci + nb) % 4]
                h = Hist(rng, c)
                h.start()
                subs = [h.join(k) for k in ("r", "r", "r", "r", "f", "f", "w", "r")]
                seq = STREAMS[sname]
                for idx, kind in enumerate(seq):
                    if idx == 4:
                        for b in rng.sample(subs, nb):
                            h.brk(b)
                    h.pub(kind, ts=idx * 40)
                yield Case(h.line(), cls="broken-conn")
    # random histories with re-publishing, several consumers, leaves
    n = 400 if tier == "quick" else 4000
    for k in range(n):
        cfg = dict(rng.choice(CFGS))
        cfg["mw"] = rng.choice([0, 0, 1, 4000, 8192, 30000])
        if rng.random() < 0.25:
            cfg["push"] = 1
        h = Hist(rng, cfg)
        live = []
        epochs = rng.choice([1, 1, 2, 3])
        for e in range(epochs):
            for _ in range(rng.randrange(0, 3)):
                live.append(h.join(rng.choice(kinds)))
            h.start()
            seq = list(STREAMS[rng.choice(names)])
            if rng.random() < 0.3:
                rng.shuffle(seq)
            for kind in seq[:rng.randrange(1, len(seq) + 1)]:
                a = rng.random()
                if a < 0.25:
                    live.append(h.join(rng.choice(kinds)))
                elif a < 0.35 and live:
                    h.leave(live.pop(rng.randrange(len(live))))
                h.pub(kind)
                if rng.random() < 0.4:
                    h.ts(rng.random() < 0.4)
            h.stop()
        yield Case(h.line(), cls="random-%depoch%s" % (epochs, "-push" if cfg.get("push") else ""))


# metadata / sequence headers published while players wait for a key frame (F-08i, fixed): "J" marks a join point;
# every "vsh" / "ash" / "hvsh" has new content (unique filler), "vsh_same" / "ash_same" repeat the previous content
WAIT_SCENARIOS = {
    # the new header arrives in the very call that ends the joiners' freshness (they get the OLD cached header first)
    "same-call": ["vsh", "key", "inter", "J", "vsh", "inter", "ash", "meta", "inter", "key", "inter", "aac"],
    "long-wait": ["meta", "vsh", "ash", "key", "inter", "J", "inter", "vsh", "inter", "ash", "aac", "meta_sdf", "inter", "key", "inter", "aac"],
    "no-gop-yet": ["vsh", "J", "inter", "vsh", "aac", "ash", "inter", "key", "inter"],
    # a header change has just dropped the cached GOPs: joiners wait although the GOP cache is on
    "after-drop": ["vsh", "key", "inter", "vsh", "J", "inter", "ash", "vsh_same", "inter", "meta", "key", "aac"],
    "staggered": ["vsh", "key", "J", "inter", "J", "vsh", "J", "ash", "inter", "J", "key", "inter"],
    "hevc": ["hvsh", "hkey", "hinter", "J", "hvsh", "hinter", "ash", "meta", "hkey", "hinter"],
    "audio-header": ["vsh", "ash", "key", "J", "aac", "ash", "aac", "ash_same", "inter", "key", "aac"],
    "never-key": ["vsh", "J", "inter", "meta", "vsh", "ash", "inter", "aac", "vsh"],
    # enhanced-rtmp HEVC: the sequence header (first byte 0x90: frame type "key", packet type SequenceStart) repeated and
    # changed while the joiners wait - it is a header, not a key frame (seed C02r6-1)
    "enhanced-hevc": ["ehvsh", "ehkey", "ehinter", "J", "ehvsh_same", "ehinter", "ehvsh", "ehinter", "ash", "J", "ehvsh_same", "ehinter", "ehkey", "ehinter"],
}


def gen_enhanced_sweep(tier, rng):
    """every enhanced-rtmp first byte 0x80 | frame type << 4 | packet type (frame types 0..7, packet types 0..5 and 15)
    offered to players that wait for a key frame (joined mid-GOP, nothing cached / one GOP cached), before and after
    the message: does it end their wait?"""
    for gop in (0, 1):
        for ft in range(8):
            for pt in (0, 1, 2, 3, 4, 5, 15):
                c = dict(re=1, rg=gop, rm=0, fe=1, fg=gop, fm=0, tg=0, tm=0, mw=0, rec=0)
                h = Hist(rng, c)
                h.start(pat=False)
                h.pub("ehvsh", ts=0)
                if gop == 0:
                    h.pub("ehkey", ts=40)
                h.pub("ehinter", ts=80)
                for k in ("r", "f", "w"):
                    h.join(k)
                h.pub("ehinter", ts=120)
                h.pub("ehx:%02x" % (0x80 | ft << 4 | pt), ts=160)
                h.pub("ehinter", ts=200)
                h.pub("aac", ts=210)
                h.pub("ehkey", ts=240)
                h.pub("ehinter", ts=280)
                yield Case(h.line(), cls="enhanced-sweep")


def gen_wait_histories(tier, rng, counts=(1, 2, 3)):
    """1..3 players of each kind (RTMP, HTTP-FLV, WebSocket-FLV) waiting for a key frame while metadata and
    sequence headers are published, with the merge writer off / flushing every message / buffering, GOP cache 0/1/2"""
    for sname in sorted(WAIT_SCENARIOS):
        seq = WAIT_SCENARIOS[sname]
        for n in counts:
            for mw in (0, 1, 8192):
                for gop in (0, 1, 2):
                    c = dict(re=1, rg=gop, rm=0, fe=1, fg=gop, fm=0, tg=0, tm=0, mw=mw, rec=0)
                    h = Hist(rng, c)
                    h.start(pat=False)
                    old = h.join("r")          # admitted from the start: shares the merge writer with the waiting ones
                    joined = []
                    nj = 0
                    for idx, kind in enumerate(seq):
                        if kind == "J":
                            nj += 1
                            per = 1 if sname == "staggered" else n
                            for k in ("r", "f", "w"):
                                for _ in range(per):
                                    joined.append(h.join(k))
                            continue
                        h.pub(kind, ts=idx * 40, size=rng.choice([7, 20, 300, 5000]))
                        if joined and idx == len(seq) - 3 and n == 2:
                            h.leave(joined[0])
                    yield Case(h.line(), cls="wait-%s" % sname)
    if tier == "quick":
        return
    # random: players join anywhere, headers change anywhere
    kinds = ["vsh", "ash", "meta", "inter", "inter", "aac", "key", "vsh_same", "ash_same", "meta_sdf"]
    for k in range(1500):
        gop = rng.choice([0, 0, 1, 2])
        c = dict(re=1, rg=gop, rm=rng.choice([0, 1]), fe=1, fg=gop, fm=rng.choice([0, 2]), tg=0, tm=0, mw=rng.choice([0, 1, 300, 8192]), rec=0)
        h = Hist(rng, c)
        if rng.random() < 0.3:
            h.join(rng.choice("rfw"))
        h.start(pat=False)
        h.pub("vsh", ts=0)
        live = []
        for idx in range(rng.randrange(4, 25)):
            a = rng.random()
            if a < 0.3:
                live.append(h.join(rng.choice("rfw")))
            elif a < 0.36 and live:
                h.leave(live.pop(rng.randrange(len(live))))
            h.pub(rng.choice(kinds), ts=40 + idx * 40, size=rng.choice([7, 20, 300, 5000]))
        yield Case(h.line(), cls="wait-random")


# ---------------------------------------------------------------------------
# ground truth from the case line (independent of the Coq model)

def parse_case(line):
    _, cfgtok, evtok = line.split(" ")
    cfg = {k: int(v) for k, v in (kv.split("=") for kv in cfgtok.split(","))}
    evs = []
    for e in evtok.split(";"):
        if e:
            evs.append(e.split(":"))
    return cfg, evs


def parse_obs(out):
    """'1=c0,c1|2=HF,t0|rec=F,t0/F,t1' -> {id: [segments of label lists]}"""
    obs = {}
    if out in ("-", ""):
        return obs
    for part in out.split("|"):
        k, v = part.split("=", 1)
        obs[k] = [[] if seg == "-" else seg.split(",") for seg in v.split("/")]
    return obs


def classify_payload(t, p):
    """message class from the payload, written from the FLV / enhanced-RTMP
    tag layout: meta | vsh | ash | key | other"""
    if t == 18:
        return "meta"
    if len(p) == 0:
        return "empty"
    if t == 8:
        if p[0] >> 4 == 10 and len(p) > 1 and p[1] == 0:
            return "ash"
        return "other"
    if t == 9:
        if p[0] & 0x80:
            ptype = p[0] & 15
            ftype = (p[0] >> 4) & 7
            if p[1:5] == b"hvc1" and ptype == 0:
                return "vsh"
            if ftype == 1 and ptype != 0:
                return "key"
            return "other"
        codec = p[0] & 15
        if p[0] >> 4 == 1 and codec in (7, 12) and len(p) > 1:
            if p[1] == 0:
                return "vsh"
            if p[1] == 1:
                return "key"
        return "other"
    return "other"


def chunk_len(n, ts, extfix):
    if n == 0:
        return 0
    k = (n + 4095) // 4096
    ext = ts >= 0xFFFFFF if extfix else ts > 0xFFFFFF
    return n + k + 11 + (4 * k if ext else 0)


def without_sdf(p):
    if len(p) >= 3 and p[0] == 2 and (p[1] << 8 | p[2]) <= len(p) - 3 and p[:16] == SDF:
        return p[16:]
    return p


# ---------------------------------------------------------------------------
# RTSP subscribers: the property clauses, from RFC 3550 / 6184 / 7798 and the history text alone

def rtp_parse(raw):
    """(payload type, payload) of an RTP packet, None when it is not well-formed (RFC 3550 5.1, 5.3.1)"""
    if len(raw) < 12:
        return None
    cc = raw[0] & 15
    off = 12 + 4 * cc
    if len(raw) < off:
        return None
    if raw[0] & 0x10:
        if len(raw) < off + 4:
            return None
        off += 4 + 4 * (raw[off + 2] << 8 | raw[off + 3])
        if len(raw) < off:
            return None
    end = len(raw)
    if raw[0] & 0x20:
        end -= raw[-1]
    if end <= off:
        return None
    return raw[1] & 0x7f, raw[off:end]


_AVC_START = (5, 7, 8)
_HEVC_START = tuple(range(16, 24)) + (32, 33, 34)


VIDEO_PT = 96      # the video track of every SDP the histories announce


def rtp_gop_start(v, body, pt=VIDEO_PT):
    """does this packet begin a random access point of the VIDEO track (parameter sets or an IDR/IRAP slice)?
    Judged from the NAL unit types of RFC 6184 / RFC 7798; a packet of another track starts no GOP, whatever its bytes."""
    v = v[:1]
    if v in ("a", "h") and pt != VIDEO_PT:
        return False
    if v == "a":
        t = body[0] & 31
        if t in _AVC_START:
            return True
        if t == 24:      # STAP-A: the first aggregated NAL unit
            return len(body) > 3 and (body[3] & 31) in _AVC_START
        if t == 28:      # FU-A: only the fragment with the start bit
            return len(body) > 1 and bool(body[1] & 0x80) and (body[1] & 31) in _AVC_START
        return False
    if v == "h":
        t = (body[0] >> 1) & 63
        if t in _HEVC_START:
            return True
        if t == 49:
            return len(body) > 2 and bool(body[2] & 0x80) and (body[2] & 63) in _HEVC_START
        return False
    return True          # a codec the server cannot classify: nothing to wait for


def check_rtsp(cfg, evs, obs, clauses=("sdp", "gate", "run")):
    """every RTSP subscriber (D events) of the history; returns None or (tag, message)"""
    pkts = []        # dict(pos, pt, body, sdp=(k, v) in force or None)
    sdps = []        # positions
    inforce = None
    in_epoch = False
    video_known_at = {}   # pos -> bool, for PLAY positions
    known = False
    dpos, ypos, lpos = {}, {}, {}
    force_at = {}
    for pos, e in enumerate(evs):
        if e[0] == "I":
            in_epoch = True
        elif e[0] in ("O", "Oq"):
            if in_epoch:
                in_epoch, inforce, known = False, None, False
        elif e[0] == "X":
            in_epoch, inforce, known = False, None, False
            for cid in dpos:
                lpos.setdefault(cid, pos)
        elif e[0] == "P":
            p = tok_bytes(e[3])
            if classify_payload(int(e[1]), p) == "vsh":
                known = True
        elif e[0] == "S":
            inforce = (len(sdps), e[1] if len(e) == 3 else "o")
            sdps.append(pos)
        elif e[0] == "D" and e[1] not in dpos:
            dpos[e[1]] = pos
            force_at[e[1]] = inforce
        elif e[0] == "Y":
            video_known_at[pos] = known
            ypos.setdefault(e[1], []).append(pos)
        elif e[0] == "L":
            lpos.setdefault(e[1], pos)
        elif e[0] == "R":
            raw = tok_bytes(e[1])
            pr = rtp_parse(raw)
            pkts.append(dict(pos=pos, pt=pr[0] if pr else None, body=pr[1] if pr else None, sdp=inforce))
    for cid, d in sorted(dpos.items()):
        segs = obs.get(cid)
        if segs is None:
            return ("missing", "RTSP subscriber %s missing from the observation" % cid)
        out = segs[0]
        end = lpos.get(cid, len(evs))
        bad = [l for l in out if l[0] == "?"]
        if bad:
            return ("garbage", "RTSP subscriber %s received %s" % (cid, bad[0]))
        # SDP first: the description in force at DESCRIBE, else the first one announced while the session waits
        want = None
        if force_at[cid] is not None:
            want = force_at[cid][0]
            got_sdp_pos = d
        else:
            later = [k for k, p in enumerate(sdps) if d < p < end]
            if later:
                want = later[0]
            got_sdp_pos = sdps[want] if want is not None else None
        if "sdp" in clauses:
            if want is None:
                if out:
                    return ("sdp", "RTSP subscriber %s received %s although no stream description existed while it was attached" % (cid, out[:4]))
                continue
            if out[:1] != ["d%d" % want]:
                return ("sdp", "RTSP subscriber %s: first thing received is %s, the SDP in force is d%d" % (cid, out[:1], want))
            if any(l[0] == "d" for l in out[1:]):
                return ("sdp", "RTSP subscriber %s received a second DESCRIBE response" % cid)
        if want is None:
            continue
        got = [int(l[1:]) for l in out[1:] if l[0] == "p"]
        # PLAY: the first one sent after the session had its SDP
        plays = [p for p in ypos.get(cid, []) if got_sdp_pos < p < end]
        if not plays:
            if got and "run" in clauses:
                return ("run", "RTSP subscriber %s received RTP packets without having sent PLAY" % cid)
            continue
        play = plays[0]
        cand = [j for j, p in enumerate(pkts) if play < p["pos"] < end and p["pt"] is not None]
        deliverable = [j for j in cand if pkts[j]["pt"] in (96, 97)]
        gated = bool(cfg.get("rw")) and video_known_at[play]
        if gated:
            starts = [j for j in cand if pkts[j]["sdp"] is not None and rtp_gop_start(pkts[j]["sdp"][1], pkts[j]["body"], pkts[j]["pt"])]
            first = starts[0] if starts else None
        else:
            first = cand[0] if cand else None
        if "gate" in clauses and got:
            j0 = got[0]
            if gated and not (pkts[j0]["sdp"] is not None and pkts[j0]["pt"] is not None and rtp_gop_start(pkts[j0]["sdp"][1], pkts[j0]["body"], pkts[j0]["pt"])):
                what = "an audio packet" if pkts[j0]["pt"] == 97 else "no GOP start"
                return ("F-34" if pkts[j0]["pt"] == 97 else "F-32",
                        "RTSP subscriber %s: the first packet it received (p%d) is %s although the stream has video" % (cid, j0, what))
        if "run" in clauses:
            exp = [j for j in deliverable if first is not None and j >= first]
            if got != exp:
                if not got and exp:
                    return ("held", "RTSP subscriber %s received nothing, packets from p%d on were due" % (cid, exp[0]))
                return ("run", "RTSP subscriber %s received packets %s, due: %s" % (cid, got[:16], exp[:16]))
    return None
