# Shared generator / parser for fan-out histories (C01, C02, C16): op c01.hist
from lib.vf import Case
from gen.common import *

SDF = bytes([2, 0, 13]) + b"@setDataFrame"
EXTFIX = 1   # lal writes the extended timestamp also for ts == 0xFFFFFF (fix F-01, bee1ba4)


def amf_str(s):
    return bytes([2, len(s) >> 8, len(s) & 255]) + s


AVC_SH = bytes.fromhex("1700000000" "0164001fffe1000a" "2764001fac5680b40a19" "010004" "28ee3cb0")
_VPS = "40010c01ffff01600000030090000003000003003fba0240"
_SPS = "420101016000000300900000030000030" "03fa005020171f2e5ba4a4c2f01010000030001000003000f08"
_PPS = "4401c073c189"
HVCC = bytes.fromhex("0101" "60000000" "900000000000" "3f" "f000" "fc" "fd" "f8" "f8" "0000" "0f" "03"
                     + "2000010018" + _VPS + "210001002a" + _SPS + "2200010006" + _PPS)
HEVC_SH = bytes.fromhex("1c00000000") + HVCC
EHEVC_SH = bytes([0x90]) + b"hvc1" + HVCC


class Hist:
    """builds one history; keeps the python-side ground truth"""

    def __init__(self, rng, cfg):
        self.rng = rng
        self.cfg = dict(cfg)
        self.ev = []
        self.n = 0
        self.next_id = 1
        self.uniq = 0
        self.last_tok = {}

    def cfg_tok(self):
        c = dict(self.cfg)
        c["extfix"] = EXTFIX
        return ",".join("%s=%d" % kv for kv in sorted(c.items()))

    def line(self):
        return "c01.hist %s %s" % (self.cfg_tok(), ";".join(self.ev))

    def payload(self, head, size):
        """payload token: head bytes + unique filler of total length size"""
        self.uniq += 1
        u = self.uniq
        fill = max(0, size - len(head) - 2)
        tok = hex_tok(head + bytes([(u >> 8) & 255, u & 255]))
        if fill > 0:
            tok += "+r%d.%d" % (fill, u)
        return tok

    def pub(self, kind, ts=None, size=None):
        r = self.rng
        if ts is None:
            ts = r.choice([0, 40, 16777214, 16777215 if EXTFIX else 16777213, 16777216, 4294967295, r.randrange(1 << 32), r.randrange(100000)])
        if size is None:
            size = r.choice([5, 6, 7, 20, 100, 4090, 4095, 4096, 4097, 8191, 8192, 8193, r.randrange(5, 9000)])
        size = max(size, 7)
        if kind in ("vsh_same", "ash_same") :
            base = kind[:3]
            if base in self.last_tok:
                t, tok = self.last_tok[base]
                self.uniq += 1
                self.ev.append("P:%d:%d:%s" % (t, 5000000 + self.uniq, tok))
                self.n += 1
                return
            kind = base
        t, head = {
            "meta": (18, amf_str(b"onMetaData")),
            "meta_sdf": (18, SDF + amf_str(b"onMetaData")),
            "meta_bad": (18, bytes([2, 0, 200, 65])),
            "vsh": (9, AVC_SH),
            "key": (9, bytes([0x17, 1, 0, 0, 0])),
            "inter": (9, bytes([0x27, 1, 0, 0, 0])),
            "hvsh": (9, HEVC_SH),
            "hkey": (9, bytes([0x1c, 1, 0, 0, 0])),
            "hinter": (9, bytes([0x2c, 1, 0, 0, 0])),
            "ehvsh": (9, EHEVC_SH),
            "ehkey": (9, bytes([0x91]) + b"hvc1"),
            "ehinter": (9, bytes([0xa1]) + b"hvc1"),
            "ash": (8, bytes([0xaf, 0, 0x12, 0x10, 0])),
            "aac": (8, bytes([0xaf, 1, 0, 0, 0])),
            "g711": (8, bytes([0x72, 0, 0, 0, 0])),
            "empty": (r.choice([8, 9, 18]), b""),
        }[kind]
        if kind == "meta_bad" and self.cfg.get("push"):
            # the stub push target is lal's own RTMP server, which closes the
            # session on metadata it cannot parse; keep such metadata for the
            # histories without a push target
            kind = "meta"
            t, head = 18, amf_str(b"onMetaData")
        if kind == "empty":
            tok = "-"
        elif kind in ("vsh", "hvsh", "ehvsh"):
            tok = self.payload(head, len(head) + 2)
        else:
            tok = self.payload(head, size if kind not in ("meta", "meta_sdf", "meta_bad") else min(size, 300) + len(head))
        if kind in ("vsh", "ash"):
            self.last_tok[kind] = (t, tok)
        self.ev.append("P:%d:%d:%s" % (t, ts, tok))
        self.n += 1

    def join(self, k):
        i = self.next_id
        self.next_id += 1
        self.ev.append("J%s:%d" % (k, i))
        return i

    def leave(self, i):
        self.ev.append("L:%d" % i)

    def start(self, pat=True):
        self.ev.append("I")
        if self.cfg.get("push"):
            self.ev.append("Jp:900")
        if pat:
            self.pat()

    def stop(self):
        self.ev.append("O")

    def sdp(self):
        self.uniq += 1
        self.ev.append("S:763d30%04x+r%d.%d" % (self.uniq, self.rng.choice([40, 300]), self.uniq))

    def describe(self):
        i = self.next_id
        self.next_id += 1
        self.ev.append("D:%d" % i)
        return i

    def brk(self, i):
        self.ev.append("B:%d" % i)

    def tick(self):
        self.ev.append("K")

    def stop_quick(self):
        self.ev.append("Oq")

    def ts(self, boundary):
        self.uniq += 1
        self.ev.append("T:47%04x+r%d.%d:%d" % (self.uniq, 188 * self.rng.choice([1, 2, 7]) - 3, self.uniq, 1 if boundary else 0))

    def pat(self):
        self.uniq += 1
        self.ev.append("A:4740%04x+r373.%d" % (self.uniq, self.uniq))


CFGS = [
    dict(re=1, rg=0, rm=0, fe=1, fg=0, fm=0, tg=0, tm=0, mw=0, rec=1),
    dict(re=1, rg=1, rm=0, fe=1, fg=1, fm=0, tg=1, tm=0, mw=0, rec=0),
    dict(re=1, rg=3, rm=2, fe=1, fg=3, fm=2, tg=2, tm=2, mw=0, rec=1),
    dict(re=1, rg=1, rm=1, fe=1, fg=0, fm=0, tg=0, tm=0, mw=8192, rec=0),
    dict(re=1, rg=0, rm=0, fe=1, fg=2, fm=1, tg=1, tm=1, mw=1, rec=0),
    dict(re=1, rg=2, rm=0, fe=1, fg=2, fm=0, tg=3, tm=0, mw=20000, rec=1),
    dict(re=1, rg=2, rm=1, fe=1, fg=1, fm=3, tg=2, tm=1, mw=0, rec=0),
]

STREAMS = {
    "av": ["meta", "vsh", "ash", "key", "aac", "inter", "aac", "inter", "key", "inter", "aac", "inter", "inter", "key", "aac", "inter"],
    "video": ["vsh", "key", "inter", "inter", "key", "inter", "inter", "inter", "key", "inter"],
    "audio": ["meta_sdf", "ash", "aac", "aac", "aac", "aac", "aac", "aac"],
    "g711": ["g711", "g711", "g711", "g711", "g711"],
    "hevc": ["meta", "hvsh", "hkey", "hinter", "aac", "hinter", "hkey", "hinter"],
    "ehevc": ["ehvsh", "ehkey", "ehinter", "ehinter", "ehkey", "ehinter"],
    "nokey": ["vsh", "inter", "inter", "aac", "inter", "inter"],
    "hdrchange": ["meta", "vsh", "ash", "key", "aac", "inter", "vsh", "inter", "key", "inter", "ash", "aac", "meta", "inter", "key"],
    "hdrsame": ["vsh", "ash", "key", "inter", "vsh_same", "ash_same", "key", "inter", "aac", "vsh_same", "inter"],
    "mixed": ["meta_bad", "vsh", "key", "empty", "inter", "meta", "vsh", "inter", "key", "empty", "aac"],
}


def gen_histories(tier, rng, push_every=6, header_changes=False):
    """yield Case objects: joins/leaves at every index of the publish sequences"""
    kinds = ["r", "f", "w", "t"]
    count = 0
    names = sorted(n for n in STREAMS if header_changes or not n.startswith("hdr"))
    # systematic: one consumer of a kind joining at every index of each stream shape
    for ci, cfg in enumerate(CFGS):
        for sname in names:
            seq = STREAMS[sname]
            positions = range(0, len(seq) + 1)
            for pos in positions:
                if tier == "quick" and (ci * 7 + pos + len(sname)) % 2 != 0:
                    continue
                c = dict(cfg)
                if count % push_every == 0:
                    c["push"] = 1
                h = Hist(rng, c)
                early = [h.join(k) for k in rng.sample(kinds, 2)]
                h.start()
                mids = []
                for idx, kind in enumerate(seq):
                    if idx == pos:
                        mids = [h.join(k) for k in kinds]
                    h.pub(kind, ts=idx * 40 if rng.random() < 0.7 else None)
                    if rng.random() < 0.5:
                        h.ts(kind in ("key", "hkey", "ehkey"))
                    if mids and idx == pos + 3 and rng.random() < 0.5:
                        h.leave(mids[0])
                if pos >= len(seq):
                    mids = [h.join(k) for k in kinds]
                count += 1
                yield Case(h.line(), cls="join-at-%s" % sname)
    # systematic re-publish: consumers join at chosen points of the SECOND input of the name
    for ci, cfg in enumerate(CFGS):
        for s1 in ("av", "video", "hevc"):
            for s2 in ("av", "audio", "video", "g711"):
                for pos in (0, 2, 4, 99):
                    if tier == "quick" and (ci + pos + len(s1) + len(s2)) % 2:
                        continue
                    c = dict(cfg)
                    h = Hist(rng, c)
                    stay = h.join(rng.choice(kinds))
                    h.start()
                    for idx, kind in enumerate(STREAMS[s1][:rng.choice([3, 5, 9])]):
                        h.pub(kind, ts=idx * 40)
                        if kind == "key":
                            h.ts(True)
                    h.stop()
                    h.start()
                    seq2 = STREAMS[s2][:8]
                    for idx, kind in enumerate(seq2):
                        if idx == pos:
                            for k in kinds:
                                h.join(k)
                        h.pub(kind, ts=1000 + idx * 40)
                        if rng.random() < 0.5:
                            h.ts(kind == "key")
                    if pos >= len(seq2):
                        for k in kinds:
                            h.join(k)
                        h.pub("aac" if s2 != "g711" else "g711", ts=5000)
                    yield Case(h.line(), cls="republish-%s-%s" % (s1, s2))
    # a consumer whose connection is broken (its writes fail) while it is still attached:
    # the others must not notice
    for ci, cfg in enumerate(CFGS):
        for sname in ("av", "audio"):
            for nb in (1, 2):
                c = dict(cfg)
                c["mw"] = [0, 0, 1, 8192][(ci + nb) % 4]
                h = Hist(rng, c)
                h.start()
                subs = [h.join(k) for k in ("r", "r", "r", "r", "f", "f", "w", "r")]
                seq = STREAMS[sname]
                for idx, kind in enumerate(seq):
                    if idx == 4:
                        for b in rng.sample(subs, nb):
                            h.brk(b)
                    h.pub(kind, ts=idx * 40)
                yield Case(h.line(), cls="broken-conn")
    # random histories with re-publishing, several consumers, leaves
    n = 400 if tier == "quick" else 4000
    for k in range(n):
        cfg = dict(rng.choice(CFGS))
        cfg["mw"] = rng.choice([0, 0, 1, 4000, 8192, 30000])
        if rng.random() < 0.25:
            cfg["push"] = 1
        h = Hist(rng, cfg)
        live = []
        epochs = rng.choice([1, 1, 2, 3])
        for e in range(epochs):
            for _ in range(rng.randrange(0, 3)):
                live.append(h.join(rng.choice(kinds)))
            h.start()
            seq = list(STREAMS[rng.choice(names)])
            if rng.random() < 0.3:
                rng.shuffle(seq)
            for kind in seq[:rng.randrange(1, len(seq) + 1)]:
                a = rng.random()
                if a < 0.25:
                    live.append(h.join(rng.choice(kinds)))
                elif a < 0.35 and live:
                    h.leave(live.pop(rng.randrange(len(live))))
                h.pub(kind)
                if rng.random() < 0.4:
                    h.ts(rng.random() < 0.4)
            h.stop()
        yield Case(h.line(), cls="random-%depoch%s" % (epochs, "-push" if cfg.get("push") else ""))


# ---------------------------------------------------------------------------
# ground truth from the case line (independent of the Coq model)

def parse_case(line):
    _, cfgtok, evtok = line.split(" ")
    cfg = {k: int(v) for k, v in (kv.split("=") for kv in cfgtok.split(","))}
    evs = []
    for e in evtok.split(";"):
        if e:
            evs.append(e.split(":"))
    return cfg, evs


def parse_obs(out):
    """'1=c0,c1|2=HF,t0|rec=F,t0/F,t1' -> {id: [segments of label lists]}"""
    obs = {}
    if out in ("-", ""):
        return obs
    for part in out.split("|"):
        k, v = part.split("=", 1)
        obs[k] = [[] if seg == "-" else seg.split(",") for seg in v.split("/")]
    return obs


def classify_payload(t, p):
    """message class from the payload, written from the FLV / enhanced-RTMP
    tag layout: meta | vsh | ash | key | other"""
    if t == 18:
        return "meta"
    if len(p) == 0:
        return "empty"
    if t == 8:
        if p[0] >> 4 == 10 and len(p) > 1 and p[1] == 0:
            return "ash"
        return "other"
    if t == 9:
        if p[0] & 0x80:
            ptype = p[0] & 15
            ftype = (p[0] >> 4) & 7
            if p[1:5] == b"hvc1" and ptype == 0:
                return "vsh"
            if ftype == 1 and ptype != 0:
                return "key"
            return "other"
        codec = p[0] & 15
        if p[0] >> 4 == 1 and codec in (7, 12) and len(p) > 1:
            if p[1] == 0:
                return "vsh"
            if p[1] == 1:
                return "key"
        return "other"
    return "other"


def chunk_len(n, ts, extfix):
    if n == 0:
        return 0
    k = (n + 4095) // 4096
    ext = ts >= 0xFFFFFF if extfix else ts > 0xFFFFFF
    return n + k + 11 + (4 * k if ext else 0)


def without_sdf(p):
    if len(p) >= 3 and p[0] == 2 and (p[1] << 8 | p[2]) <= len(p) - 3 and p[:16] == SDF:
        return p[16:]
    return p
