# C19 part C: AAC audio configuration - AudioSpecificConfig <-> ADTS header <->
# FLV/RTMP sequence header (pkg/aac/aac.go, pkg/aac/seqheader.go).
from lib.vf import Case
from gen.common import *

OPS = {"c19.asc_unpack", "c19.asc_pack", "c19.adts_pack", "c19.adts_pack_to", "c19.adts_unpack", "c19.asc_of_adts", "c19.aac_freq",
       "c19.aac_seqh_unpack", "c19.aac_seqh_asc", "c19.aac_seqh_adts", "c19.aac_rt"}
RULE = ("aac: every (object type 1..4 x sampling index 0..15 x channel configuration 0..7) through ASC -> ADTS -> ASC with frame lengths at "
        "every power-of-two boundary of the 13-bit field, 8184/8185 and the uint16 wrap; contexts outside what ADTS carries (object type "
        "0,5,29,31.., channels 8.., index 16..); every first ASC byte x boundary second bytes, real-world configs with SBR/PS extension, "
        "escape codes (object type 31, index 15); ADTS headers from an independent ISO 14496-3 1.A.2 writer over all fixed/variable header "
        "fields, truncated at every length, random and mutated; sequence headers of every short length; the oracle is an independent "
        "ISO 14496-3 1.6.2.1 AudioSpecificConfig reader and 1.A.2 ADTS header reader; non-trivial = output has an ok part / a value and the case is new")
ASSUMPTIONS = ["AscContext fields are uint8 and frameLength is a non-negative int (the drivers truncate / never pass negatives)",
               "ADTS carries object types 1..4, 4-bit sampling index, channel configurations 0..7 and frames below 8192 bytes: nothing is promised "
               "outside (c19_adts_*_refuted); ASC escape codes (object type 31, sampling index 15) are outside AscContext"]

FREQ = [96000, 88200, 64000, 48000, 44100, 32000, 24000, 22050, 16000, 12000, 11025, 8000, 7350]


class _BR:
    def __init__(self, b):
        self.b, self.p = b, 0

    def u(self, n):
        if self.p + n > 8 * len(self.b):
            raise ValueError("out of data")
        v = 0
        for _ in range(n):
            v = (v << 1) | ((self.b[self.p >> 3] >> (7 - (self.p & 7))) & 1)
            self.p += 1
        return v


def ref_asc(b):
    """ISO 14496-3 1.6.2.1 AudioSpecificConfig up to channelConfiguration and the explicit hierarchical SBR/PS signalling;
    a config that ends inside an escape code reads as escape"""
    try:
        return _ref_asc(b)
    except ValueError:
        return dict(escape=True, aot=None, sfi=None, chan=None)


def _ref_asc(b):
    r = _BR(b)

    def aot():
        t = r.u(5)
        return 32 + r.u(6) if t == 31 else t

    def freq():
        i = r.u(4)
        return (i, r.u(24)) if i == 15 else (i, FREQ[i] if i < len(FREQ) else None)

    d = {}
    d["aot"] = aot()
    d["sfi"], d["freq"] = freq()
    d["chan"] = r.u(4)
    d["escape"] = d["aot"] >= 32 or d["sfi"] == 15
    d["ext_aot"] = 0
    if d["aot"] in (5, 29) and r.p + 9 <= 8 * len(b):
        d["ext_aot"] = 5
        d["ext_sfi"] = r.u(4)
        d["core_aot"] = r.u(5)
    d["bits"] = r.p
    return d


def ref_adts(b):
    """ISO 14496-3 1.A.2 adts_fixed_header + adts_variable_header"""
    r = _BR(b)
    d = {}
    for name, n in (("syncword", 12), ("id", 1), ("layer", 2), ("protection_absent", 1), ("profile", 2), ("sfi", 4), ("private", 1),
                    ("chan", 3), ("original", 1), ("home", 1), ("cp_bit", 1), ("cp_start", 1), ("frame_length", 13),
                    ("fullness", 11), ("blocks", 2)):
        d[name] = r.u(n)
    return d


def ref_adts_write(d):
    v = 0
    for name, n in (("syncword", 12), ("id", 1), ("layer", 2), ("protection_absent", 1), ("profile", 2), ("sfi", 4), ("private", 1),
                    ("chan", 3), ("original", 1), ("home", 1), ("cp_bit", 1), ("cp_start", 1), ("frame_length", 13),
                    ("fullness", 11), ("blocks", 2)):
        v = (v << n) | (d[name] & ((1 << n) - 1))
    return v.to_bytes(7, "big")


def ref_asc_write(aot, sfi, chan, tail_bits=0, tail_len=3):
    v = (((aot << 4 | sfi) << 4 | chan) << tail_len) | tail_bits
    n = 13 + tail_len
    return (v << (-n % 8)).to_bytes((n + 7) // 8, "big")


FRAME_LENS = sorted(set([0, 1, 2, 3, 100, 1000, 8184, 8185, 8186, 8191, 8192, 65528, 65529, 65530, 65535, 65536, (1 << 31) - 7, 1 << 31, (1 << 32) - 7, 1 << 40]
                        + [(1 << k) - 7 + d for k in range(3, 14) for d in (-1, 0, 1)]))


def gen_cases(tier, rng):
    q = tier == "quick"
    T = hex_tok
    # ---- boundary / corpus: the configs seen in the wild, lal's unit-test vectors
    for s in ["-", "12", "1210", "1190", "1390", "1408", "1188", "0a10", "2b920800", "eb098800", "121056e500", "1210+r62.1", "f8", "f800", "f9e810",
              "17805dc010", "1780", "178000", "ffff", "0000", "0800", "2000", "2800", "4790", "1278"]:
        yield Case("c19.asc_unpack " + s, cls="asc-boundary")
        yield Case("c19.aac_seqh_asc " + s, cls="seqh-boundary")
        for n in (0, 376, 8184):
            yield Case("c19.aac_rt %s %d" % (s, n), cls="rt-boundary")
    for s in ["-", "ff", "fff1", "fff150", "fff15080", "fff1508002", "fff150800220", "fff150800220fc", "fff15080022ffc", "fff94c802fbffc21",
              "fff15c80029ffc", "fff0508002200000", "00000000000000", "ffffffffffffff", "fff1fc00000000", "fff101c0000000", "r7.1", "r9.2", "r64.3"]:
        yield Case("c19.adts_unpack " + s, cls="adts-boundary")
        yield Case("c19.asc_of_adts " + s, cls="adts-boundary")
        yield Case("c19.aac_seqh_adts " + s, cls="seqh-boundary")
    for s in ["-", "af", "af00", "af01", "af0012", "af001210", "2f00", "a000", "0f00", "ae01", "ffff", "00", "af00+r70.5"]:
        yield Case("c19.aac_seqh_unpack " + s, cls="seqh-boundary")
    for n in (0, 1, 2, 3, 5, 64, 65, 70000):
        yield Case("c19.aac_seqh_asc r%d.%d" % (n, n), cls="seqh-boundary")
    for i in list(range(18)) + [255]:
        yield Case("c19.aac_freq %d" % i, cls="freq")

    # ---- exhaustive over what ADTS carries, frame lengths rotating through every boundary
    k = 0
    for aot in (1, 2, 3, 4):
        for sfi in range(16):
            for ch in range(8):
                n = FRAME_LENS[k % len(FRAME_LENS)]
                k += 1
                yield Case("c19.adts_pack %d %d %d %d" % (aot, sfi, ch, n), cls="adts_pack-domain")
                yield Case("c19.asc_pack %d %d %d" % (aot, sfi, ch), cls="asc_pack-domain")
                tail = rng.choice(["", "", "00", "56e500", "r5.%d" % k])
                asc = ref_asc_write(aot, sfi, ch, rng.randrange(8))
                yield Case("c19.aac_rt %s %d" % (T(asc) + ("+" + tail if tail else ""), rng.choice([rng.randrange(8185), n])), cls="rt-domain")
    for n in FRAME_LENS:
        yield Case("c19.adts_pack 2 4 2 %d" % n, cls="adts_pack-framelen")
        yield Case("c19.adts_pack 4 15 7 %d" % n, cls="adts_pack-framelen")
    for n in (range(0, 8300, 97) if q else range(0, 8300, 7)):
        yield Case("c19.adts_pack 2 3 1 %d" % n, cls="adts_pack-framelen")
    # ---- outside the domain (model vs code; the refuted lemmas)
    for aot in (0, 5, 6, 7, 8, 17, 29, 31, 32, 33, 128, 255):
        for sfi in (0, 4, 12, 13, 15, 16, 17, 255):
            for ch in (0, 2, 7, 8, 9, 15, 16, 255):
                yield Case("c19.adts_pack %d %d %d %d" % (aot, sfi, ch, rng.choice(FRAME_LENS)), cls="adts_pack-outside")
                yield Case("c19.asc_pack %d %d %d" % (aot, sfi, ch), cls="asc_pack-outside")
    for aot in range(34):
        yield Case("c19.asc_pack %d 4 2" % aot, cls="asc_pack-domain")
        yield Case("c19.adts_pack %d 4 2 1017" % aot, cls="adts_pack-outside")
    for m in range(0, 10):
        for fill in ("00", "ff", "a5"):
            out = "+".join([fill] * m) if m else "-"
            yield Case("c19.adts_pack_to 2 4 2 %d %s" % (rng.choice(FRAME_LENS), out), cls="adts_pack_to")
    yield Case("c19.adts_pack_to 2 4 2 1017 r64.9", cls="adts_pack_to")

    # ---- ASC bytes
    for b0 in range(256):
        for b1 in (0x00, 0x08, 0x10, 0x78, 0x80, 0x88, 0xf8, 0xff, rng.randrange(256)):
            yield Case("c19.asc_unpack %02x%02x" % (b0, b1), cls="asc-sweep")
    for _ in range(150 if q else 3000):
        b = bytes(rng.randrange(256) for _ in range(rng.choice([2, 2, 3, 4, 5, 7])))
        yield Case("c19.asc_unpack " + T(b), cls="asc-random")
        yield Case("c19.aac_rt %s %d" % (T(b), rng.choice([rng.randrange(8185), rng.choice(FRAME_LENS)])), cls="rt-random")

    # ---- ADTS headers from the reference writer
    hdrs = []
    for i in range(200 if q else 4000):
        d = dict(syncword=0xfff, id=rng.choice([0, 0, 1]), layer=rng.choice([0, 0, 0, 1, 3]), protection_absent=rng.choice([1, 1, 0]),
                 profile=rng.randrange(4), sfi=rng.randrange(16), private=rng.randrange(2), chan=rng.randrange(8), original=rng.randrange(2),
                 home=rng.randrange(2), cp_bit=rng.randrange(2), cp_start=rng.randrange(2),
                 frame_length=rng.choice([0, 7, 8, 255, 256, 4095, 4096, 8191, rng.randrange(8192)]),
                 fullness=rng.choice([0x7ff, 0, rng.randrange(2048)]), blocks=rng.randrange(4))
        if i % 10 == 0:
            d["syncword"] = rng.randrange(4096)
        h = ref_adts_write(d) + bytes(rng.randrange(256) for _ in range(rng.choice([0, 0, 2, 9])))
        hdrs.append(h)
        yield Case("c19.adts_unpack " + T(h), cls="adts-valid")
        yield Case("c19.asc_of_adts " + T(h), cls="adts-valid")
        if i % 4 == 0:
            yield Case("c19.aac_seqh_adts " + T(h), cls="seqh-adts")
    for h in hdrs[:6 if q else 60]:
        for k in range(len(h) + 1):
            yield Case("c19.adts_unpack " + T(h[:k]), cls="adts-truncated")
            yield Case("c19.asc_of_adts " + T(h[:k]), cls="adts-truncated")
            yield Case("c19.aac_seqh_adts " + T(h[:k]), cls="adts-truncated")
        for _ in range(8):
            m = bytearray(h)
            m[rng.randrange(7)] ^= 1 << rng.randrange(8)
            yield Case("c19.adts_unpack " + T(bytes(m)), cls="adts-mutated")
            yield Case("c19.asc_of_adts " + T(bytes(m)), cls="adts-mutated")
    for _ in range(60 if q else 600):
        b = bytes(rng.randrange(256) for _ in range(rng.choice([0, 1, 2, 2, 3, 4])))
        yield Case("c19.aac_seqh_unpack " + T(b), cls="seqh-random")


def nontrivial(c, out):
    if out.startswith("err") or out == "panic":
        return None
    return c.line


# ------------------------------------------------------------------ oracle
def _ctx(s):
    return tuple(num(x) for x in s.split(","))


def _ok_bytes(s):
    return tok_bytes(s[3:]) if s.startswith("ok ") else None


def _carried(aot, sfi, ch):
    return 1 <= aot <= 4 and 0 <= sfi <= 15 and 0 <= ch <= 7


def _check_adts_header(h, aot, sfi, ch, n):
    """the header lal wrote for (aot, sfi, ch) and a payload of n bytes, read by the 1.A.2 reader"""
    if len(h) != 7:
        return "ADTS header of %d bytes" % len(h)
    d = ref_adts(h)
    if (d["syncword"], d["id"], d["layer"], d["protection_absent"]) != (0xfff, 0, 0, 1):
        return "syncword/ID/layer/protection_absent = %r" % ((d["syncword"], d["id"], d["layer"], d["protection_absent"]),)
    if (d["profile"] + 1, d["sfi"], d["chan"]) != (aot, sfi, ch):
        return "ADTS header says object type %d, index %d, channels %d; the config is %r" % (d["profile"] + 1, d["sfi"], d["chan"], (aot, sfi, ch))
    if d["frame_length"] != n + 7:
        return "aac_frame_length %d for a %d byte payload" % (d["frame_length"], n)
    if (d["fullness"], d["blocks"]) != (0x7ff, 0):
        return "buffer fullness / raw data blocks = %r" % ((d["fullness"], d["blocks"]),)
    return None


def oracle(c, out):
    f = c.line.split(" ")
    op = f[0]
    if out == "panic":
        return (False, "panic in an aac function")
    if "differs" in out or out == "err-with-value":
        return (False, "constructor and Unpack disagree: " + out)
    if op == "c19.asc_unpack":
        b = tok_bytes(f[1])
        if len(b) < 2:
            return (out == "err short", "ASC of %d bytes: %s" % (len(b), out))
        d = ref_asc(b)
        if d["escape"]:
            return None
        return (out.startswith("ok ") and _ctx(out[3:]) == (d["aot"], d["sfi"], d["chan"]),
                "ISO 14496-3 reader: object type %d, index %d, channels %d; lal: %s" % (d["aot"], d["sfi"], d["chan"], out))
    if op == "c19.asc_pack":
        aot, sfi, ch = (int(x) for x in f[1:4])
        if not (aot < 31 and sfi < 15 and ch < 16):
            return None
        b = tok_bytes(out)
        d = ref_asc(b) if len(b) == 2 else None
        return (d is not None and (d["aot"], d["sfi"], d["chan"]) == (aot, sfi, ch) and b[1] & 7 == 0, "packed ASC %s does not read back as %r" % (out, (aot, sfi, ch)))
    if op in ("c19.adts_pack", "c19.adts_pack_to"):
        aot, sfi, ch, n = (int(x) for x in f[1:5])
        if op == "c19.adts_pack_to":
            buf = tok_bytes(f[5])
            if len(buf) < 7:
                return (out == "err short", "output buffer of %d bytes: %s" % (len(buf), out))
            h = _ok_bytes(out)
            if h is None or h[7:] != buf[7:]:
                return (False, "bytes behind the header changed: " + out[:60])
            h = h[:7]
        else:
            h = tok_bytes(out)
        if not _carried(aot, sfi, ch) or n + 7 >= 8192:
            return None
        why = _check_adts_header(h, aot, sfi, ch, n)
        return (why is None, why or "")
    if op in ("c19.adts_unpack", "c19.asc_of_adts", "c19.aac_seqh_adts"):
        b = tok_bytes(f[1])
        if len(b) < 7:
            return (out == "err short", "ADTS header of %d bytes: %s" % (len(b), out))
        d = ref_adts(b)
        want = (d["profile"] + 1, d["sfi"], d["chan"])
        if op == "c19.adts_unpack":
            return (out.startswith("ok ") and _ctx(out[3:]) == want + (d["frame_length"],),
                    "1.A.2 reader: %r length %d; lal: %s" % (want, d["frame_length"], out))
        o = _ok_bytes(out)
        if o is None:
            return (False, "no config from a 7 byte header: " + out)
        if op == "c19.aac_seqh_adts":
            if o[:2] != b"\xaf\x00":
                return (False, "sequence header starts %s" % o[:2].hex())
            o = o[2:]
        if d["sfi"] == 15:      # forbidden in ADTS; as ASC it would be the escape code for an explicit frequency
            return None
        a = ref_asc(o) if len(o) == 2 else None
        return (a is not None and (a["aot"], a["sfi"], a["chan"]) == want and o[1] & 7 == 0,
                "1.A.2 reader: %r; the ASC made from the header is %s" % (want, o.hex()))
    if op == "c19.aac_freq":
        i = int(f[1])
        if i < len(FREQ):
            return (out == "ok " + hex(FREQ[i]), "sampling index %d is %d Hz, lal: %s" % (i, FREQ[i], out))
        return (out.startswith("err"), "index %d has no frequency, lal: %s" % (i, out))
    if op == "c19.aac_seqh_asc":
        b = tok_bytes(f[1])
        if len(b) < 2:
            return (out == "err short", "ASC of %d bytes: %s" % (len(b), out))
        return (_ok_bytes(out) == b"\xaf\x00" + b, "sequence header is not af 00 + the ASC bytes")
    if op == "c19.aac_seqh_unpack":
        b = tok_bytes(f[1])
        if len(b) < 2:
            return None
        # FLV AUDIODATA: SoundFormat u(4) SoundRate u(2) SoundSize u(1) SoundType u(1), AACPacketType u(8)
        want = (b[0] >> 4, (b[0] >> 2) & 3, (b[0] >> 1) & 1, b[0] & 1, b[1])
        return (_ctx(out) == want, "FLV audio tag header fields %r, lal: %s" % (want, out))
    if op == "c19.aac_rt":
        b, n = tok_bytes(f[1]), int(f[2])
        if len(b) < 2:
            return (out == "err short", "ASC of %d bytes: %s" % (len(b), out))
        d = ref_asc(b)
        if d["escape"] or not out.startswith("ok "):
            return None if d["escape"] else (False, "ASC not accepted: " + out)
        p = out[3:].split(" | ")
        cfg = (d["aot"], d["sfi"], d["chan"])
        if _ctx(p[0]) != cfg:
            return (False, "ISO 14496-3 reader: %r, lal: %s" % (cfg, p[0]))
        if not _carried(*cfg) or n + 7 >= 8192:
            return None
        why = _check_adts_header(tok_bytes(p[1]), cfg[0], cfg[1], cfg[2], n)
        if why:
            return (False, why)
        if p[2] != "ok %s,%s,%s,%s" % (hex(cfg[0]), hex(cfg[1]), hex(cfg[2]), hex(n + 7)):
            return (False, "lal reads its own ADTS header as " + p[2])
        # the 13 bits the header can carry come back, the rest of the ASC is gone
        asc2 = _ok_bytes(p[3])
        if asc2 is None or asc2 != bytes([b[0], b[1] & 0xf8]):
            return (False, "ASC %s -> ADTS -> ASC gives %s (expected the first 13 bits)" % (b[:2].hex(), p[3]))
        if _ok_bytes(p[4]) != b"\xaf\x00" + asc2:
            return (False, "sequence header from the ADTS header: " + p[4])
        return (True, "")
    return None


def classify_finding(c, out):
    return None


def neighbors(c, rng):
    f = c.line.split(" ")
    if f[0] in ("c19.asc_unpack", "c19.adts_unpack", "c19.asc_of_adts", "c19.aac_seqh_adts", "c19.aac_seqh_unpack", "c19.aac_seqh_asc"):
        b = tok_bytes(f[1])
        for _ in range(30):
            m = bytearray(b)
            if not m:
                break
            m[rng.randrange(min(len(m), 7))] ^= 1 << rng.randrange(8)
            yield "%s %s" % (f[0], hex_tok(bytes(m)))
    if f[0] == "c19.adts_pack":
        for n in (0, 1, 249, 8184):
            yield "c19.adts_pack %s %s %s %d" % (f[1], f[2], f[3], n)
        for a in (1, 2, 3, 4):
            yield "c19.adts_pack %d %s %s %s" % (a, f[2], f[3], f[4])
