# C03 - a stream has one input; foreign arrivals and departures never disturb it.
#
# Case format (one history per line):
#   c03.run <cfg> <op>,<op>,...
#     cfg: "-" or k=v pairs joined by ","   (static=1: static relay pull on; push=N: N relay-push targets;
#                                            tree=pinned: the MODEL follows the pinned tree - replay of refutation witnesses)
#     ops (args joined by "."; streams and session ids are small numbers):
#       rp.S.N[.deny|.L<n>] rtmp publish (L<n>: n bytes of URL parameters)      rs.S.N[.deny]  rtmp play       ap.S.N[.deny] rtsp ANNOUNCE
#       ap2.S.N.M[.deny] / ds2.S.N.M[.deny]  a further ANNOUNCE / DESCRIBE (new session M) on the command connection of session N
#       psuccm.S.I   like psucc, the origin sending one audio message (and a ping request) in the SAME write as its answer to play;
#                    result <attempt>~m<http-flv subscribers that message was written to, joined by +>
#       sdp.S        observation: the input whose SDP the group of S holds (what an RTSP DESCRIBE is answered with): c<N> / p<S>_<I> / -
#                    (every RTSP input of the harness - ANNOUNCE, stub origin of an rtsp:// pull - has an SDP of its own)
#       rp2.S.N / rs2.S.N  a further publish / play command naming stream S on the connection of RTMP session N
#       requests through the real HTTP API server (a numeric key is a = absent, z = null, q = a string, or an integer):
#         hpull.S.T.R.A.M.FLAGS  start_relay_pull with pull_timeout_ms T, pull_retry_num R, auto_stop_pull_after_no_out_ms A, rtsp_mode M;
#                                FLAGS - or letters r (rtsp:// url) u (no url key) n (no stream_name key); result <spull result>~T:R:A:M as the group took them
#         hxpull.S|a   stop_relay_pull       hkick.S|a.NAME|a   kick_session
#         hpp.S|a.N.P.T.F  start_rtp_pub with port P, timeout_ms T, is_tcp_flag F; result <code>~<timeout s>:<tcp> when accepted
#                          P = b: an explicit port that cannot be bound - the harness holds a udp (tcp when F asks for tcp) socket on it
#       rp.S.N.wK / rs.S.N.wK   the K-th write of the RTMP server shell on this connection fails, and every later one (handshake 1, connect
#                    2-5, createStream 6, publish 7 | play 7-9); ap.S.N.w1: the response to ANNOUNCE cannot be written; pl.N.w: nor that to PLAY
#                    (RTSP: the failed write closes the connection, the shell ends with it - gone.N)
#       pp.S.N.b     start_rtp_pub (direct call) for a udp port the harness holds: Listen fails
#       spull.S.0.A.bad | .badrtsp | .http   start_relay_pull with a malformed rtmp / rtsp url or a scheme without pull session:
#                    the attempt starts (answer 0:<attempt>) and fails by itself in the same step (only with retry budget 0)
#         1002 = param missing: nothing was called
#       ds.S.N[.deny]  rtsp DESCRIBE     pl.N           rtsp PLAY       fs.S.N[.deny] http-flv   ts.S.N[.deny] http-ts
#       cp.S.N         customize pub     pp.S.N         start_rtp_pub   gone.N        connection ends / DelCustomizePubSession
#       kick.S.<name>  kick_session      spull.S.R.A[.rtsp] start_relay_pull (retry R, auto-stop A ms; nK = -K; .rtsp: rtsp:// url)
#       xpull.S        stop_relay_pull   psucc.S.I / pfail.S.I / pdone.S.I   outcome of attempt I of stream S (0 = latest)
#       pushok.S.T / pushfail.S.T / pushdone.S.T   outcome at push target T
#       tick.C   adv.MS   dispose   media.N
# Output: per op  <result>/<view>/<notifications>  joined by ";"
#   view: groups joined by "|":  sS:<rtmp>,<rtsp>,<cust>,<ps>,<pullrtmp>,<pullrtsp>:<pulling>:<startCount>:<api>:<pipe>:<stat pub>:<stat pull>:<stat subs>:<push>
#   notifications: KIND:name:<hasIn><hasOut> joined by "+", KIND in PS PE SS SE RS RE
from lib.vf import Case

ID = "C03"
RULE = ("event histories driven through a real ServerManager and through the extracted model: every ordered pair of input "
        "kinds (rtmp/rtsp/customize/ps publisher, attached pull, pull in flight), every departure kind of a non-accepted session "
        "while another input is accepted, pull overtaken by a publisher, kick/start/stop API and dispose at each point of a base "
        "history, refusals by authentication, two streams interleaved, then seeded random histories; a case is non-trivial when "
        "its (config, history) is new and the model reports no malformed op")
ASSUMPTIONS = [
    "events are serialised by the harness: one callback / API call / tick / connection end at a time; the Del that lal's own goroutine reports "
    "for a session lal disposed (relay pull, PS publisher, relay push) is awaited before the next event (interleavings inside one callback are C20's)",
    "tick counts that are multiples of LogicCheckSessionAliveIntervalSec (120) are not generated (idle-session reaping is C16's)",
    "HLS subscribers are not modelled; the stub origin answers rtsp:// pulls over interleaved TCP only (RtspMode 0)",
    "no subscriber arrives after ServerManager.Dispose (the implementation panics on its nil subscriber maps)",
    "StartRtpPub's Listen succeeds (port 0 / absent); the HTTP API is exercised for start_relay_pull, stop_relay_pull, kick_session and "
    "start_rtp_pub (add_ip_blacklist and the stat pages are not); start_rtp_pub receive timeouts never expire in a generated history",
]
FULL_OUTPUT = True
TIMEOUT = 900

# rp/ap/cp/pp: rtmp, rtsp, customize, ps publisher; pull/rpull: attached rtmp / rtsp relay pull; held/rheld: the same still connecting
INPUT_KINDS = ["rp", "ap", "cp", "pp", "pull", "rpull", "held", "rheld"]
PULL_KINDS = ("pull", "rpull", "held", "rheld")


def spull(kind, s, retry="0"):
    return "spull.%d.%s.n1%s" % (s, retry, ".rtsp" if kind in ("rpull", "rheld") else "")


def arrive(kind, s, n):
    """ops that bring input `kind` (named c<n> or the latest attempt of s) to stream s"""
    if kind in ("rp", "ap", "cp", "pp"):
        return ["%s.%d.%d" % (kind, s, n)]
    if kind in ("pull", "rpull"):
        return [spull(kind, s), "psucc.%d.0" % s]
    if kind in ("held", "rheld"):
        return [spull(kind, s)]
    raise ValueError(kind)


def depart(kind, s, n, how):
    if kind in ("rp", "ap"):
        return {"gone": ["gone.%d" % n], "kick": ["kick.%d.c%d" % (s, n), "gone.%d" % n], "kickonly": ["kick.%d.c%d" % (s, n)]}[how]
    if kind == "cp":
        return ["gone.%d" % n] if how != "kickonly" else ["kick.%d.c%d" % (s, n)]
    if kind == "pp":
        return ["kick.%d.c%d" % (s, n)]
    if kind in ("pull", "rpull"):
        return {"gone": ["pdone.%d.0" % s], "kick": ["kick.%d.p%d_1" % (s, s)], "kickonly": ["xpull.%d" % s]}[how]
    if kind in ("held", "rheld"):
        return {"gone": ["pfail.%d.0" % s], "kick": ["psucc.%d.0" % s, "pdone.%d.0" % s], "kickonly": ["xpull.%d" % s, "psucc.%d.0" % s]}[how]
    raise ValueError(kind)


def media(kind, n):
    return ["media.%d" % n] if kind in ("rp", "cp") else []


def line(ops, cfg="-"):
    return "c03.run %s %s" % (cfg, ",".join(ops))


def gen_pairs():
    # every ordered pair of input kinds on one stream, three ways of ending the second one
    for a in INPUT_KINDS:
        for b in INPUT_KINDS:
            for how in ("gone", "kick", "kickonly"):
                if b in PULL_KINDS and a in PULL_KINDS:
                    # a second start_relay_pull (of b's protocol) while one is attached / in flight
                    ops = ["fs.1.90"] + arrive(a, 1, 1) + [spull(b, 1)] + ["psucc.1.0", "tick.1"] + depart(a, 1, 1, how) + ["tick.2", "tick.3"]
                    yield Case(line(ops), cls="pair-%s-%s" % (a, b))
                    break
                ops = ["fs.1.90"] + arrive(a, 1, 1) + media(a, 1) + arrive(b, 1, 2) + media(a, 1) + media(b, 2)
                ops += depart(b, 1, 2, how) + media(a, 1) + ["tick.1"] + depart(a, 1, 1, "gone") + media(a, 1) + ["tick.2", "tick.3"]
                yield Case(line(ops), cls="pair-%s-%s" % (a, b))


def gen_foreign():
    # every departure kind of a session that is not the accepted input, while another input is accepted
    foreign = [
        ["rp.1.2", "gone.2"], ["rp.1.2", "kick.1.c2"], ["ap.1.2", "gone.2"], ["ap.1.2", "kick.1.c2"],
        ["cp.1.2", "gone.2"], ["pp.1.2", "kick.1.c2"], ["rp.1.2.deny"], ["ap.1.2.deny"], ["rs.1.2.deny"], ["ds.1.2.deny"],
        ["fs.1.2.deny"], ["ts.1.2.deny"],
        ["rs.1.2", "gone.2"], ["rs.1.2", "kick.1.c2", "gone.2"], ["fs.1.2", "gone.2"], ["fs.1.2", "kick.1.c2", "gone.2"],
        ["ts.1.2", "kick.1.c2", "gone.2"], ["ds.1.2", "pl.2", "kick.1.c2", "gone.2"], ["ds.1.2", "gone.2"],
        ["kick.1.c77"], ["kick.1.p1_9"], ["kick.2.c1"], ["rp.2.2", "kick.1.c2", "kick.2.c1", "gone.2"],
        ["spull.1.0.n1"], ["spull.1.0.n1.rtsp"], ["xpull.1"], ["tick.1", "tick.2"], ["adv.100000", "tick.1"],
        ["gone.2"], ["gone.90"], ["pfail.1.1"], ["psucc.1.1"], ["pdone.1.1"], ["media.2"], ["pl.2"],
    ]
    for a in ("rp", "ap", "cp", "pp", "pull", "rpull"):
        for f in foreign:
            ops = ["fs.1.90", "rs.1.91"] + arrive(a, 1, 1) + media(a, 1) + f + media(a, 1) + ["tick.3"] + depart(a, 1, 1, "gone") + ["tick.4", "gone.90", "gone.91", "tick.5"]
            yield Case(line(ops), cls="foreign-" + a)
    # a pull of each protocol still connecting when a publisher of each kind arrives, every outcome
    for proto in ("", ".rtsp"):
        for b in ("rp", "ap", "cp", "pp"):
            # the origin sends media right behind its answer to play (psuccm); the SDP the group holds is observed around it
            for out in (["pfail.1.1"], ["psuccm.1.1"], ["psuccm.1.1", "tick.6", "pdone.1.1"], ["xpull.1", "psuccm.1.1"], ["xpull.1", "pfail.1.1"],
                        ["kick.1.p1_1", "psuccm.1.1"], ["psucc.1.1"]):
                ops = ["fs.1.90", "spull.1.1.n1" + proto] + arrive(b, 1, 1) + ["sdp.1"] + media(b, 1) + out + ["sdp.1"] + media(b, 1) + ["tick.1", "rp.1.7", "cp.1.8"] \
                    + depart(b, 1, 1, "gone") + ["sdp.1", "tick.2", "psuccm.1.0", "sdp.1", "tick.3", "pdone.1.0", "sdp.1", "tick.4"]
                yield Case(line(ops), cls="overtaken%s-%s" % (proto.replace(".", "-"), b))


def gen_api_points():
    base = ["fs.1.90", "rp.1.1", "media.1", "rs.1.91", "gone.1", "tick.1", "gone.90", "gone.91", "tick.2"]
    ins = ["kick.1.c1", "kick.1.c90", "kick.1.p1_1", "spull.1.0.n1", "xpull.1", "tick.7", "adv.60000", "pp.1.5", "cp.1.6", "rp.1.7", "ap.1.8", "dispose"]
    for x in ins:
        for i in range(len(base) + 1):
            ops = base[:i] + [x] + base[i:]
            if x == "dispose":
                # no subscriber arrives after Dispose
                ops = [o for j, o in enumerate(ops) if not (j > i and o.split(".")[0] in ("fs", "rs", "ts", "ds"))]
            yield Case(line(ops), cls="api-" + x.split(".")[0])
    base2 = ["spull.1.0.n1", "fs.1.90", "psucc.1.1", "tick.1", "gone.90", "tick.2", "xpull.1", "tick.3"]
    for x in ["kick.1.p1_1", "rp.1.1", "pp.1.2", "dispose", "xpull.1", "spull.1.1.1000", "pdone.1.1", "pfail.1.1", "RTSP"]:
        for i in range(1, len(base2) + 1):
            if x == "RTSP":  # the same base history with an rtsp:// pull, a publisher arriving at each point
                ops = ["spull.1.0.n1.rtsp"] + base2[1:i] + ["ap.1.1"] + base2[i:]
                yield Case(line(ops), cls="apipull-rtsp")
                continue
            ops = base2[:i] + [x] + base2[i:]
            if x == "dispose":
                ops = [o for j, o in enumerate(ops) if not (j > i and o.split(".")[0] in ("fs", "rs", "ts", "ds"))]
            yield Case(line(ops), cls="apipull-" + x.split(".")[0])


def gen_two_streams():
    yield Case(line(["rp.1.1", "rp.2.2", "fs.1.3", "fs.2.4", "media.1", "media.2", "rp.1.5", "rp.2.6", "kick.1.c2", "kick.2.c1", "kick.2.c2",
                     "media.1", "media.2", "gone.2", "media.1", "tick.1", "gone.1", "gone.3", "gone.4", "tick.2"]), cls="two-streams")
    yield Case(line(["spull.1.0.n1", "spull.2.0.n1", "psucc.2.1", "rp.1.1", "psucc.1.1", "pdone.2.1", "tick.1", "gone.1", "tick.2", "tick.3"]), cls="two-streams")
    yield Case(line(["cp.1.1", "cp.2.2", "pp.1.3", "pp.2.4", "ap.2.5", "gone.1", "pp.1.6", "kick.1.c6", "kick.2.c4", "gone.2", "ap.2.7", "gone.7", "tick.1"]), cls="two-streams")
    yield Case(line(["fs.1.1", "fs.2.2", "tick.1", "gone.1", "tick.2", "fs.1.3", "rp.1.4", "media.4", "gone.2", "tick.3", "gone.4", "gone.3", "tick.4", "tick.5"]), cls="two-streams")


def rand_history(rng, n_ops, streams):
    ops = []
    next_id = [1]
    live = []          # (id, kind, stream)
    disposed = False

    def nid():
        next_id[0] += 1
        return next_id[0] - 1
    for _ in range(n_ops):
        s = rng.choice(streams)
        r = rng.random()
        if r < 0.30:
            k = rng.choice(["rp", "rp", "ap", "cp", "pp"])
            i = nid()
            deny = ".deny" if (k in ("rp", "ap") and rng.random() < 0.1) else ""
            if k == "rp" and rng.random() < 0.12:
                # the connection breaks while the shell answers: the k-th write fails
                ops.append("rp.%d.%d.w%d" % (s, i, rng.choice([1, 3, 5, 6, 7, 7, 7])))
                continue
            if k == "pp" and rng.random() < 0.3:
                # a start_rtp_pub whose port cannot be bound
                ops.append(rng.choice(["pp.%d.%d.b" % (s, i), "hpp.%d.%d.b.a.%s" % (s, i, rng.choice(["0", "1"]))]))
                continue
            ops.append("%s.%d.%d%s" % (k, s, i, deny))
            live.append((i, k, s))
        elif r < 0.42 and not disposed:
            k = rng.choice(["fs", "rs", "ts", "ds", "fs"])
            i = nid()
            deny = ".deny" if rng.random() < 0.1 else ""
            if k == "rs" and rng.random() < 0.3:
                ops.append("rs.%d.%d.w%d" % (s, i, rng.choice([2, 6, 7, 8, 9, 9])))
                continue
            ops.append("%s.%d.%d%s" % (k, s, i, deny))
            live.append((i, k, s))
        elif r < 0.46 and [x for x in live if x[1] in ("ap", "ds")]:
            j, _, _ = rng.choice([x for x in live if x[1] in ("ap", "ds")])
            k = rng.choice(["ap2", "ds2"])
            i = nid()
            ops.append("%s.%d.%d.%d%s" % (k, s, j, i, ".deny" if rng.random() < 0.15 else ""))
            live.append((i, k[:2], s))
        elif r < 0.48 and [x for x in live if x[1] in ("rp", "rs")]:
            x = rng.choice([x for x in live if x[1] in ("rp", "rs")])
            ops.append("%s.%d.%d" % (rng.choice(["rp2", "rs2"]), s, x[0]))
            if rng.random() < 0.8:
                live.remove(x)
        elif r < 0.58 and live:
            i, k, st = rng.choice(live)
            if k == "pp":
                ops.append("kick.%d.c%d" % (st, i))
            else:
                ops.append("gone.%d" % i)
            if rng.random() < 0.8:
                live.remove((i, k, st))
        elif r < 0.66 and live:
            i, k, st = rng.choice(live)
            ops.append("kick.%d.c%d" % (rng.choice([st, st, s]), i))
        elif r < 0.74:
            ops.append("spull.%d.%s.%s%s" % (s, rng.choice(["0", "1", "n1"]), rng.choice(["n1", "n1", "0", "5000"]), rng.choice(["", "", ".rtsp"])))
        elif r < 0.84:
            ops.append("%s.%d.0" % (rng.choice(["psucc", "pfail", "pdone", "psuccm"]), s))
            if rng.random() < 0.4:
                ops.append("sdp.%d" % s)
        elif r < 0.88:
            ops.append("xpull.%d" % s)
        elif r < 0.93:
            ops.append("tick.%d" % rng.choice([1, 2, 3, 7, 11]))
        elif r < 0.95:
            ops.append("adv.%d" % rng.choice([1000, 4000, 5000, 60000]))
        elif r < 0.96 and not disposed:
            ops.append("dispose")
            disposed = True
        elif r < 0.97:
            ops.append("kick.%d.p%d_%d" % (s, s, rng.choice([1, 1, 2])))
        elif live:
            cand = [x for x in live if x[1] in ("rp", "cp")]
            if cand:
                ops.append("media.%d" % rng.choice(cand)[0])
            ds = [x for x in live if x[1] == "ds"]
            if ds and rng.random() < 0.5:
                ops.append("pl.%d" % rng.choice(ds)[0])
    if not ops:
        ops = ["tick.1"]
    return ops


def gen_rtsp_conn():
    # several commands on ONE rtsp command connection: a second ANNOUNCE / DESCRIBE (same or another stream name, also
    # refused by authentication) after an ANNOUNCE, a DESCRIBE, a DESCRIBE + PLAY; then later inputs, the end of the
    # connection, ticks: whatever the connection carried must have departed
    firsts = {"ap": ["ap.1.1"], "ds": ["ds.1.1"], "dspl": ["ds.1.1", "pl.1"], "apbusy": ["rp.1.5", "ap.1.1"], "dsin": ["rp.1.5", "ds.1.1", "pl.1"]}
    seconds = ["ap2.1.1.2", "ap2.2.1.2", "ds2.1.1.2", "ds2.2.1.2", "ap2.1.1.2.deny", "ds2.2.1.2.deny", "ap2.2.1.2,ds2.2.1.3", "ds2.1.1.2,pl.2,ap2.1.2.3"]
    for fk, first in firsts.items():
        for sec in seconds:
            for tail in (["rp.1.7", "rp.2.8", "gone.1", "gone.2", "tick.1", "rp.1.9", "gone.7", "gone.8", "gone.9", "gone.90", "tick.2", "tick.3"],
                         ["tick.1", "gone.2", "gone.1", "tick.2", "ap.1.7", "ap.2.8", "kick.1.c7", "gone.7", "gone.8", "gone.90", "tick.3", "tick.4"]):
                yield Case(line(["fs.1.90"] + first + sec.split(",") + tail), cls="rtspconn-" + fk)
    # the connection was closed by lal (kick, dispose) before the second command
    yield Case(line(["ap.1.1", "kick.1.c1", "ap2.1.1.2", "ds2.1.1.3", "pl.1", "gone.1", "tick.1"]), cls="rtspconn-kicked")
    yield Case(line(["ds.1.1", "pl.1", "kick.1.c1", "ds2.1.1.2", "gone.1", "ap2.1.1.3", "tick.1"]), cls="rtspconn-kicked")
    yield Case(line(["ap.1.1", "ds.1.2", "dispose", "ap2.2.1.3", "ds2.1.2.4", "gone.1", "gone.2"]), cls="rtspconn-kicked")
    # names: the name of a command that never became a session stays taken; commands on non-rtsp / unknown connections
    yield Case(line(["ap.1.1", "ap2.1.1.2", "rp.1.2", "ap.1.2", "fs.1.2", "ap2.1.9.3", "rp.1.4", "ap2.1.4.5", "ds2.1.4.6", "gone.4", "tick.1"]), cls="rtspconn-names")


def gen_rtmp_conn():
    # a further publish / play command on ONE rtmp connection (same or another stream name, the other stream empty or with
    # its own publisher / subscriber): the command is refused, the connection ends, the session has left ITS stream
    firsts = {"rp": ["rp.1.1"], "rs": ["rs.1.1"], "rpsub": ["rs.1.5", "rp.1.1"], "rpother": ["rp.2.6", "rs.2.5", "rp.1.1"], "rsother": ["rp.2.6", "rp.1.4", "rs.1.1"]}
    seconds = ["rp2.1.1", "rp2.2.1", "rs2.1.1", "rs2.2.1", "rp2.3.1", "rs2.3.1"]
    for fk, first in firsts.items():
        for sec in seconds:
            for tail in (["tick.1", "rp.1.7", "rs.1.8", "gone.7", "gone.1", "tick.2", "gone.8", "gone.90", "tick.3", "tick.4"],
                         ["rp.1.7", "ap.2.8", "tick.1", "kick.1.c7", "gone.7", "gone.8", "gone.90", "gone.6", "gone.5", "gone.4", "tick.2", "tick.3"]):
                yield Case(line(["fs.1.90"] + first + [sec] + tail), cls="rtmpconn-" + fk)
    # commands on a connection that is refused / kicked / gone / not rtmp / unknown; twice
    yield Case(line(["rp.1.1.deny", "rp2.2.1", "rp.1.2", "kick.1.c2", "rp2.2.2", "rs2.1.2", "gone.2", "rp2.1.2", "tick.1"]), cls="rtmpconn-closed")
    yield Case(line(["rp.1.1", "rp.1.2", "rp2.2.2", "rp2.2.1", "rp2.2.1", "rs2.1.1", "tick.1", "rp.1.3", "gone.3", "tick.2"]), cls="rtmpconn-closed")
    yield Case(line(["ap.1.1", "rp2.2.1", "fs.1.2", "rs2.1.2", "cp.2.3", "rp2.1.3", "rp2.1.9", "dispose", "rp2.2.1"]), cls="rtmpconn-closed")
    yield Case(line(["rp.1.1", "rs.1.2", "dispose", "rp2.2.1", "rs2.2.2", "gone.1", "gone.2"]), cls="rtmpconn-closed")
    # with a relay pull / push around
    yield Case(line(["fs.1.90", "rp.1.1", "pushok.1.0", "rp2.2.1", "tick.1", "rp.1.2", "pushok.1.0", "gone.2", "tick.2"], "push=1"), cls="rtmpconn-relay")
    yield Case(line(["rs.1.1", "spull.1.n1.n1", "psucc.1.0", "rs2.2.1", "tick.1", "rp.1.2", "pdone.1.0", "rp.1.3", "rp2.2.3", "tick.2", "psucc.1.0", "tick.3"]), cls="rtmpconn-relay")


def gen_api_inputs():
    # inputs and departures asked for through the real HTTP API server: start_rtp_pub over udp / tcp, kick_session of every kind
    for tcp in ("a", "0", "1"):
        yield Case(line(["fs.1.90", "hpp.1.1.a.a.%s" % tcp, "rp.1.2", "cp.1.3", "tick.1", "hkick.1.c1", "tick.2", "rp.1.4", "hpp.1.5.a.a.%s" % tcp, "hkick.1.c4", "gone.4",
                         "hpp.1.6.a.0.%s" % tcp, "kick.1.c6", "gone.2", "gone.3", "tick.3"]), cls="api-rtppub")
    yield Case(line(["hpp.1.1.a.a.1", "hpp.2.2.a.a.0", "ap.1.3", "ap.2.4", "hkick.2.c2", "hkick.1.c1", "ap.1.5", "ap.2.6", "hkick.1.c5", "hkick.2.c3", "gone.5", "gone.6", "gone.3", "gone.4", "tick.1", "tick.2"]), cls="api-rtppub")
    yield Case(line(["fs.1.90", "rp.1.1", "rs.1.2", "ds.1.3", "pl.3", "ts.1.4", "hkick.1.c2", "hkick.1.c3", "hkick.1.c4", "hkick.1.c90", "hkick.a.c1", "hkick.1.a", "hkick.1.c1",
                     "gone.1", "gone.2", "gone.3", "tick.1"]), cls="api-kick")


def gen_content():
    # what of an input's content reaches the group: the SDP (sdp.S) and media behind the origin's answer (psuccm)
    # a pull that was stopped while connecting, no input at all; then inputs of both kinds
    for proto in ("", ".rtsp"):
        yield Case(line(["fs.1.90", "spull.1.0.n1" + proto, "xpull.1", "psuccm.1.0", "sdp.1", "ap.1.1", "sdp.1", "gone.1", "sdp.1", "rp.1.2", "sdp.1", "gone.2", "tick.1"]), cls="content-stopped")
        yield Case(line(["spull.1.0.n1" + proto, "kick.1.p1_1", "fs.1.90", "psuccm.1.0", "sdp.1", "tick.1", "sdp.1"]), cls="content-stopped")
        # RTSP subscribers waiting for / asking for the SDP while a pull is overtaken
        yield Case(line(["ds.1.7", "spull.1.0.n1" + proto, "rp.1.1", "psuccm.1.0", "sdp.1", "ds.1.8", "gone.1", "sdp.1", "ap.1.2", "sdp.1", "ds.1.9", "pl.9", "gone.2", "sdp.1", "gone.7", "gone.8", "gone.9", "tick.1"]), cls="content-subs")
        # the accepted inputs themselves: attached pull, RTSP publisher, one after the other, two streams
        yield Case(line(["fs.1.90", "fs.2.91", "spull.1.n1.n1" + proto, "psuccm.1.0", "sdp.1", "sdp.2", "ap.2.1", "sdp.2", "sdp.1", "pdone.1.0", "sdp.1", "psuccm.1.0", "sdp.1",
                         "xpull.1", "sdp.1", "gone.1", "sdp.2", "tick.1", "sdp.3"]), cls="content-accepted")
        yield Case(line(["fs.1.90", "psuccm.1.0", "sdp.1", "rp.1.1", "pdone.1.0", "sdp.1", "psuccm.1.0", "gone.1", "tick.1", "psuccm.1.0", "sdp.1", "gone.90", "tick.2", "tick.3", "sdp.1"], "static=1"), cls="content-accepted")
    # ServerManager.Dispose drops every group's SDP (delIn) but leaves an attached relay pull in its slot; inputs that arrive afterwards
    for proto in ("", ".rtsp"):
        yield Case(line(["fs.1.90", "spull.1.n1.n1" + proto, "psuccm.1.0", "sdp.1", "spull.2.n1.n1.rtsp", "ap.2.1", "sdp.2", "dispose", "sdp.1", "sdp.2", "psucc.2.0", "sdp.2",
                         "ap.2.2", "sdp.2", "pdone.1.0", "sdp.1", "ap.1.3", "sdp.1", "gone.3", "sdp.1", "gone.1", "gone.2", "sdp.2"]), cls="content-dispose")
    yield Case(line(["ap.1.1", "sdp.1", "ap.1.2", "sdp.1", "kick.1.c1", "sdp.1", "gone.2", "sdp.1", "gone.1", "sdp.1", "ap.1.3", "sdp.1", "dispose", "sdp.1"]), cls="content-accepted")
    yield Case(line(["fs.1.90", "fs.1.91", "spull.1.n1.n1", "psuccm.1.0", "gone.90", "pdone.1.0", "rp.1.1", "psuccm.1.0", "media.1", "gone.1", "psuccm.1.0", "tick.1"]), cls="content-accepted")


def gen_listen_fail():
    # start_rtp_pub whose port cannot be bound (udp / tcp, through the API server and directly), in every input situation of the
    # stream; then the stream must take inputs as before, an idle group must be reaped, stat must not list the failed call
    for a in ("none", "rp", "ap", "cp", "pp", "pull", "rpull", "held"):
        pre = [] if a == "none" else arrive(a, 1, 1)
        post = [] if a == "none" else depart(a, 1, 1, "gone")
        yield Case(line(["fs.1.90"] + pre + ["hpp.1.5.b.a.0", "hpp.1.6.b.a.1", "pp.1.7.b", "tick.1"] + post + ["hpp.1.8.b.70000.1", "tick.2", "rp.1.9", "gone.9", "hpp.1.10.a.a.1", "kick.1.c10",
                         "gone.90", "tick.3", "tick.4"]), cls="listenfail-" + a)
    # nobody else on the stream: the group the call created goes away at the next tick; kick of the failed session finds nothing
    yield Case(line(["hpp.1.1.b.a.0", "kick.1.c1", "tick.1", "tick.2", "pp.2.2.b", "hpp.2.3.b.0.7", "tick.3", "pp.2.4", "kick.2.c4", "tick.4", "tick.5"]), cls="listenfail-idle")
    yield Case(line(["pp.1.1.b", "pp.1.2", "hpp.1.3.b.a.1", "kick.1.c2", "hpp.1.4.b.a.0", "cp.1.5", "gone.5", "tick.1", "dispose", "pp.1.6.b"]), cls="listenfail-idle")
    yield Case(line(["hpp.1.1.b.q.0", "hpp.a.2.b.a.a", "hpp.1.3.b.a.q", "hpp.1.4.b.z.z", "tick.1", "ap.1.5", "sdp.1", "hpp.1.6.b.a.1", "sdp.1", "gone.5", "tick.2"]), cls="listenfail-idle")
    # relay pulls that fail by themselves before any connection exists (malformed url, scheme without pull session)
    for u in ("bad", "badrtsp", "http"):
        yield Case(line(["spull.1.0.n1." + u, "tick.1", "fs.1.90", "tick.2", "spull.1.0.0." + u, "xpull.1", "spull.1.0.5000." + u, "rp.1.1", "spull.1.0.n1." + u, "gone.1", "tick.3",
                         "xpull.1", "spull.1.0.n1", "psuccm.1.0", "tick.4", "gone.90", "pdone.1.0", "tick.5"]), cls="pullselffail")
    yield Case(line(["fs.1.90", "pfail.1.0", "spull.1.0.n1.bad", "tick.1", "xpull.1", "spull.1.0.n1.http", "tick.2", "tick.3"], "static=1"), cls="pullselffail")


def gen_write_fail():
    # server shells whose writes fail from the K-th on, K over every write up to the answer to publish / play and one beyond,
    # with the group absent / kept by a subscriber / occupied by a publisher: nothing may be notified for a session the observer
    # never saw, an accepted one gets its pair
    pres = {"none": [], "sub": ["fs.1.90"], "pub": ["fs.1.90", "rp.1.5"], "pull": ["fs.1.90", "spull.1.n1.n1", "psucc.1.0"]}
    for pk, pre in pres.items():
        for k in range(1, 9):
            yield Case(line(pre + ["rp.1.1.w%d" % k, "tick.1", "rp.1.2", "media.2", "gone.2", "gone.1", "tick.2", "tick.3"]), cls="writefail-rp-" + pk)
        for k in range(1, 11):
            yield Case(line(pre + ["rs.1.1.w%d" % k, "tick.1", "rs.1.2", "gone.2", "gone.1", "tick.2", "tick.3"]), cls="writefail-rs-" + pk)
        yield Case(line(pre + ["ap.1.1.w1", "sdp.1", "tick.1", "ap2.1.1.2", "ap.1.3", "gone.1", "sdp.1", "tick.2", "ap.1.4", "gone.4", "gone.3", "tick.3"]), cls="writefail-rtsp-" + pk)
        yield Case(line(pre + ["ds.1.1", "pl.1.w", "tick.1", "pl.1", "ds2.1.1.2", "gone.1", "tick.2", "ds.1.3", "pl.3", "gone.3", "tick.3"]), cls="writefail-rtsp-" + pk)
    yield Case(line(["fs.1.90", "rp.1.1.w7", "rs.1.2.w9", "rp.1.3.w1", "rs.1.4.w4", "rp.1.5", "rp.1.6.w7", "rs.1.7.w8", "ap.1.8.w1", "gone.8", "gone.5", "rp.2.9.w7", "tick.1"]), cls="writefail-mixed")


def gen_cases(tier, rng):
    yield from gen_write_fail()
    yield from gen_listen_fail()
    yield from gen_content()
    yield from gen_rtmp_conn()
    yield from gen_api_inputs()
    yield from gen_rtsp_conn()
    yield from gen_pairs()
    yield from gen_foreign()
    yield from gen_api_points()
    yield from gen_two_streams()
    n = 150 if tier == "quick" else 20000
    for k in range(n):
        ops = rand_history(rng, rng.choice([6, 10, 16, 24]), rng.choice([[1], [1], [1, 2]]))
        yield Case(line(ops), cls="random")


def nontrivial(c, out):
    if "unknown-op" in out or "timeout" in out or "anomaly" in out or out.startswith(("bad", "err", "model-")):
        return None
    return c.line


# ---------------------------------------------------------------- oracle
# The property evaluated on the implementation's observation, from the property text only.

def parse_out(out):
    steps = []
    for seg in out.split(";"):
        if seg.startswith("anomaly:"):
            raise ValueError("the implementation never produced the effect an event must have: " + seg)
        p = seg.split("/")
        if len(p) != 3:
            raise ValueError("malformed step output %r" % seg)
        res, view, ev = p
        groups = {}
        if view != "-":
            for g in view.split("|"):
                f = g.split(":")
                groups[f[0]] = dict(slots=f[1].split(","), pulling=f[2], count=f[3], api=f[4], pipe=f[5], spub=f[6], spull=f[7],
                                    ssubs=[] if f[8] == "-" else f[8].split("+"), push=f[9])
        notes = [] if ev == "-" else [tuple(x.split(":")) for x in ev.split("+")]
        steps.append((res, groups, notes))
    return steps


INPUT_OPS = {"rp": "pub", "ap": "pub", "cp": "pub", "pp": "pub"}
SUB_OPS = ("rs", "ds", "fs", "ts")
NET_PUB = ("rp", "ap")


def occupants(g):
    return [x for x in g["slots"] if x != "-"] if g else []


# ---- requests through the HTTP API: what the lal HTTP API document says about request keys ----
API_DEFAULTS = {"pull_timeout_ms": 10000, "pull_retry_num": 0, "auto_stop_pull_after_no_out_ms": -1, "rtsp_mode": 0,
                "port": 0, "timeout_ms": 60000, "is_tcp_flag": 0}


def _ival(t):
    return -int(t[1:]) if t.startswith("n") else int(t)


def _tok(v):
    return "n%d" % -v if v < 0 else "%d" % v


def api_value(tok, key):
    """the value a handler must use for a numeric key: the value given, whatever it is; the documented default when the key
    is absent; Go's zero value for null; None when the request is malformed"""
    if tok == "a":
        return API_DEFAULTS[key]
    if tok == "z":
        return 0
    if tok == "q":
        return None
    return _ival(tok)


def api_layer(ops, out):
    """-> (error or None, ops with every API request replaced by the direct call it must amount to, output without the
    settings suffixes).  A request that must be answered with "param missing" becomes the no-op adv.0."""
    segs = out.split(";")
    if not any(o.startswith(("h", "psuccm")) for o in ops) or len([x for x in segs if not x.startswith("anomaly:")]) != len(ops):
        return None, ops, out
    new_ops, new_segs = [], []
    for idx, (op, seg) in enumerate(zip(ops, segs)):
        f = op.split(".")
        where = "event %d (%s): " % (idx + 1, op)
        res, _, rest = seg.partition("/")
        nop, nres = op, res
        missing = None
        if f[0] == "psuccm":
            # psucc; the subscribers the message behind the answer was written to travel on as a fourth field of the op
            name, sep, got = res.partition("~m")
            nop, nres = "psucc.%s.%s.m%s" % (f[1], f[2], got if sep else "?"), name
        elif f[0] == "hpull":
            keys = ["pull_timeout_ms", "pull_retry_num", "auto_stop_pull_after_no_out_ms", "rtsp_mode"]
            vals = [api_value(t, k) for t, k in zip(f[2:6], keys)]
            missing = "u" in f[6] or None in vals
            if not missing:
                r0, _, sfx = res.partition("~")
                want = ":".join(_tok(v) for v in vals)
                if sfx != want:
                    return (where + "start_relay_pull through the HTTP API: the group took %s = %s, the request says %s "
                            "(a key that is present is used as given, an absent one gets the documented default)" % (":".join(keys), sfx or "nothing", want)), ops, out
                nop = "spull.%s.%s.%s%s" % (f[1], _tok(vals[1]), _tok(vals[2]), ".rtsp" if "r" in f[6] else "")
                nres = r0
        elif f[0] == "hxpull":
            missing = f[1] == "a"
            nop = "xpull." + f[1]
        elif f[0] == "hkick":
            missing = f[1] == "a" or f[2] == "a"
            nop = "kick.%s.%s" % (f[1], f[2])
        elif f[0] == "hpp":
            busy = f[3] == "b"      # an explicit port (given as given) that cannot be bound
            vals = [api_value("1" if busy else f[3], "port")] + [api_value(t, k) for t, k in zip(f[4:6], ["timeout_ms", "is_tcp_flag"])]
            missing = f[1] == "a" or None in vals
            if not missing:
                r0, _, sfx = res.partition("~")
                nop, nres = "pp.%s.%s%s" % (f[1], f[2], ".b" if busy else ""), r0
                if r0 == "0":
                    want = "%d:%d" % (vals[1] // 1000, 1 if vals[2] != 0 else 0)
                    if sfx != want:
                        return (where + "start_rtp_pub through the HTTP API: the group took timeout s : tcp = %s, the request says %s" % (sfx or "nothing", want)), ops, out
        if missing:
            if res != "1002":
                return (where + "answered %s to a request that lacks a required key or carries a malformed one, expected 1002 (param missing)" % res), ops, out
            nop, nres = "adv.0", "-"
        elif missing is not None and res == "1002":
            return (where + "a complete request was answered with 1002 (param missing)"), ops, out
        new_ops.append(nop)
        new_segs.append(nres + "/" + rest)
    return None, new_ops, ";".join(new_segs + segs[len(ops):])


def oracle(c, out):
    if out.startswith(("panic@", "crash@", "timeout", "not-run")):
        return (False, "implementation crashed or hung: " + out[:80])
    ops = c.line.split(" ")[2].split(",")
    err, ops, out = api_layer(ops, out)
    if err:
        return (False, err)
    try:
        steps = parse_out(out)
    except ValueError as e:
        return (False, str(e))
    if len(steps) != len(ops):
        return (False, "the implementation answered %d of %d events" % (len(steps), len(ops)))
    kind = {}        # session name -> op kind
    stream_of = {}
    accepted = {}    # name -> bool
    gone = set()
    words = {}       # name -> list of notification kinds
    attached_atts = set()
    finished_atts = set()
    must_finish = set()
    prev = {}
    last_media = {}  # name -> (result, subscriber set at that time, dirty)
    sdp_dropped = {}  # stream -> the RTSP input that occupied it when ServerManager.Dispose dropped every group's SDP
    conn_of = {}     # rtsp session name -> its command connection (named after the first session on it)
    members = {}     # connection -> session names created on it
    for idx, (op, (res, groups, notes)) in enumerate(zip(ops, steps)):
        f = op.split(".")
        o = f[0]
        where = "event %d (%s): " % (idx + 1, op)
        on_conn = None
        if o in ("ap2", "ds2"):
            # a further ANNOUNCE / DESCRIBE on the connection of session f[2]: same clauses as a first one for
            # the new session f[3]; the event is an event of that whole connection
            on_conn = conn_of.get("c" + f[2])
            o = o[:2]
            f = [o, f[1], f[3]] + f[4:]
        for n in notes:
            words.setdefault(n[1], []).append(n[0])
        if o == "dispose" and res == "-":
            for s, g in groups.items():
                w = g["slots"][1] if g["slots"][1] != "-" else g["slots"][5]
                if w != "-":
                    sdp_dropped[s] = w
        # (a) at most one accepted input per stream at every instant
        for s, g in groups.items():
            if len(occupants(g)) > 1:
                return (False, where + "stream %s has two inputs at once: %s" % (s, ",".join(occupants(g))))
            for a in g["slots"][4:6]:
                if a != "-":
                    attached_atts.add(a)
        subject = None
        subj_stream = None
        if o in INPUT_OPS or o in SUB_OPS:
            subject = "c" + f[2]
            subj_stream = "s" + f[1]
            if res != "x":
                kind[subject] = o
                stream_of[subject] = subj_stream
                ok = res in ("a", "0")
                accepted[subject] = ok
                if not ok:
                    gone.add(subject)
                if o in ("ap", "ds"):
                    cid = on_conn if on_conn is not None else subject
                    conn_of[subject] = cid
                    members.setdefault(cid, []).append(subject)
                    if res == "r":
                        # the command was refused and the connection ended: whatever session it carried has departed
                        for m in members[cid]:
                            if accepted.get(m):
                                gone.add(m)
                before = prev.get(subj_stream)
                if o == "pp" and len(f) > 3 and f[3] == "b":
                    # a start_rtp_pub whose port cannot be bound is a refused input: an error answer ("input already exists" when
                    # the stream has one, else "listen failed"); the clauses for refused sessions below do the rest (it occupies
                    # nothing, stat does not list it, the accepted input is left alone)
                    want = "2003" if (before and occupants(before)) else "2002"
                    if res != want:
                        return (False, where + "start_rtp_pub for a port that cannot be bound answered %s, expected %s" % (res, want))
                    occ_a = occupants(groups.get(subj_stream))
                    stray = [x for x in occ_a if x == subject or (x.startswith("?") and x not in (occupants(before) if before else []))]
                    if stray:
                        return (False, where + "start_rtp_pub failed to listen (answer %s) but its session (%s) stays registered as the input of %s" % (res, stray[0], subj_stream))
                # (b) an input that arrives while another is accepted is refused
                if o in INPUT_OPS and before and occupants(before) and ok:
                    return (False, where + "accepted although %s is the input of %s" % (occupants(before)[0], subj_stream))
                if o in INPUT_OPS and ok and subject not in occupants(groups.get(subj_stream)):
                    return (False, where + "reported success but the session is not the stream's input")
        elif o in ("rp2", "rs2"):
            # a session publishes or plays once: a further command is refused and the connection ends, which is the
            # departure of the session from its stream - whatever stream the refused command names
            subject = "c" + f[2]
            subj_stream = stream_of.get(subject)
            if res == "a":
                return (False, where + "a second publish / play command on the connection of %s was accepted" % subject)
            if res == "r":
                gone.add(subject)
        elif o == "gone":
            subject = "c" + f[1]
            subj_stream = stream_of.get(subject)
            if res == "-":
                gone.add(subject)
                # the end of an RTSP command connection is the departure of every session created on it
                for m in members.get(conn_of.get(subject), []):
                    if accepted.get(m):
                        gone.add(m)
        elif o == "pl":
            if res == "r":
                for m in members.get(conn_of.get("c" + f[1]), []):
                    if accepted.get(m):
                        gone.add(m)
        elif o == "kick":
            subject = f[2]
            subj_stream = "s" + f[1]
            if res == "0" and kind.get(subject) == "pp":
                gone.add(subject)
        elif o in ("psucc", "pfail", "pdone"):
            subj_stream = "s" + f[1]
            if res != "x":
                subject = res
                if o == "psucc":
                    if len(f) > 3 and f[3] != "m" and subject not in occupants(groups.get(subj_stream)):
                        # nothing of a relay pull that the group did not attach is forwarded
                        return (False, where + "media of the refused relay pull %s (sent by the origin right behind its answer) was forwarded to %s"
                                % (subject, f[3][1:]))
                    before = prev.get(subj_stream)
                    if before and occupants(before) and subject in occupants(groups.get(subj_stream)):
                        return (False, where + "relay pull attached although %s is the input" % occupants(before)[0])
                    if subject not in occupants(groups.get(subj_stream)):
                        must_finish.add(subject)
                else:
                    must_finish.add(subject)
        elif o == "sdp":
            # What the group of a stream holds as SDP (and answers an RTSP DESCRIBE with) is content of its ACCEPTED input:
            #  (1) if it holds one at all, it is that of the RTSP publisher / RTSP relay pull that occupies the stream in this
            #      very view - never that of a refused or departed input or of any other session, never any when the
            #      input is of another kind or absent;
            #  (2) an accepted RTSP input's SDP is there - except after ServerManager.Dispose: Group.Dispose ends with delIn,
            #      which drops the SDP together with the pipeline, while it leaves an attached relay pull in its slot;
            #      for the input that sat there when the server was disposed "none" is what a torn-down group holds.
            g = groups.get("s" + f[1])
            want = "-"
            if g:
                want = g["slots"][1] if g["slots"][1] != "-" else g["slots"][5]
            if res != "-" and res != want:
                whose = "a refused input" if (res in must_finish or not accepted.get(res, True)) else ("a departed input" if res in gone or res in finished_atts else "another session")
                return (False, where + "the group of s%s holds the SDP of %s (%s); its accepted RTSP input is %s" % (f[1], res, whose, want if want != "-" else "none"))
            if res == "-" and want != "-" and sdp_dropped.get("s" + f[1]) != want:
                return (False, where + "the group of s%s holds no SDP although %s is its accepted RTSP input (and the server was not disposed since it was accepted)" % (f[1], want))
        elif o == "spull":
            if res.startswith("0:"):
                before = prev.get("s" + f[1])
                if before and occupants(before):
                    return (False, where + "start_relay_pull reported success although %s is the input" % occupants(before)[0])
        for n in notes:
            if n[0] == "RE":
                finished_atts.add(n[1])
        # (c) an event about a session that is not the accepted input leaves the input and its pipeline alone
        foreign_input = False
        if subject is not None and o != "media":
            for s, before in prev.items():
                after = groups.get(s)
                occ_b = occupants(before)
                if not occ_b or subject in occ_b or set(members.get(conn_of.get(subject), [])) & set(occ_b):
                    continue
                if after is None or after["slots"] != before["slots"] or after["pipe"] != before["pipe"] \
                        or after["spub"] != before["spub"] or after["spull"] != before["spull"]:
                    return (False, where + "disturbed the accepted input %s of %s (slots %s -> %s, pipeline %s -> %s)" % (
                        occ_b[0], s, ",".join(before["slots"]), ",".join(after["slots"]) if after else "group gone",
                        before["pipe"], after["pipe"] if after else "-"))
            foreign_input = (o in INPUT_OPS or o in ("psucc", "pfail", "pdone")
                             or (o in ("gone", "kick") and (kind.get(subject) in INPUT_OPS or subject.startswith("p") or subject not in kind)))
        if o != "media":
            for name in list(last_media):
                if not (foreign_input and subject != name):
                    last_media[name] = (last_media[name][0], True)
        if o == "media":
            name = "c" + f[1]
            if res.startswith("m"):
                got = [x for x in res[1:].split("+") if x]
                # media from a refused or departed input is never forwarded
                if got and (name in gone or not accepted.get(name, False)):
                    return (False, where + "media of the departed/refused input %s was forwarded to %s" % (name, ",".join(got)))
                if name in last_media and not last_media[name][1] and last_media[name][0] != res:
                    return (False, where + "delivery of the accepted input changed (%s -> %s) although only foreign sessions came and went" % (last_media[name][0], res))
                last_media[name] = (res, False)
        # (e) the stat API lists only attached sessions
        for s, g in groups.items():
            occ = occupants(g)
            if g["spub"] != "-" and g["spub"] not in g["slots"][0:4]:
                return (False, where + "stat lists publisher %s which is not attached to %s" % (g["spub"], s))
            if g["spull"] != "-" and g["spull"] not in g["slots"][4:6]:
                return (False, where + "stat lists pull %s which is not attached to %s" % (g["spull"], s))
            for x in [g["spub"], g["spull"]] + g["ssubs"]:
                if x == "-":
                    continue
                if x.startswith("?"):
                    return (False, where + "stat lists an unknown session %s" % x)
                if x.startswith("c") and (not accepted.get(x, False) or x in gone):
                    return (False, where + "stat lists %s which is %s" % (x, "gone" if x in gone else "not admitted"))
                if x.startswith("p") and x in finished_atts:
                    return (False, where + "stat lists the finished relay pull %s" % x)
        prev = groups
    # (d) notifications: matching start/stop pairs, once per accepted network session, none for refused ones
    for name, k in kind.items():
        w = words.get(name, [])
        if k in NET_PUB:
            st, en = "PS", "PE"
        elif k in SUB_OPS:
            st, en = "SS", "SE"
        else:
            if w:
                return (False, "session %s (%s) has notifications %s, none expected" % (name, k, w))
            continue
        if not accepted[name]:
            want = []
        elif name in gone:
            want = [st, en]
        else:
            want = [st]
        if w != want:
            return (False, "notifications of %s %s (%s): %s, expected %s" % (
                "accepted" if accepted[name] else "refused", name, k, "+".join(w) or "none", "+".join(want) or "none"))
    for name in set(list(words) + list(must_finish) + list(attached_atts)):
        if name.startswith("p"):
            w = words.get(name, [])
            want = (["RS"] if name in attached_atts else []) + (["RE"] if (name in must_finish or name in finished_atts) else [])
            if w != want:
                return (False, "notifications of relay pull %s: %s, expected %s (one stop, preceded by a start iff it attached)" % (
                    name, "+".join(w) or "none", "+".join(want) or "none"))
        elif name not in kind:
            return (False, "notification for unknown session %s" % name)
    return (True, "")


def neighbors(c, rng):
    f = c.line.split(" ")
    ops = f[2].split(",")
    for i in range(len(ops)):
        yield "%s %s %s" % (f[0], f[1], ",".join(ops[:i] + ops[i + 1:])) if len(ops) > 1 else c.line
    for i in range(len(ops) - 1):
        sw = ops[:i] + [ops[i + 1], ops[i]] + ops[i + 2:]
        yield "%s %s %s" % (f[0], f[1], ",".join(sw))


# ======================================================================================================================
# Extension E3 (keep at the END of this file): the server-level tick - removal of empty groups and the liveness sweep
# (tick counts that are multiples of 120) - op c03.srv, generator and oracle in gen/c03tick.py.  The functions above
# are wrapped, not changed.
from gen import c03tick as _e3

ASSUMPTIONS = [a for a in ASSUMPTIONS if not a.startswith("tick counts that are multiples")] + [
    "c03.srv: the byte counters of RTSP sessions count RTP payload, which the harness never sends (an RTSP publisher / subscriber / pull is "
    "idle by construction); PS publishers are started with timeout_ms = 0 (no PS timeout); the traffic an event causes moves a counter by an "
    "amount the model does not specify (only whether a counter moved between two idle checks is observable); tick counts < 2^32",
]
RULE += ("; c03.srv: the same events plus exactly driven byte counters and ticks at, just before and just after multiples of 120 over 1-3 "
         "stream names (idle and active publishers / subscribers / relay sessions, empty groups lingering or removed, names reused)")
_e3_gen_cases, _e3_nontrivial, _e3_oracle, _e3_neighbors = gen_cases, nontrivial, oracle, neighbors


def gen_cases(tier, rng):
    yield from _e3_gen_cases(tier, rng)
    yield from _e3.gen_cases(tier, rng)


def nontrivial(c, out):
    return _e3.nontrivial(c, out) if c.line.startswith("c03.srv") else _e3_nontrivial(c, out)


def oracle(c, out):
    return _e3.oracle(c, out) if c.line.startswith("c03.srv") else _e3_oracle(c, out)


def neighbors(c, rng):
    yield from (_e3.neighbors(c, rng) if c.line.startswith("c03.srv") else _e3_neighbors(c, rng))
