# C14 - access control admits exactly the authorised requests.
#
# Generator + python oracle.  MD5, base64, url.ParseQuery and the non-ASCII path
# of strings.ToLower are computed HERE (hashlib / base64 / re-implementations
# written from the Go documentation), independently of Go, and handed to the
# extracted model as tables; the implementation side ignores those arguments.
import base64, hashlib, posixpath, re
from lib.vf import Case
from gen.common import *

ID = "C14"
RULE = ("simple-auth: every flag combination x (direction, protocol) x secret form (absent, empty, wrong, right lower/upper/mixed, "
        "other stream, duplicated, malformed, percent-encoded, override in every letter case, non-ASCII) through SimpleAuthCtx.On*; "
        "RTSP: ParseAuthorization/CheckAuthorization/MakeAuthorization directly and DESCRIBE sequences through a real ServerCommandSession "
        "(both methods x right/wrong/missing/replayed/downgraded/stale credentials); paths: filepath.Clean/Join model, GetRequestInfo, "
        "ServerHandler.ServeHTTP on a temp-dir sandbox, muxer/record output paths incl. a real hls.Muxer and logic.Group on disk, for "
        "crafted names (.., /, %2e, empty, long); IpBlacklist histories against the wall clock. A case is non-trivial when the model "
        "output is not an error marker; distinct (op, class, output) triples are counted")
ASSUMPTIONS = ["MD5, base64, url.ParseQuery and unicode lower-casing are oracles (Section variables in Coq); the values used by the model are computed by python (hashlib/base64/own re-implementation), not by Go",
               "black-list clock = wall clock; overflow of now+durationSec beyond int64 is not exercised",
               "RTSP digest nonce replay is not checked by lal (the property text does not ask for it): noted, not reported",
               "end-to-end simple-auth through a running ServerManager (no media / no session listed after a rejection) is modelled in Coq (AuthGate) but not driven on the Go side"]
FULL_OUTPUT = True
TIMEOUT = 300


def H(b):
    if isinstance(b, str):
        b = b.encode("utf-8")
    return b.hex() if len(b) else "-"


def md5raw(b):
    return hashlib.md5(b).digest()


def md5hex(b):
    return hashlib.md5(b).hexdigest().encode()


def table(pairs):
    """in>out,in>out ; out may be the string 'E'"""
    seen, items = set(), []
    for i, o in pairs:
        if i in seen:
            continue
        seen.add(i)
        items.append("%s>%s" % (H(i), o if o == "E" else H(o)))
    return ",".join(items) if items else "-"


# ----------------------------------------------------------------- Go semantics, re-implemented
def go_unescape(s):
    out = bytearray()
    i = 0
    while i < len(s):
        c = s[i]
        if c == 0x25:
            h = s[i + 1:i + 3]
            if len(h) < 2 or not re.fullmatch(rb"[0-9a-fA-F]{2}", h):
                return None
            out.append(int(h, 16))
            i += 3
        elif c == 0x2b:
            out.append(0x20)
            i += 1
        else:
            out.append(c)
            i += 1
    return bytes(out)


def go_parse_query(q):
    """net/url.ParseQuery: ordered (key, value) list, or None when it returns an error"""
    vals, err = [], False
    while q:
        if b"&" in q:
            key, q = q.split(b"&", 1)
        else:
            key, q = q, b""
        if b";" in key:
            err = True
            continue
        if not key:
            continue
        if b"=" in key:
            key, value = key.split(b"=", 1)
        else:
            value = b""
        k = go_unescape(key)
        if k is None:
            err = True
            continue
        v = go_unescape(value)
        if v is None:
            err = True
            continue
        vals.append((k, v))
    return None if err else vals


def go_parse_query_all(q):
    """what url.URL.Query() returns: ParseQuery's values with its error dropped (malformed pairs skipped)"""
    vals = []
    while q:
        if b"&" in q:
            key, q = q.split(b"&", 1)
        else:
            key, q = q, b""
        if b";" in key or not key:
            continue
        if b"=" in key:
            key, value = key.split(b"=", 1)
        else:
            value = b""
        k, v = go_unescape(key), go_unescape(value)
        if k is None or v is None:
            continue
        vals.append((k, v))
    return vals


def pqall_tok(q):
    r = go_parse_query_all(q)
    return "&".join("%s=%s" % (H(k), H(v)) for k, v in r) if r else "-"


def pq_tok(q):
    r = go_parse_query(q)
    if r is None:
        return "E"
    if not r:
        return "-"
    return "&".join("%s=%s" % (H(k), H(v)) for k, v in r)


def query_get(q, key):
    r = go_parse_query(q)
    if r is None:
        return None
    for k, v in r:
        if k == key:
            return v
    return b""


def go_lower(b):
    """strings.ToLower"""
    if all(c < 0x80 for c in b):
        return bytes(c + 32 if 65 <= c <= 90 else c for c in b)
    out = bytearray()
    i = 0
    while i < len(b):
        ch = None
        for w in (1, 2, 3, 4):
            try:
                s = b[i:i + w].decode("utf-8")
            except UnicodeDecodeError:
                continue
            if len(s) == 1 and len(b[i:i + w]) == w:
                ch = s
                break
        if ch is None:
            out += b"\xef\xbf\xbd"
            i += 1
            continue
        lo = "i" if ch == "İ" else ch.lower()
        if len(lo) != 1:
            lo = ch
        out += lo.encode("utf-8")
        i += w
    return bytes(out)


def go_b64dec(s):
    s = s.replace(b"\r", b"").replace(b"\n", b"")
    if not re.fullmatch(rb"(?:[A-Za-z0-9+/]{4})*(?:[A-Za-z0-9+/]{2}==|[A-Za-z0-9+/]{3}=)?", s):
        return None
    return base64.b64decode(s)


def go_clean(p):
    """path/filepath.Clean (unix) from its documentation, via posixpath"""
    if p == b"":
        return b"."
    r = posixpath.normpath(p)
    if r.startswith(b"//"):
        r = r[1:]
    return r


def go_join(elems):
    i = 0
    while i < len(elems) and elems[i] == b"":
        i += 1
    if i == len(elems):
        return b""
    return go_clean(b"/".join(elems[i:]))


def inside(root, p):
    """p is root itself or lies below it (both cleaned lexically)"""
    r = go_clean(root)
    if p == r:
        return True
    if r == b"/":
        return p.startswith(b"/")
    if r == b".":
        return not p.startswith(b"/") and p != b".." and not p.startswith(b"../")
    return p.startswith(r + b"/")


# ----------------------------------------------------------------- simple auth
FLAG_OF = {(0, b"RTMP"): 0, (1, b"RTMP"): 1, (1, b"FLV"): 2, (1, b"TS"): 3, (0, b"RTSP"): 4, (1, b"RTSP"): 5}
DIRPROTO = [(0, b"RTMP"), (0, b"RTSP"), (0, b"PS"), (0, b"CUSTOMIZE"), (0, b"rtmp"),
            (1, b"RTMP"), (1, b"FLV"), (1, b"TS"), (1, b"RTSP"), (1, b"HLS"), (1, b"Rtsp"), (1, b""),
            (2, b"HLS")]
KELVIN = "K".encode()


def secret_forms(key, stream, override):
    right = md5hex(key + stream)
    other = md5hex(key + stream + b"x")
    forms = [
        ("absent", b""),
        ("absent-other-params", b"a=b&c=d"),
        ("empty", b"lal_secret="),
        ("novalue", b"lal_secret"),
        ("wrong", b"lal_secret=" + b"0123456789abcdef" * 2),
        ("wrong-short", b"lal_secret=" + right[:31]),
        ("wrong-long", b"lal_secret=" + right + b"0"),
        ("right-lower", b"lal_secret=" + right),
        ("right-upper", b"lal_secret=" + right.upper()),
        ("right-mixed", b"lal_secret=" + bytes(c - 32 if i % 2 and 97 <= c <= 122 else c for i, c in enumerate(right))),
        ("right-other-stream", b"lal_secret=" + other),
        ("right-among-params", b"x=1&lal_secret=" + right + b"&y=2"),
        ("dup-wrong-right", b"lal_secret=bad&lal_secret=" + right),
        ("dup-right-wrong", b"lal_secret=" + right + b"&lal_secret=bad"),
        ("dup-empty-right", b"lal_secret=&lal_secret=" + right),
        ("malformed-pct", b"lal_secret=%zz"),
        ("malformed-other-param", b"lal_secret=" + right + b"&bad=%"),
        ("malformed-trunc-pct", b"lal_secret=" + right + b"%4"),
        ("semicolon", b"a=1;b=2&lal_secret=" + right),
        ("semicolon-in-value", b"lal_secret=" + right + b";x"),
        ("pct-encoded-right", b"lal_secret=" + b"".join(b"%%%02X" % c for c in right)),
        ("pct-encoded-key", b"lal%5Fsecret=" + right),
        ("plus-prefix", b"lal_secret=+" + right),
        ("space-suffix", b"lal_secret=" + right + b"%20"),
        ("key-upper", b"LAL_SECRET=" + right),
        ("amp-only", b"&&&"),
        ("eq-only", b"=" + right),
        ("right-nonascii-suffix", b"lal_secret=" + right + "é".encode()),
        ("right-invalid-utf8", b"lal_secret=" + right + b"%ff"),
        ("nonascii-upper", b"lal_secret=" + "É".encode()),
        ("session-id-only", b"session_id=abc"),
        ("session-id-wrong", b"session_id=abc&lal_secret=bad"),
        ("session-id-right", b"session_id=abc&lal_secret=" + right),
        ("right-session-id", b"lal_secret=" + right + b"&session_id=abc&x="),
    ]
    if override:
        forms += [
            ("override-exact", b"lal_secret=" + override),
            ("override-upper", b"lal_secret=" + override.upper()),
            ("override-lower", b"lal_secret=" + override.lower()),
            ("override-golower", b"lal_secret=" + b"".join(b"%%%02X" % c for c in go_lower(override))),
            ("override-prefix", b"lal_secret=" + override[:-1]),
            ("override-kelvin", b"lal_secret=" + b"".join(b"%%%02X" % c for c in override.replace(b"k", KELVIN).replace(b"K", KELVIN))),
            ("override-dup", b"lal_secret=zz&lal_secret=" + override),
        ]
    return forms


def simple_line(flags, key, override, d, proto, stream, param):
    v = query_get(param, b"lal_secret")
    lows = []
    for s in (v, override):
        if s and not all(c < 0x80 for c in s):
            lows.append((s, go_lower(s)))
    return "c14.simple %d %s %s %d %s %s %s %s %s %s" % (
        flags, H(key), H(override), d, H(proto), H(stream), H(param),
        table([(key + stream, md5raw(key + stream))]), pq_tok(param), table(lows))


def simple_expected_admit(flags, key, override, d, proto, stream, param):
    """the property: admitted <-> flag off, or the URL carries the derived / override secret (either letter case)"""
    if d == 2:
        on = bool(flags & 64)
    else:
        bit = FLAG_OF.get((d, proto))
        on = bit is not None and bool(flags & (1 << bit))
    if not on:
        return True
    v = query_get(param, b"lal_secret")
    if v is None or v == b"":
        return False
    lv = go_lower(v)
    if lv == md5hex(key + stream):
        return True
    return override != b"" and lv == go_lower(override)


CONFIGS = [(b"q191201771", b""), (b"q191201771", b"pengrl"), (b"", b""), (b"k", b"PengRL"), (b"key", b"ABC"),
           (b"key", "sécret".encode()), (b"key", "SÉCRET".encode()), (b"K\xc3\xa9y", b"kick")]
STREAMS = [b"test110", b"", b"TEST110", "流".encode(), b"a/b", b".."]


def gen_simple(tier, rng):
    # (i) every flag combination x every (direction, protocol), three secret forms each
    key, ovr, stream = CONFIGS[1][0], CONFIGS[1][1], STREAMS[0]
    forms = secret_forms(key, stream, ovr)
    core = [f for f in forms if f[0] in ("absent", "wrong", "right-lower", "right-upper", "override-exact", "empty")]
    n = 0
    for flags in range(128):
        for d, proto in DIRPROTO:
            for k in range(3 if tier == "quick" else len(core)):
                name, param = core[(n + k) % len(core)]
                yield Case(simple_line(flags, key, ovr, d, proto, stream, param), cls="simple-flags")
            n += 1
    # (ii) every secret form x every (direction, protocol) for: one flag on (each), all on, all off
    flagsets = [1 << i for i in range(7)] + [127, 0]
    for ci, (key, ovr) in enumerate(CONFIGS):
        for si, stream in enumerate(STREAMS if ci < 2 else STREAMS[:2]):
            for name, param in secret_forms(key, stream, ovr):
                for fi, flags in enumerate(flagsets):
                    for di, (d, proto) in enumerate(DIRPROTO):
                        # the cases where the flag applies, plus a sample of the others
                        bit = 6 if d == 2 else FLAG_OF.get((d, proto))
                        applies = bit is not None and flags & (1 << bit)
                        if applies and (flags != 127 or (di + fi + si) % 3 == 0 or ci == 1) or (ci + si + fi + di) % 11 == 0:
                            yield Case(simple_line(flags, key, ovr, d, proto, stream, param), cls="simple-" + name)
    # (iii) seeded random
    pieces = [b"lal_secret", b"=", b"&", b";", b"%", b"%41", b"+", b"a", b"LAL_SECRET", b"%5f", b"\xc3\xa9", b"%ff", b"x=1"]
    for _ in range(300 if tier == "quick" else 6000):
        key, ovr = rng.choice(CONFIGS)
        stream = rng.choice(STREAMS)
        right = md5hex(key + stream)
        parts = []
        for _ in range(rng.randrange(0, 6)):
            r = rng.random()
            if r < 0.3:
                parts.append(rng.choice(pieces))
            elif r < 0.5:
                parts.append(b"lal_secret=" + rng.choice([right, right.upper(), ovr, ovr.upper(), ovr.lower(), right[:-1], b""]))
            elif r < 0.7:
                parts.append(b"&")
            else:
                parts.append(rng.choice([right, ovr, b"=", b"z"]))
        d, proto = rng.choice(DIRPROTO)
        yield Case(simple_line(rng.randrange(128), key, ovr, d, proto, stream, b"".join(parts)), cls="simple-random")
    for key, stream in [(b"q191201771", b"test110"), (b"", b""), (b"\xff\x00", b"\x80")]:
        yield Case("c14.secret %s %s %s" % (H(key), H(stream), table([(key + stream, md5raw(key + stream))])), cls="secret")


def smsub_line(flags, key, override, kind, stream, param):
    v = query_get(param, b"lal_secret")
    lows = []
    for x in (v, override):
        if x and not all(c < 0x80 for c in x):
            lows.append((x, go_lower(x)))
    return "c14.smsub %d %s %s %d %s %s %s %s %s" % (
        flags, H(key), H(override), kind, H(stream), H(param),
        table([(key + stream, md5raw(key + stream))]), pq_tok(param), table(lows))


def gen_smsub(tier, rng):
    """a real ServerManager is offered real httpflv / httpts subscriber sessions"""
    for ci, (key, ovr) in enumerate(CONFIGS[:5]):
        for stream in (b"test110", b"TEST110"):
            forms = secret_forms(key, stream, ovr)
            for fi, flags in enumerate((4, 8, 12, 127, 0, 115)):
                for k, (name, param) in enumerate(forms):
                    if b"#" in param or any(c < 0x21 or c == 0x7f for c in param):
                        continue
                    if tier == "quick" and (ci + fi + k) % 3 and name not in ("absent", "wrong", "right-lower", "right-upper", "override-exact"):
                        continue
                    for kind in (0, 1):
                        yield Case(smsub_line(flags, key, ovr, kind, stream, param), cls="smsub-" + name)


CB_DIRPROTO = {0: (0, b"RTMP"), 1: (1, b"RTMP"), 2: (1, b"FLV"), 3: (1, b"TS"), 4: (0, b"RTSP"), 5: (1, b"RTSP")}
CB_FLAGBIT = {0: 0, 1: 1, 2: 2, 3: 3, 4: 4, 5: 5}


def smcb_line(flags, key, override, cb, stream, param):
    return smsub_line(flags, key, override, cb, stream, param).replace("c14.smsub ", "c14.smcb ", 1)


def gen_smcb(tier, rng):
    """the six ServerManager session callbacks with real session objects: own flag only / every flag but the
    own one / all / none - a callback that consults the wrong flag or skips the check shows up"""
    core = ("absent", "empty", "wrong", "right-lower", "right-upper", "right-other-stream", "dup-wrong-right", "malformed-pct",
            "override-exact", "override-upper", "pct-encoded-right", "key-upper", "session-id-only", "session-id-wrong", "session-id-right",
            "right-session-id", "right-among-params")
    for ci, (key, ovr) in enumerate(CONFIGS[:2] + CONFIGS[4:5]):
        for stream in (b"test110", b"T2"):
            forms = [f for f in secret_forms(key, stream, ovr) if f[0] in core or tier != "quick"]
            for cb in range(6):
                own = 1 << CB_FLAGBIT[cb]
                for flags in (own, 127 ^ own, 127, 0, 63 ^ own):
                    for name, param in forms:
                        if b"#" in param or b"?" in param or any(c < 0x21 or c == 0x7f for c in param):
                            continue
                        yield Case(smcb_line(flags, key, ovr, cb, stream, param), cls="smcb%d-%s" % (cb, name))


# ----------------------------------------------------------------- serveHls histories
IP_A, IP_B = b"10.1.2.3", b"10.9.9.9"
SH_GOOD = {b"/hls/s1.m3u8": b"/T1/T2/outer/root/s1/playlist.m3u8", b"/hls/s1/playlist.m3u8": b"/T1/T2/outer/root/s1/playlist.m3u8",
           b"/hls/s1/record.m3u8": b"/T1/T2/outer/root/s1/record.m3u8", b"/hls/s1-1-2.ts": b"/T1/T2/outer/root/s1/s1-1-2.ts",
           b"/hls/s1/s1-1-2.ts": b"/T1/T2/outer/root/s1/s1-1-2.ts", b"/hls/a-b-1-2.ts": b"/T1/T2/outer/root/a-b/a-b-1-2.ts"}
SH_OTHER = [b"/hls/..-1-2.ts", b"/hls/...m3u8", b"/hls/nosuch.m3u8", b"/hls/nosuch-1-2.ts", b"/hls/x.mp4", b"/hls/s1/"]


def sh_get(ip, path, query=b""):
    uri = encode_uri(path) + (b"?" + query if query else b"")
    return "G:%s:%s:%s:%s" % (H(ip), H(path), H(query), H(uri))


def sh_stream_of(path):
    last = path.rsplit(b"/", 1)[-1]
    if last in (b"playlist.m3u8", b"record.m3u8"):
        return path.split(b"/")[-2]
    return last[:-5] if last.endswith(b".m3u8") else None


SH_TIMEOUT = 600000      # hls.sub_session_timeout_ms of the histories that are not about expiry


def servehls_line(flags, key, ovr, sub, scens, timeout=SH_TIMEOUT):
    md5s, pqs, pqalls = [], {}, {}
    for sc in scens:
        for o in sc.split(","):
            f = o.split(":")
            if f[0] == "G":
                path, q = tok_bytes(f[2]), tok_bytes(f[3])
                pqs[q] = pq_tok(q)
                pqalls[q] = pqall_tok(q)
                for st in (sh_stream_of(path), b""):
                    if st is not None:
                        md5s.append((key + st, md5raw(key + st)))
    pqt = ",".join("%s>%s" % (H(q), t) for q, t in pqs.items()) or "-"
    pqa = ",".join("%s>%s" % (H(q), t) for q, t in pqalls.items()) or "-"
    return "c14.servehls %d %s %s %d %d %s %s %s - %s" % (flags, H(key), H(ovr), sub, timeout, "|".join(scens), table(md5s), pqt, pqa)


def mixed_queries(right):
    """query strings that mix lal_secret with session_id, arbitrary keys, duplicates, empty values, in every order"""
    secrets = [b"lal_secret=" + right, b"lal_secret=bad", b"lal_secret=", b"lal_secret=" + right.upper(), None]
    extras = [b"session_id=x", b"session_id=@0", b"session_id=", b"session_id", b"a=1", b"b=", b"session%5Fid=x", b"SESSION_ID=x",
              b"session_id=a&session_id=@0", b"session_id=@0&session_id=a", b"x=%zz", b"c;d=1", b"session_id=@7",
              b"session_id=0123456789abcdef0123456789abcdef", b"lal%5Fsecret=" + right, b"&&"]
    out = [b""]
    for sec in secrets:
        if sec is not None:
            out += [sec, sec + b"&lal_secret=bad", b"lal_secret=bad&" + sec, sec + b"&" + sec]
        for ex in extras:
            if sec is None:
                out.append(ex)
            else:
                out += [ex + b"&" + sec, sec + b"&" + ex, b"a=1&" + ex + b"&b=2&" + sec + b"&session_id=zz"]
    seen, res = set(), []
    for q in out:
        if q not in seen:
            seen.add(q)
            res.append(q)
    return res


SH_MIX_PATHS = [b"/hls/s1.m3u8", b"/hls/s1/playlist.m3u8", b"/hls/s1/record.m3u8", b"/hls/s1-1-2.ts", b"/hls/s1/s1-1-2.ts"]


def gen_servehls(tier, rng):
    # (a) every query-string shape x every playlist / fragment URL form, hls flag on/off, sub-session feature on/off:
    #     not black-listed, black-listed, and (feature on) with an established session @0
    for flags, key, ovr in ((64, b"q191201771", b""), (0, b"k", b""), (64, b"key", b"Ovr")):
        right = md5hex(key + b"s1")
        qs = mixed_queries(right) + ([b"lal_secret=ovr&session_id=@0", b"session_id=@0&lal_secret=OVR"] if ovr else [])
        for sub in (0, 1):
            if ovr and sub == 0 and tier == "quick":
                continue
            first = sh_get(IP_A, b"/hls/s1.m3u8", b"lal_secret=" + right)     # with the feature on: creates session @0
            body = ",".join(sh_get(IP_A, p, q) for q in qs for p in SH_MIX_PATHS)
            few = ",".join(sh_get(IP_A, p, q) for q in qs[::3] for p in SH_MIX_PATHS[::2])
            scens = [first + "," + body,
                     first + ",B:%s:100," % H(IP_A) + few + "," + sh_get(IP_B, b"/hls/s1.m3u8", b"lal_secret=" + right + b"&session_id=@0"),
                     body]
            yield Case(servehls_line(flags, key, ovr, sub, scens), cls="servehls-mix-f%d-s%d" % (flags, sub))
    # (b) everything that depends on the clock goes into ONE line (its scenarios run in parallel, each on its own
    #     ServerManager with its own configuration C:<flags>:<sub>:<timeout>): black-list histories, kick_session
    #     with requests before / after the handler's sweep, expiry of sub sessions
    key, ovr = b"key", b"Ovr"
    right = b"lal_secret=" + md5hex(key + b"s1")
    timed = []
    for flags, sub in ((0, 0), (64, 1)) + (((64, 0),) if tier != "quick" else ()):
        qs = [b"", right, b"lal_secret=bad", b"lal_secret=ovr"]

        def allget(ip, i=0):
            out = []
            for j, p in enumerate(list(SH_GOOD) + SH_OTHER):
                out.append(sh_get(ip, p, qs[(i + j) % len(qs)] if flags else (b"" if j % 2 else b"x=1")))
                if flags and p.endswith(b".m3u8"):
                    out.append(sh_get(ip, p, right))
            return ",".join(out)
        sess = sh_get(IP_A, b"/hls/s1.m3u8", right) + "," + sh_get(IP_A, b"/hls/s1.m3u8", right + b"&session_id=@0")
        scens = [
            # before / during (same second, next second = still listed) / after expiry, and another address meanwhile
            ",".join([allget(IP_A), "B:%s:1" % H(IP_A), allget(IP_A, 1), allget(IP_B, 2), "S:1", allget(IP_A, 3), "S:1", allget(IP_A)]),
            ",".join(["B:%s:0" % H(IP_A), allget(IP_A), "S:1", allget(IP_A, 1)]),
            ",".join(["B:%s:-1" % H(IP_A), allget(IP_A)]),
            ",".join(["B:%s:5" % H(IP_B), allget(IP_A), allget(IP_B, 1), "S:2", allget(IP_B, 2)]),
            ",".join(["B:%s:2" % H(IP_A), "S:1", allget(IP_A), "B:%s:0" % H(IP_A), allget(IP_A, 1), "S:1", allget(IP_A, 2)]),
            ",".join(["B:%s:1" % H(IP_A), "S:1", "B:%s:2" % H(IP_A), "S:1", allget(IP_A), "S:1", allget(IP_A, 1)]),
            # fragments only, by a client that never asks for the playlist again; its session is closed by the black-listed request
            ",".join([sess, "B:%s:2" % H(IP_A), sh_get(IP_A, b"/hls/s1-1-2.ts", b"session_id=@0"), sh_get(IP_A, b"/hls/s1/s1-1-2.ts"),
                      "S:1", sh_get(IP_A, b"/hls/s1-1-2.ts"), sh_get(IP_A, b"/hls/a-b-1-2.ts"), "S:2", sh_get(IP_A, b"/hls/s1-1-2.ts"),
                      sh_get(IP_A, b"/hls/s1/s1-1-2.ts", b"session_id=@0"), sh_get(IP_A, b"/hls/s1.m3u8", right + b"&session_id=@0")]),
            allget(IP_A, 1),
        ]
        if sub:
            scens += kick_scenarios(right)
        timed += ["C:%d:%d:%d," % (flags, sub, SH_TIMEOUT) + sc for sc in scens]
    # expiry of hls sub sessions: timeout 1200 ms, requests 500 ms into a second, sweeps at whole seconds
    m, t = b"/hls/s1.m3u8", b"/hls/s1-1-2.ts"
    sid0, sid1 = b"session_id=@0", b"session_id=@1"
    timed += ["C:0:1:1200," + sc for sc in [
        # kept alive by a request every second, then idle for two sweeps
        ",".join([sh_get(IP_A, m, right), "S:1", sh_get(IP_A, m, sid0), "S:1", "L", sh_get(IP_A, t, sid0), "S:2", sh_get(IP_A, m, sid0), sh_get(IP_A, t, sid0), "L", "K:%s" % H(b"@0")]),
        # never used again: first sweep keeps it (idle 500 ms), second removes it (idle 1500 ms)
        ",".join([sh_get(IP_A, m), "L", "S:1", "L", "S:1", "L", sh_get(IP_A, m, sid0)]),
        # two sessions, only one kept alive
        ",".join([sh_get(IP_A, m), sh_get(IP_B, m), "S:1", sh_get(IP_B, t, sid1), "S:1", "L", sh_get(IP_A, t, sid0), sh_get(IP_B, m, sid1), "S:2", "L", sh_get(IP_B, m, sid1)]),
        # kicked and expired at the same sweep; a new session afterwards gets a fresh id
        ",".join([sh_get(IP_A, m), "S:1", "K:%s" % H(b"@0"), sh_get(IP_A, m, sid0), "S:1", sh_get(IP_A, m, sid0), sh_get(IP_A, m), sh_get(IP_A, m, sid1), "L"]),
    ]]
    yield Case(servehls_line(64, key, ovr, 1, timed), cls="servehls-timed")
    if tier == "thorough":
        for _ in range(4):
            flags, key, ovr = rng.choice([(0, b"k", b""), (64, b"key", b"Ovr")])
            sub = rng.randrange(2)
            right = md5hex(key + b"s1")
            qs = mixed_queries(right)
            scens = []
            for _ in range(10):
                ops, slept = [], 0
                for _ in range(rng.randrange(3, 30)):
                    r = rng.random()
                    ip = rng.choice([IP_A, IP_B])
                    if r < 0.08 and sub:
                        ops.append(rng.choice(["K:%s" % H(b"@%d" % rng.randrange(3)), "L"]))
                    elif r < 0.15:
                        ops.append("B:%s:%d" % (H(ip), rng.choice([-1, 0, 1, 2, 9])))
                    elif r < 0.9 or slept >= 3:
                        ops.append(sh_get(ip, rng.choice(list(SH_GOOD) + SH_OTHER), rng.choice(qs)))
                    else:
                        ops.append("S:1")
                        slept += 1
                scens.append(",".join(ops))
            yield Case(servehls_line(flags, key, ovr, sub, scens), cls="servehls-random")


def kick_scenarios(right):
    """kick_session on hls sub sessions: requests placed between the kick and the handler's next sweep, and after it"""
    m, t, m2 = b"/hls/s1.m3u8", b"/hls/s1-1-2.ts", b"/hls/s1/playlist.m3u8"
    sid0, sid1 = right + b"&session_id=@0", right + b"&session_id=@1"
    k0, k1 = "K:%s" % H(b"@0"), "K:%s" % H(b"@1")
    return [
        # the player keeps polling between the kick and the sweep: the kick must still hold after the sweep
        ",".join([sh_get(IP_A, m, right), sh_get(IP_A, m, sid0), k0, sh_get(IP_A, m, sid0), sh_get(IP_A, t, b"session_id=@0"), "L",
                  "S:1", sh_get(IP_A, m, sid0), sh_get(IP_A, t, b"session_id=@0"), sh_get(IP_A, m2, sid0), "L", k0, "S:1", sh_get(IP_A, m, sid0)]),
        # no request in the window
        ",".join([sh_get(IP_A, m, right), k0, "S:1", sh_get(IP_A, m, sid0), "L"]),
        # unknown id, double kick
        ",".join(["K:%s" % H(b"@5"), "K:%s" % H(b"x"), sh_get(IP_A, m, right), k0, k0, "L", "S:1", "L", k0]),
        # two sessions, one kicked; the other one keeps working; the kicked player starts over and gets a new id
        ",".join([sh_get(IP_A, m, right), sh_get(IP_B, m2, right), k0, sh_get(IP_A, m, sid0), sh_get(IP_B, m, sid1), "S:1",
                  sh_get(IP_A, m, sid0), sh_get(IP_B, m, sid1), sh_get(IP_B, t, b"session_id=@1"), "L", sh_get(IP_A, m, right), sh_get(IP_A, m, right + b"&session_id=@2"), "L"]),
        # kicked, then many window requests of both kinds, two sweeps later still gone
        ",".join([sh_get(IP_A, m, right), k0] + [sh_get(IP_A, p, sid0) for p in (m, t, m2, t, m)] + ["S:2", sh_get(IP_A, m, sid0), sh_get(IP_A, t, sid0), "L"]),
        # kick of a session whose address is black-listed meanwhile
        ",".join([sh_get(IP_A, m, right), "B:%s:1" % H(IP_A), sh_get(IP_A, m, sid0), k0, "L", "S:2", sh_get(IP_A, m, sid0), "L"]),
    ]


def servehls_check(flags, key, ovr, sub, sc, out, timeout=SH_TIMEOUT):
    """the property on one serveHls history.  Requests run 500 ms into a second; the handler sweeps its sessions at
    whole seconds: a session is dropped by a sweep when it was kicked or idle for longer than the timeout, and a
    dropped session's id gets no content ever after, whatever arrived between the kick and the sweep"""
    now, until, sessions, made = 0, {}, {}, 0          # sessions: id -> [last request (ms), kicked]
    res = out.split(",") if out != "-" else []
    k = 0
    for o in sc.split(","):
        f = o.split(":")
        if f[0] == "B":
            until[tok_bytes(f[1])] = now + int(f[2])
        elif f[0] == "S":
            for _ in range(int(f[1])):
                now += 1
                sweep = now * 1000
                for sid in [x for x, (last, kicked) in sessions.items() if kicked or last + timeout < sweep]:
                    del sessions[sid]
        elif f[0] == "K":
            if k >= len(res):
                return "missing answer"
            r = res[k]
            k += 1
            sid = tok_bytes(f[1])
            if r != ("K1" if sid in sessions else "K0"):
                return "kick_session of %r answers %s" % (sid, r)
            if sid in sessions:
                sessions[sid][1] = True
        elif f[0] == "L":
            if k >= len(res):
                return "missing answer"
            r = res[k]
            k += 1
            if r != "L%d" % len(sessions):
                return "the stat api lists %s hls sub sessions, %d are registered (kicked / expired ones must be gone after the sweep)" % (r[1:], len(sessions))
        else:
            if k >= len(res):
                return "missing answer"
            r = res[k]
            k += 1
            ip, path, q = tok_bytes(f[1]), tok_bytes(f[2]), tok_bytes(f[3])
            content = r.startswith("200:")
            redirect = r.startswith("302r")
            blocked = ip in until and now <= until[ip]
            sid = b""
            for kk, vv in go_parse_query_all(q):
                if kk == b"session_id":
                    sid = vv
                    break
            if redirect:
                if not sub:
                    return "redirect to a session although the sub-session feature is off: %r" % path
                if r != "302r:" + H(b"@%d" % made):
                    return "unexpected redirect answer " + r
                sessions[b"@%d" % made] = [now * 1000 + 500, False]
                made += 1
            st = sh_stream_of(path)
            auth_ok = True
            if st is not None and flags & 64:
                auth_ok = simple_expected_admit(flags, key, ovr, 2, b"HLS", st, q)
            if not auth_ok and (content or redirect):
                return "playlist request %r?%r is answered %s although its URL does not carry the secret" % (path, q, r[:5])
            if not auth_ok:
                continue
            if blocked:
                if content or redirect:
                    return "black-listed address %r was served %r %d s before its entry expires" % (ip, path, until[ip] - now)
                sessions.pop(sid, None)
                continue
            if content and not tok_bytes(r[4:]).startswith(b"/T1/T2/outer/root/"):
                return "file %r outside the root served for %r" % (tok_bytes(r[4:]), path)
            # availability: authorised, not black-listed
            is_ts = path.endswith(b".ts")
            if sub and sid and (is_ts or st is not None):
                if sid not in sessions:
                    if content:
                        return "content served for session id %r, which is not registered (never issued, kicked or expired, and swept)" % sid
                    continue
                sessions[sid][0] = now * 1000 + 500
                if sessions[sid][1]:
                    continue        # kicked, not swept yet: the property allows serving or refusing it in this window
            if sub and st is not None and not sid:
                if not redirect:
                    return "authorised playlist request %r?%r is not redirected to a new session: %s" % (path, q, r)
                continue
            if path in SH_GOOD and r != "200:" + H(SH_GOOD[path]):
                return "authorised request %r?%r of an address that is not black-listed is answered %s" % (path, q, r)
    return None


def parse_simple(f):
    return (int(f[1]), tok_bytes(f[2]), tok_bytes(f[3]), int(f[4]), tok_bytes(f[5]), tok_bytes(f[6]), tok_bytes(f[7]))


# ----------------------------------------------------------------- RTSP
def digest_response(user, realm, pw, method, uri, nonce):
    ha1 = md5hex(user + b":" + realm + b":" + pw)
    ha2 = md5hex(method + b":" + uri)
    return md5hex(ha1 + b":" + nonce + b":" + ha2)


def digest_md5_inputs(user, realm, pw, method, uri, nonce):
    a1 = user + b":" + realm + b":" + pw
    a2 = method + b":" + uri
    a3 = md5hex(a1) + b":" + nonce + b":" + md5hex(a2)
    return [(x, md5raw(x)) for x in (a1, a2, a3)]


def digest_header(user, realm, nonce, uri, response, order=None, sep=b", ", extra=b""):
    f = {b"username": user, b"realm": realm, b"nonce": nonce, b"uri": uri, b"response": response, b"algorithm": b"MD5"}
    order = order or [b"username", b"realm", b"nonce", b"uri", b"response", b"algorithm"]
    return b"Digest " + sep.join(k + b'="' + f[k] + b'"' for k in order) + extra


def ref_digest_fields(h):
    """fields of a Digest header by an independent tokenizer: key="value" pairs, keys delimited"""
    out = {}
    for m in re.finditer(rb'(?<![A-Za-z0-9_\-"])([A-Za-z]+)="([^"]*)"', h):
        out.setdefault(m.group(1), m.group(2))
    return out


def header_valid(h, method, user, pw):
    """does the Authorization header value carry valid credentials of the configured method (0 Basic, 1 Digest)"""
    if method == 0:
        if not h.startswith(b"Basic "):
            return False
        d = go_b64dec(h[6:])
        return d is not None and b":" not in user and d == user + b":" + pw
    if method == 1:
        if not h.startswith(b"Digest "):
            return False
        f = ref_digest_fields(h[7:])
        return f.get(b"response", b"") == digest_response(user, f.get(b"realm", b""), pw, b"DESCRIBE", f.get(b"uri", b""), f.get(b"nonce", b""))
    return False


URI = b"rtsp://127.0.0.1:5544/live/test110"
NONCE = b"13991620f27aff5cc046228b7d4434b7"
REALM = b"lal rtsp"


def rtsp_headers(user, pw):
    """named Authorization header values around the credentials (user, pw)"""
    b64 = lambda x: base64.b64encode(x)
    resp = digest_response(user, REALM, pw, b"DESCRIBE", URI, NONCE)
    hs = [
        ("basic-valid", b"Basic " + b64(user + b":" + pw)),
        ("basic-wrong-pass", b"Basic " + b64(user + b":" + pw + b"x")),
        ("basic-wrong-user", b"Basic " + b64(b"x" + user + b":" + pw)),
        ("basic-swapped", b"Basic " + b64(pw + b":" + user)),
        ("basic-nocolon", b"Basic " + b64(user + pw)),
        ("basic-extra-colon", b"Basic " + b64(user + b":" + pw + b":x")),
        ("basic-empty", b"Basic " + b64(b":")),
        ("basic-badb64", b"Basic !!!"),
        ("basic-nopad", b"Basic " + b64(user + b":" + pw).rstrip(b"=")),
        ("basic-nospace", b"Basic" + b64(user + b":" + pw)),
        ("basic-lowercase-scheme", b"basic " + b64(user + b":" + pw)),
        ("basic-two-spaces", b"Basic  " + b64(user + b":" + pw)),
        ("digest-valid", digest_header(user, REALM, NONCE, URI, resp)),
        ("digest-valid-reordered", digest_header(user, REALM, NONCE, URI, resp, order=[b"response", b"uri", b"nonce", b"realm", b"username"], sep=b",")),
        ("digest-valid-other-nonce", digest_header(user, REALM, b"feed", URI, digest_response(user, REALM, pw, b"DESCRIBE", URI, b"feed"))),
        ("digest-valid-other-uri", digest_header(user, b"r", NONCE, b"rtsp://x/y", digest_response(user, b"r", pw, b"DESCRIBE", b"rtsp://x/y", NONCE))),
        ("digest-valid-other-username-field", digest_header(b"someone", REALM, NONCE, URI, resp)),
        ("digest-wrong-pass", digest_header(user, REALM, NONCE, URI, digest_response(user, REALM, pw + b"x", b"DESCRIBE", URI, NONCE))),
        ("digest-wrong-method", digest_header(user, REALM, NONCE, URI, digest_response(user, REALM, pw, b"OPTIONS", URI, NONCE))),
        ("digest-upper-response", digest_header(user, REALM, NONCE, URI, resp.upper())),
        ("digest-no-response", b'Digest username="' + user + b'", realm="' + REALM + b'", nonce="' + NONCE + b'", uri="' + URI + b'"'),
        ("digest-unterminated", b'Digest username="' + user + b'", realm="' + REALM + b'", nonce="' + NONCE + b'", uri="' + URI + b'", response="' + resp),
        ("digest-empty", b"Digest "),
        ("digest-nospace", b"Digest"),
        ("bearer", b"Bearer abcdef"),
        ("junk", b"x"),
    ]
    return hs


def rtsp_tables(user, pw, hdrs, method=b"DESCRIBE"):
    # the Auth object may be checked in Digest mode with the fields of the latest Digest header, or with none
    md5s, b64s = digest_md5_inputs(user, b"", pw, method, b"", b""), []
    for h in hdrs:
        if h.startswith(b"Basic "):
            d = go_b64dec(h[6:])
            b64s.append((h[6:], "E" if d is None else d))
        if h.startswith(b"Digest "):
            d = h[7:]

            def getv(pre):
                i = d.find(pre)
                if i < 0:
                    return b""
                r = d[i + len(pre):]
                j = r.find(b'"')
                return b"" if j < 0 else r[:j]
            md5s += digest_md5_inputs(user, getv(b'realm="'), pw, method, getv(b'uri="'), getv(b'nonce="'))
    return table(md5s), table(b64s)


CREDS = [(b"admin", b"admin123"), (b"u", b"p:w"), (b"", b""), (b"a:b", b"c"), (b"user", b""), (b"admin", b"Admin123")]


ANN_OK, ANN_REFUSED = "A", "R"      # ANNOUNCE requests in a request list (the observer accepts / refuses the publisher)


def hdr_list_tok(hs):
    return ",".join(h if isinstance(h, str) else ("N" if h == b"" else H(h)) for h in hs) if hs else "-"


def describe_line(enable, method, user, pw, hs):
    hs = [h if isinstance(h, str) else h.strip() for h in hs]      # the RTSP request reader trims header values
    t1, t2 = rtsp_tables(user, pw, [h for h in hs if not isinstance(h, str)])
    return "c14.describe %d %d %s %s %s %s %s" % (enable, method, H(user), H(pw), hdr_list_tok(hs), t1, t2)


def gen_rtsp(tier, rng):
    for ci, (user, pw) in enumerate(CREDS):
        named = rtsp_headers(user, pw)
        hdrs = [h for _, h in named]
        # direct: each header alone, then pairs (state carried by the Auth object)
        for name, h in named:
            t1, t2 = rtsp_tables(user, pw, [h])
            yield Case("c14.parse %s %s %s %s %s %s" % (H(b"DESCRIBE"), H(user), H(pw), hdr_list_tok([h]), t1, t2), cls="parse-" + name)
        weird = [b'Digest xusername="a", username="b", realm="r", nonce="n", uri="u", response="x"',
                 b'Digest username=b, realm="r"', b'Digest response="' + b'"', b'Digest realm="a\\"b", nonce=""',
                 b'Digest uri="x" uri="y", opaque="o", stale="FALSE", algorithm="MD5"', b"Basic ", b"Basic ====", b"Basic QQ==", b"Basic QUI6Q0Q=\n"]
        for h in weird:
            t1, t2 = rtsp_tables(user, pw, [h])
            yield Case("c14.parse %s %s %s %s %s %s" % (H(b"DESCRIBE"), H(user), H(pw), hdr_list_tok([h]), t1, t2), cls="parse-weird")
        for _ in range(12 if tier == "quick" else 200):
            seq = [rng.choice(hdrs + weird) for _ in range(rng.choice([2, 2, 3]))]
            t1, t2 = rtsp_tables(user, pw, seq)
            yield Case("c14.parse %s %s %s %s %s %s" % (H(b"DESCRIBE"), H(user), H(pw), hdr_list_tok(seq), t1, t2), cls="parse-seq")
        # client side header construction
        for typ in (b"Basic", b"Digest", b"", b"basic"):
            a1 = user + b":" + REALM + b":" + pw
            cred = user + b":" + pw
            yield Case("c14.mkauth %s %s %s %s %s %s %s %s %s %s" % (
                H(typ), H(user), H(pw), H(REALM), H(NONCE), H(b"MD5"), H(b"DESCRIBE"), H(URI),
                table(digest_md5_inputs(user, REALM, pw, b"DESCRIBE", URI, NONCE)), table([(cred, base64.b64encode(cred))])), cls="mkauth")
        # end to end: DESCRIBE sequences on one connection
        if ci >= 4 and tier == "quick":
            continue
        for enable in (1, 0):
            for method in (0, 1, 2, -1):
                if not enable and method > 0:
                    continue
                seqs = [[b""], [b"", b""]]
                for name, h in named:
                    seqs.append([h])
                    if name in ("basic-valid", "digest-valid", "basic-wrong-pass", "bearer", "digest-valid-reordered"):
                        seqs.append([b"", h])
                valid = {0: named[0][1], 1: named[12][1]}
                for m in (0, 1):
                    v = valid[m]
                    seqs += [[v, v], [b"", v, v, v],                 # replay of the same credentials
                             [v, b"Bearer abcdef"], [v, b"x"], [v, b"Basic !!!"], [v, b"Basic "], [v, b"Digest "],
                             [v, b""], [v, valid[1 - m]], [v, named[1][1]], [v, named[17][1]]]
                if method in (0, 1):
                    v = valid[method]
                    # ANNOUNCE (no RTSP auth) before / after DESCRIBE: whichever is admitted first keeps the connection
                    seqs += [[ANN_OK], [ANN_OK, ANN_OK], [ANN_OK, v], [ANN_OK, b""], [v, ANN_OK], [b"", ANN_OK], [b"", v, ANN_OK],
                             [b"", ANN_OK, v], [ANN_REFUSED], [ANN_REFUSED, v], [b"", ANN_REFUSED], [v, ANN_REFUSED], [b"", b"", v, v],
                             [named[1][1], ANN_OK], [b"", ANN_OK, b""]]
                for s in seqs:
                    yield Case(describe_line(enable, method, user, pw, s), cls="describe-m%d-e%d" % (method, enable))
    for _ in range(40 if tier == "quick" else 800):
        user, pw = rng.choice(CREDS)
        hdrs = [h for _, h in rtsp_headers(user, pw)] + [b"", b"", b"", ANN_OK, ANN_REFUSED]
        s = [rng.choice(hdrs) for _ in range(rng.randrange(1, 5))]
        yield Case(describe_line(1, rng.choice([0, 1, 1, 0, 2]), user, pw, s), cls="describe-random")


def describe_expected(enable, method, user, pw, hs):
    """one RTSP command connection carries at most one play / publish session: a request that arrives while it
    carries none is judged on its credentials (DESCRIBE) / by the observer (ANNOUNCE); once one was admitted
    every later DESCRIBE / ANNOUNCE closes the connection.  0 sdp, 1/2 challenge, 3 closed, 4 announce accepted"""
    out, has = [], False
    for h in hs:
        if has:
            out.append(3)
            break
        if h == ANN_OK:
            out.append(4)
            has = True
        elif h == ANN_REFUSED:
            out.append(3)
            break
        elif not enable:
            out.append(0)
            has = True
        elif h == b"":
            if method == 0:
                out.append(1)
            elif method == 1:
                out.append(2)
            else:
                out.append(3)
                break
        elif header_valid(h, method, user, pw):
            out.append(0)
            has = True
        else:
            out.append(3)
            break
    return out


# ----------------------------------------------------------------- paths
COMPS = [b"", b".", b"..", b"a", b"b.c", b"...", b"..a", b"a..", b" ", "é".encode(), b"hls", b"x-1-2.ts", b"\\"]
ROOTS = [b"/data/hls/", b"/data/hls", b"./lal_record/hls/", b"lal_record/hls", b"", b".", b"/", b"../x", b"/a/../b/", b"//data//hls//", b"..", b"/data/./hls/../hls"]
NAMES = [b"test110", b"..", b".", b"", b"../../etc", b"a/b", b"/abs", b"a/../..", b"..a", b"a..", b"...", b"a\\b", b" ", "é".encode(),
         b"x/../../../y", b"%2e%2e", b"../", b"/..", b"./..", b"..\\..", b"a/", b"a//b", b"-", b"a-1-2", b"..-", b"x" * 200, b"../" * 3 + b"y"]
REQ_PATHS = [
    b"/hls/test110.m3u8", b"/hls/test110/playlist.m3u8", b"/hls/test110/record.m3u8", b"/hls/test110/test110-1620540712084-0.ts",
    b"/hls/test110-1620540712084-0.ts", b"/hls/s1.m3u8", b"/hls/s1/playlist.m3u8", b"/hls/s1/record.m3u8", b"/hls/s1/s1-1-2.ts", b"/hls/s1-1-2.ts",
    b"/hls/a-b-1-2.ts", b"/hls/a-b/a-b-1-2.ts", b"/hls/x-1-2.ts",
    b"/hls/..-1-2.ts", b"/hls/...m3u8", b"/hls/../playlist.m3u8", b"/hls/../record.m3u8", b"/hls/x/../playlist.m3u8", b"/../playlist.m3u8",
    b"/hls/../../playlist.m3u8", b"/hls/..-1-2.ts/..-1-2.ts", b"/hls/../..-1-2.ts", b"/hls/.-1-2.ts", b"/hls/..m3u8", b"/hls/....m3u8", b"/hls/.../playlist.m3u8",
    b"/hls/a/b.m3u8", b"/hls/.m3u8", b"/hls/.ts", b"/hls/x.ts", b"/hls/-.ts", b"/hls/--.ts", b"/hls/---.ts", b"/hls/a-b-c-d.ts", b"/hls/-1-2.ts",
    b"/playlist.m3u8", b"/record.m3u8", b"/hls//playlist.m3u8", b"//playlist.m3u8", b"/hls/x.M3U8", b"/hls/x.m3u8/", b"/hls/x.mp4", b"/", b"/hls/",
    "/hls/é.m3u8".encode(), b"/hls/..", b"/hls/.", b"/hls/a\\b.m3u8", b"/hls/a b.m3u8", b"/hls/x\x00.m3u8", b"/hls/x.ts.m3u8", b"/hls/x.m3u8.ts",
    b"/hls/secret.ts", b"/hls/../secret.ts", b"/hls/..-/secret.ts", b"/hls/playlist.m3u8", b"/hls/./playlist.m3u8", b"/hls/s1/../s1/playlist.m3u8",
    b"/hls/" + b"y" * 2000 + b".m3u8", b"/hls/x?.m3u8", b"/hls/x%.m3u8", b"/hls/%2e%2e.m3u8", b"/hls/playlist.m3u8/playlist.m3u8",
    b"/hls/..-1-2.ts-3-4.ts", b"/hls/\xff\xfe-1-2.ts",
]
UNRESERVED = set(b"ABCDEFGHIJKLMNOPQRSTUVWXYZabcdefghijklmnopqrstuvwxyz0123456789._~/-")


def encode_uri(path, rng=None, all_dots=False):
    out = bytearray()
    for i, c in enumerate(path):
        if i == 0 and c == 0x2f:
            out.append(c)
        elif c in UNRESERVED and not (all_dots and c == 0x2e) and not (rng and rng.random() < 0.15):
            out.append(c)
        else:
            out += b"%%%02X" % c if not rng or rng.random() < 0.5 else b"%%%02x" % c
    return bytes(out)


def gen_paths(tier, rng):
    # filepath.Clean / Join model against the real one
    for n in (1, 2, 3):
        from itertools import product
        for combo in product(COMPS[:9], repeat=n):
            for lead in (b"", b"/", b"//"):
                for trail in (b"", b"/"):
                    if n == 3 and (len(lead) + len(trail)) % 2 == 1 and tier == "quick":
                        continue
                    yield Case("c14.clean %s" % H(lead + b"/".join(combo) + trail), cls="clean")
    for _ in range(300 if tier == "quick" else 5000):
        k = rng.randrange(1, 9)
        p = rng.choice([b"", b"/", b"//", b"./", b"../"]) + rng.choice([b"/", b"//", b"/./"]).join(rng.choice(COMPS) for _ in range(k)) + rng.choice([b"", b"/", b"/.", b"/.."])
        yield Case("c14.clean %s" % H(p), cls="clean-random")
        el = [rng.choice(COMPS + ROOTS + NAMES[:12]) for _ in range(rng.randrange(1, 5))]
        yield Case("c14.join %s" % ",".join(H(e) for e in el), cls="join-random")
    yield Case("c14.clean %s" % H(b"/".join([b"a", b"..", b"b", b"."] * 500)), cls="clean-long")
    for root in ROOTS:
        for name in NAMES:
            yield Case("c14.join %s,%s" % (H(root), H(name)), cls="join")
            for idx, ts in ((0, 0), (7, 1620540712084)):
                yield Case("c14.muxpaths %s %s %d %d" % (H(root), H(name), idx, ts), cls="muxpaths")
    yield Case("c14.muxpaths %s %s %d %d" % (H(b"/data/hls/"), H(b"test110"), 12345678901, 18446744073709), cls="muxpaths")
    # request path -> file path
    for root in (ROOTS[:4] + [b"/T1/T2/outer/root"]):
        for p in REQ_PATHS:
            yield Case("c14.reqinfo %s %s %s" % (H(root), H(p), H(encode_uri(p))), cls="reqinfo")
    for p in REQ_PATHS:
        yield Case("c14.hlsserve %s %s" % (H(p), H(encode_uri(p))), cls="hlsserve")
        yield Case("c14.hlsserve %s %s" % (H(p), H(encode_uri(p, all_dots=True))), cls="hlsserve-pct")
    parts = [b"hls", b"..", b".", b"s1", b"", b"playlist.m3u8", b"record.m3u8", b"..-1-2.ts", b"s1-1-2.ts", b"x.m3u8", b"...m3u8", b"secret.ts", b"a-b", b"-", b"x.ts", b"..m3u8"]
    for _ in range(250 if tier == "quick" else 5000):
        p = b"/" + b"/".join(rng.choice(parts) for _ in range(rng.randrange(1, 5)))
        if rng.random() < 0.3:
            p = (p[:-1] if len(p) > 1 else p) + rng.choice([b".ts", b".m3u8", b"-1-2.ts", b"-.m3u8"])
        yield Case("c14.hlsserve %s %s" % (H(p), H(encode_uri(p, rng))), cls="hlsserve-random")
        yield Case("c14.reqinfo %s %s %s" % (H(rng.choice(ROOTS)), H(p), H(encode_uri(p, rng))), cls="reqinfo-random")
    # real hls.Muxer / logic.Group on a temp-dir sandbox (names with at most four "..")
    for name in NAMES:
        if name.count(b"..") <= 2:
            yield Case("c14.hlsmux %s" % H(name), cls="hlsmux")
            yield Case("c14.record %s" % H(name), cls="record")


# ----------------------------------------------------------------- black-list
BL_SCEN = [
    "H:0a",
    "A:0a:10,H:0a,H:0b",
    "A:0a:0,H:0a,S:1,H:0a",
    "A:0a:1,H:0a,S:1,H:0a,S:1,H:0a",
    "A:0a:-1,H:0a",
    "A:0a:2,S:1,A:0a:0,H:0a,S:1,H:0a",
    "A:0a:1,S:1,A:0a:5,S:1,H:0a",
    "A:0a:1,A:0b:5,S:2,H:0b,H:0a",
    "A:0a:0,S:1,H:0a,A:0a:3,H:0a",
    "A:0a:2,S:1,H:0a,S:1,H:0a,S:1,H:0a",
    "A:-:3,H:-,H:0a",
    "A:0a:100,A:0a:-5,H:0a",
    "A:0a:-5,A:0a:100,H:0a,S:3,H:0a",
]


def gen_bl(tier, rng):
    yield Case("c14.bl " + "|".join(BL_SCEN), cls="blacklist")
    if tier == "thorough":
        for _ in range(3):
            sc = []
            for _ in range(12):
                ops, slept = [], 0
                for _ in range(rng.randrange(2, 9)):
                    r = rng.random()
                    ip = rng.choice(["0a", "0b"])
                    if r < 0.4:
                        ops.append("A:%s:%d" % (ip, rng.choice([-1, 0, 1, 2, 3, 50])))
                    elif r < 0.8 or slept >= 4:
                        ops.append("H:" + ip)
                    else:
                        ops.append("S:1")
                        slept += 1
                sc.append(",".join(ops))
            yield Case("c14.bl " + "|".join(sc), cls="blacklist-random")


def bl_expected(sc):
    """spec: an address is refused while now <= (time of its latest Add) + duration"""
    now, until, out = 0, {}, []
    for o in sc.split(","):
        f = o.split(":")
        if f[0] == "A":
            until[f[1]] = now + int(f[2])
        elif f[0] == "S":
            now += int(f[1])
        else:
            out.append("1" if f[1] in until and now <= until[f[1]] else "0")
    return "".join(out) or "-"


# ----------------------------------------------------------------- module interface
def gen_cases(tier, rng):
    yield from gen_bl(tier, rng)
    yield from gen_servehls(tier, rng)
    yield from gen_simple(tier, rng)
    yield from gen_smsub(tier, rng)
    yield from gen_smcb(tier, rng)
    yield from gen_rtsp(tier, rng)
    yield from gen_paths(tier, rng)


def nontrivial(c, out):
    if out.startswith(("bad", "model-", "unknown", "err")):
        return None
    return "%s|%s|%s" % (c.line.split(" ")[0], c.cls, out[:80])


def oracle(c, out):
    f = c.line.split(" ")
    op = f[0]
    if out.startswith(("panic@", "crash@", "timeout")):
        return (False, "implementation crashed: " + out)
    if op == "c14.simple":
        a = parse_simple(f)
        exp = simple_expected_admit(*a)
        got = out == "0x0"
        if out not in ("0x0", "0x1", "0x2", "0x3"):
            return (False, "unexpected output " + out)
        return (got == exp, "simple-auth %s a request that should be %s (flags=%d dir=%d proto=%r stream=%r param=%r override=%r)" % (
            "admits" if got else "rejects", "admitted" if exp else "rejected", a[0], a[3], a[4], a[5], a[6], a[2]))
    if op == "c14.smsub":
        flags, key, ovr, kind = int(f[1]), tok_bytes(f[2]), tok_bytes(f[3]), int(f[4])
        exp = simple_expected_admit(flags, key, ovr, 1, b"FLV" if kind == 0 else b"TS", tok_bytes(f[5]), tok_bytes(f[6]))
        o = out.split(" ")
        if len(o) != 5:
            return (False, "unexpected output " + out)
        if o[3] == "1" and o[4] != "1":
            return (False, "a kicked session is not disconnected: " + out)
        if exp:
            return (o == ["0x0", "0x1", "1", "1", "1"], "an authorised subscriber is not admitted / listed / answered / kickable: " + out)
        return (o[0] != "0x0" and o[1] == "0x0" and o[2] == "0",
                "a subscriber that must be rejected is admitted, listed by the stat API or receives bytes: " + out)
    if op == "c14.smcb":
        flags, key, ovr, cb = int(f[1]), tok_bytes(f[2]), tok_bytes(f[3]), int(f[4])
        d, proto = CB_DIRPROTO[cb]
        exp = simple_expected_admit(flags, key, ovr, d, proto, tok_bytes(f[5]), tok_bytes(f[6]))
        o = out.split(" ")
        if len(o) != 2:
            return (False, "unexpected output " + out)
        if exp:
            return (o == ["0x0", "1"], "callback %d: an authorised session is not admitted / attached: %s" % (cb, out))
        return (o[0] != "0x0" and o[1] == "0", "callback %d: a session that must be rejected is admitted or attached to its group: %s" % (cb, out))
    if op == "c14.servehls":
        flags, key, ovr, sub, timeout = int(f[1]), tok_bytes(f[2]), tok_bytes(f[3]), int(f[4]), int(f[5])
        scens, outs = f[6].split("|"), out.split("|")
        if len(scens) != len(outs):
            return (False, "unexpected output " + out[:200])
        for sc, o in zip(scens, outs):
            fl, sb, tm = flags, sub, timeout
            if sc.startswith("C:"):
                c, sc = sc.split(",", 1)
                fl, sb, tm = [int(x) for x in c.split(":")[1:]]
            why = servehls_check(fl, key, ovr, sb, sc, o, tm)
            if why:
                return (False, "serveHls: " + why)
        return (True, "")
    if op == "c14.secret":
        return (tok_bytes(out) == md5hex(tok_bytes(f[1]) + tok_bytes(f[2])), "SimpleAuthCalcSecret is not md5(key+stream)")
    if op == "c14.describe":
        enable, method, user, pw = int(f[1]), int(f[2]), tok_bytes(f[3]), tok_bytes(f[4])
        hs = [] if f[5] == "-" else [h if h in ("A", "R") else (b"" if h == "N" else tok_bytes(h)) for h in f[5].split(",")]
        if method == 0 and b":" in user:
            return None
        exp = ",".join("0x%x" % x for x in describe_expected(enable, method, user, pw, hs)) or "-"
        return (out == exp, "RTSP request outcomes %s, expected %s (0 sdp, 1/2 challenge, 3 closed, 4 announce accepted) for method %d and requests %r (A/R = ANNOUNCE)" % (out, exp, method, hs))
    if op == "c14.parse":
        hs = [b"" if h == "N" else tok_bytes(h) for h in f[4].split(",")]
        user, pw = tok_bytes(f[2]), tok_bytes(f[3])
        if len(hs) == 1 and hs[0].startswith(b"Basic ") and b":" not in user and header_valid(hs[0], 0, user, pw):
            flds = out.split("|")
            return (flds[1] == H(b"Basic") and flds[-1] == "1", "valid Basic credentials are not recognised by ParseAuthorization/CheckAuthorization")
        return None
    if op == "c14.mkauth":
        typ, user, pw = tok_bytes(f[1]), tok_bytes(f[2]), tok_bytes(f[3])
        h = tok_bytes(out)
        if user == b"" or typ not in (b"Basic", b"Digest"):
            return (h == b"", "MakeAuthorization must return an empty string")
        if typ == b"Basic" and b":" in user:
            return None
        return (header_valid(h, 0 if typ == b"Basic" else 1, user, pw), "MakeAuthorization output does not verify")
    if op == "c14.clean":
        return (tok_bytes(out) == go_clean(tok_bytes(f[1])), "filepath.Clean differs from the reference")
    if op == "c14.join":
        return (tok_bytes(out) == go_join([tok_bytes(e) for e in f[1].split(",")]), "filepath.Join differs from the reference")
    if op == "c14.muxpaths":
        root = tok_bytes(f[1])
        o = out.split(" ")
        bad = [tok_bytes(p) for p in o[1:] if not inside(root, tok_bytes(p))]
        return (not bad, "stream name %r makes lal derive output path %r outside the root %r" % (tok_bytes(f[2]), bad[:1], root))
    if op == "c14.reqinfo":
        root = tok_bytes(f[1])
        o = out.split(" ")
        if len(o) != 5:
            return (False, "unexpected output " + out)
        fp = tok_bytes(o[4])
        return (fp == b"" or inside(root, fp), "request path %r maps to %r outside the root %r" % (tok_bytes(f[2]), fp, root))
    if op == "c14.hlsserve":
        if out.startswith("200 "):
            p = tok_bytes(out[4:])
            return (p.startswith(b"/T1/T2/outer/root/"), "the HLS handler returned the file %r for %r (root /T1/T2/outer/root)" % (p, tok_bytes(f[1])))
        return (out in ("302", "404", "200-empty"), "unexpected output " + out)
    if op == "c14.hlsmux":
        o = out.split(" ")
        lst = [] if o[-1] == "-" else [tok_bytes(x) for x in o[-1].split(",")]
        bad = [p for p in lst if not p.startswith(b"/T1/T2/outer/root/")]
        return (not bad, "a hls.Muxer for stream %r created %r outside /T1/T2/outer/root" % (tok_bytes(f[1]), bad[:2]))
    if op == "c14.record":
        lst = [] if out == "-" else [tok_bytes(x) for x in out.split(",")]
        bad = [p for p in lst if not (p.startswith(b"/T1/T2/outer/recflv/") or p.startswith(b"/T1/T2/outer/rects/"))]
        return (not bad, "recording stream %r created %r outside the record directories" % (tok_bytes(f[1]), bad[:2]))
    if op == "c14.bl":
        exp = "|".join(bl_expected(s) for s in f[1].split("|"))
        return (out == exp, "black-list answers %s, expected %s" % (out, exp))
    return None


def classify_finding(c, out):
    """no open known finding: F-17, F-17b, F-18 and F-19 are fixed in lal, so every oracle failure is a violation"""
    return None


def neighbors(c, rng):
    f = c.line.split(" ")
    if f[0] == "c14.simple":
        flags, key, ovr, d, proto, stream, param = parse_simple(f)
        for name, p in secret_forms(key, stream, ovr):
            for fl in (flags, 127):
                yield simple_line(fl, key, ovr, d, proto, stream, p)
    elif f[0] == "c14.describe":
        user, pw = tok_bytes(f[3]), tok_bytes(f[4])
        for name, h in rtsp_headers(user, pw):
            for m in (0, 1):
                yield describe_line(1, m, user, pw, [h])
                yield describe_line(1, m, user, pw, [b"", h, h])
    elif f[0] in ("c14.muxpaths", "c14.join"):
        for root in ROOTS[:4]:
            for name in NAMES:
                yield "c14.muxpaths %s %s 0 1" % (H(root), H(name))
    elif f[0] in ("c14.reqinfo", "c14.hlsserve"):
        for p in REQ_PATHS:
            yield "c14.hlsserve %s %s" % (H(p), H(encode_uri(p)))
            yield "c14.reqinfo %s %s %s" % (H(b"/data/hls/"), H(p), H(encode_uri(p)))
