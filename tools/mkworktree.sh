#!/bin/sh
# tools/mkworktree.sh CNN : scratch worktrees of /verif and /repo for developing one property
set -e
id=$1
mkdir -p /tmp/wt
git -C /verif worktree add -q -b wt-$id /tmp/wt/verif-$id HEAD
git -C /repo worktree add -q -b verif-$id /tmp/wt/repo-$id HEAD
echo "/tmp/wt/verif-$id /tmp/wt/repo-$id"
