#!/bin/bash
# tools/tryseed.sh <dir with patch.diff demo_test.go meta.json> <check ids...>
# 1. confirms in a scratch worktree that the demo fails with the patch, passes without, and lal's suite passes with it
# 2. applies the patch to /repo, runs the given checks, reverts
d=$1; shift
export GOFLAGS=-mod=mod GOPROXY=off GOSUMDB=off GOTOOLCHAIN=local
W=/tmp/seedchk-$$
git -C /repo worktree add -q --detach $W HEAD || exit 2
place=$(sed -n '1s#^// place at: *##p' $d/demo_test.go)
run=$(sed -n '2s#^// run: *##p' $d/demo_test.go)
res=""
( cd $W && git apply $d/patch.diff ) || { echo "PATCH DOES NOT APPLY"; git -C /repo worktree remove --force $W; exit 2; }
mkdir -p $W/$(dirname $place); cp $d/demo_test.go $W/$place
( cd $W && eval "$run" >/tmp/seed-demo-with.log 2>&1 ) && res="$res demo-with-patch=PASS(!)" || res="$res demo-with-patch=fail(ok)"
( cd $W && git checkout -q -- . && eval "$run" >/tmp/seed-demo-without.log 2>&1 ) && res="$res demo-without=pass(ok)" || res="$res demo-without=FAIL(!)"
rm -f $W/$place
( cd $W && git apply $d/patch.diff && go build ./... && go test -vet=off -count=1 ./pkg/... >/tmp/seed-suite.log 2>&1 ) && res="$res suite-with-patch=pass(ok)" || res="$res suite-with-patch=FAIL(!)"
git -C /repo worktree remove --force $W
echo "confirm:$res"
git -C /repo apply $d/patch.diff || { echo "cannot apply to /repo"; exit 2; }
for c in "$@"; do
  # evidence and replay files written while the tree is mutated are not evidence: keep the committed ones
  cp /verif/evidence/$c.json /tmp/seed-evidence-$c.json 2>/dev/null
  out=$(cd /verif && ./check $c 2>&1 | grep -v KNOWN-FINDING)
  cp /tmp/seed-evidence-$c.json /verif/evidence/$c.json 2>/dev/null
  echo "$out" | grep -q "^VIOLATION" && echo "  $c: CAUGHT  $(echo "$out" | grep -m1 '^  (' | cut -c1-220)" || echo "  $c: missed  $(echo "$out" | tail -1)"
done
git -C /repo checkout -- .
git -C /repo status --short | grep -v '^??' | head -3
