#!/usr/bin/env python3
# Regenerates MANIFEST.json from manifest.d/*.json (one fragment per claimed property)
import json, glob, os
ROOT = os.path.dirname(os.path.dirname(os.path.abspath(__file__)))
frags = [json.load(open(f)) for f in sorted(glob.glob(os.path.join(ROOT, "manifest.d", "C*.json")))]
props = [json.loads(l)["id"] for l in open(os.path.join(ROOT, "properties.jsonl"))]
claimed = {f["property_id"] for f in frags}
na_path = os.path.join(ROOT, "manifest.d", "not_applicable.json")
na = json.load(open(na_path)) if os.path.exists(na_path) else {}
# MANIFEST.hooks and known_findings.json are assembled from per-property fragments
hooks = []
for f in sorted(glob.glob(os.path.join(ROOT, "hooks.d", "*.txt"))):
    hooks += [l.strip() for l in open(f) if l.strip() and not l.startswith("#")]
open(os.path.join(ROOT, "MANIFEST.hooks"), "w").write(
    "# <commit in /repo> <file> <what it exports>   (all files are add-only, //go:build verif)\n" + "".join(h + "\n" for h in hooks))
kf = []
for f in sorted(glob.glob(os.path.join(ROOT, "known_findings.d", "*.json"))):
    kf += json.load(open(f))
for e_ in kf:
    # the one-line form of each entry: a repaired defect suppresses nothing, an open one is printed as KNOWN-FINDING by its check
    w_ = " ".join(str(e_.get("what", "")).split())
    if e_.get("status") == "fixed":
        e_["record"] = "fixed: property=%s %s %s" % (e_.get("property", ""), str(e_.get("commit", "")).split()[0] if e_.get("commit") else "-", w_[:300])
    else:
        e_["record"] = "KNOWN-FINDING: property=%s %s %s" % (e_.get("property", ""), e_.get("finding_id", ""), w_[:300])
json.dump(kf, open(os.path.join(ROOT, "known_findings.json"), "w"), indent=1)
commits = sorted({h.split()[0] for h in hooks if h.split()})
m = {
 "version": 1,
 "setup_cmd": "./check --setup",
 "hooks": {
  "guard": "verif",
  "enable": "go build -tags verif (harness module /verif/harness with replace github.com/q191201771/lal => /repo)",
  "baseline_off_cmd": "cd /repo && GOFLAGS=-mod=mod GOPROXY=off GOSUMDB=off go test -vet=off -count=1 -timeout 25m ./...",
  "source_commits": commits,
  "add_only": True
 },
 "engines": [
  {"name": "coq-models", "path": "coq/theories", "serves_properties": sorted(claimed), "kind_free_text": "Gallina models + theorems (Coq 8.16.1), Properties/Cxx.v hold the property statements"},
  {"name": "modelrun", "path": "ocaml", "serves_properties": sorted(claimed), "kind_free_text": "extracted models (Separate Extraction, ExtrOcamlBasic) behind a line-oriented OCaml driver"},
  {"name": "lalprobe", "path": "harness/cmd/lalprobe", "serves_properties": sorted(claimed), "kind_free_text": "Go harness running the real lal code on the same cases, rebuilt from /repo's working tree with -tags verif on every check"}
 ],
 "checks": [],
 "notes": "All checks: ./check <id> --tier quick|thorough; VERIF_SEED honoured; evidence rewritten on every run; known findings in known_findings.json.",
 "not_applicable": []
}
CATS = ("exploration", "fault_enumeration", "model_checking", "proof", "translation_validation", "other")
for f in frags:
    pid = f["property_id"]
    if f.get("category", "proof") not in CATS:
        raise SystemExit("manifest.d/%s.json: category %r is not one of %s" % (pid, f.get("category"), CATS))
    m["checks"].append({
     "property_id": pid,
     "quick_cmd": "./check %s --tier quick" % pid,
     "thorough_cmd": "./check %s --tier thorough" % pid,
     "evidence_file": "evidence/%s.json" % pid,
     "replay_cmd_template": "./check %s --replay {path}" % pid,
     "engine": "coq-models",
     "level_claimed": {"category": f.get("category", "proof"), "text": f["level_text"], "design_ref": f.get("design_ref", "DESIGN.md section 7")},
     "level_note": f["level_note"],
     "technique": f["technique"],
    })
for p in props:
    if p not in claimed:
        m["not_applicable"].append({"property_id": p, "reason": na.get(p, "not yet claimed: model and correspondence check for this property are still being built (see DESIGN.md section 9); machine-checked proof is applicable")})
json.dump(m, open(os.path.join(ROOT, "MANIFEST.json"), "w"), indent=1)
print("MANIFEST.json: %d checks, %d not claimed" % (len(m["checks"]), len(m["not_applicable"])))

# DESIGN.md section 11 is assembled from design.d/*.md (what was actually built, per property)
dp = os.path.join(ROOT, "DESIGN.md")
d = open(dp).read()
MARK = "\n## 11. What was built, per property (generated from design.d/)\n"
if MARK in d:
    d = d[:d.index(MARK)]
body = MARK + "\nEach part below is written by whoever built that property's model and check; it records the model scope, the exact theorems, findings with their failing inputs, which seeded or self-made mutations the check catches, and costs.\n\n"
# summary numbers (regenerated with everything else)
_seeds = [json.load(open(f)) for f in sorted(glob.glob(os.path.join(ROOT, "seeded", "*", "meta.json")))]
def _missed_first(s_):
    d_ = str(s_.get("detection", "")).lower()
    return d_.startswith("missed") or "missed at first" in d_[:120] or "missed by the quick tier" in d_[:60]
_first = sum(1 for s_ in _seeds if not _missed_first(s_) and str(s_.get("caught_by", "-")) not in ("-", "", "?"))
_later = sum(1 for s_ in _seeds if _missed_first(s_) and str(s_.get("caught_by", "-")) not in ("-", "", "?"))
_open = [s_ for s_ in _seeds if str(s_.get("caught_by", "-")) in ("-", "", "?")]
_nthm = 0
for c_ in m["checks"]:
    try:
        _nthm += int(json.load(open(os.path.join(ROOT, c_["evidence_file"])))["coverage"].get("obligations", 0))
    except Exception:
        pass
body += "### Summary (generated)\n\n* properties claimed: %d of %d (not_applicable: %d)\n* property theorems checked per run (sum over `Properties/Cxx.v`, each followed by `Print Assumptions`): %d, all closed under the global context\n* findings on the pinned tree: %d repaired in lal by a `fix:` commit, %d recorded as open known findings\n* seeded changes (`seeded/`): %d, of which %d were reported at the first run of the checks, %d after the checks were strengthened, %d not (yet) reported: %s\n\n" % (
    len(m["checks"]), len(props), len(m["not_applicable"]), _nthm,
    sum(1 for e in kf if e.get("status") == "fixed"), sum(1 for e in kf if e.get("status") == "open"),
    len(_seeds), _first, _later - 0, len(_open), ", ".join(sorted(os.path.basename(os.path.dirname(f)) for f in glob.glob(os.path.join(ROOT, "seeded", "*", "meta.json")) if str(json.load(open(f)).get("caught_by", "-")) in ("-", "", "?"))) or "none")
# size of the development as built (the tree in section 2 is the plan; this is what exists)
def _loc(pattern):
    n = l = 0
    for f_ in glob.glob(pattern, recursive=True):
        try:
            l += sum(1 for _ in open(f_, errors="replace"))
            n += 1
        except Exception:
            pass
    return n, l
_areas = []
for d_ in sorted(glob.glob(os.path.join(ROOT, "coq", "theories", "*"))):
    if os.path.isdir(d_):
        n_, l_ = _loc(os.path.join(d_, "*.v"))
        if n_:
            _areas.append("%s %d/%d" % (os.path.basename(d_), n_, l_))
_cn, _cl = _loc(os.path.join(ROOT, "coq", "theories", "**", "*.v"))
_gn, _gl = _loc(os.path.join(ROOT, "harness", "cmd", "**", "*.go"))
_pn, _pl = _loc(os.path.join(ROOT, "gen", "*.py"))
_on, _ol = _loc(os.path.join(ROOT, "ocaml", "*.ml"))
body += "* the development as built: Coq %d files / %d lines (per area, files/lines: %s; `Gen/` is regenerated from /repo on every run); Go harness `harness/cmd/{lalprobe,lalrace,lockgraph}` %d files / %d lines; python generators and oracles `gen/` %d files / %d lines; OCaml drivers %d files / %d lines; framework `lib/vf.py`, `check`, `tools/`\n\n" % (
    _cn, _cl, ", ".join(_areas), _gn, _gl, _pn, _pl, _on, _ol)
# table of every finding (from known_findings.d) and of every seeded change (from seeded/*/meta.json)
body += "### Findings on the pinned tree (supersedes the plan in section 8)\n\n| id | property | status | lal commit | what |\n|---|---|---|---|---|\n"
for e in sorted(kf, key=lambda e: (e.get("property", ""), e.get("finding_id", ""))):
    body += "| %s | %s | %s | %s | %s |\n" % (e.get("finding_id", ""), e.get("property", ""), e.get("status", ""), e.get("commit", "") or "-",
                                        " ".join(str(e.get("what", "")).split())[:260].replace("|", "/"))
body += "\n### Seeded changes and which checks catch them\n\nEach change was produced by a fresh sub-agent that saw only the property text and its own worktree of lal; it compiles, passes lal's suite, and comes with a demonstration that fails with it and passes without it (`seeded/<id>/`). `tools/tryseed.sh` confirms that and runs the checks.\n\n| seed | caught by | how |\n|---|---|---|\n"
for f in sorted(glob.glob(os.path.join(ROOT, "seeded", "*", "meta.json"))):
    m = json.load(open(f))
    body += "| %s | %s | %s |\n" % (os.path.basename(os.path.dirname(f)), m.get("caught_by", "?"), " ".join(str(m.get("detection", "")).split())[:300].replace("|", "/"))
body += "\n"
for f in sorted(glob.glob(os.path.join(ROOT, "design.d", "*.md"))):
    body += open(f).read().rstrip() + "\n\n"
open(dp, "w").write(d.rstrip() + "\n" + body)
