#!/bin/sh
# tools/coqgoal.sh <file.v> <line> : print the proof state after line <line> (debug aid)
f=$1; n=$2
tmp=$(mktemp /tmp/goalXXXXXX.v)
head -n "$n" "$f" > "$tmp"
echo "Show." >> "$tmp"
cd /verif/coq && timeout 300 coqc -Q theories Lal "$tmp" 2>&1 | grep -v "There are pending proofs" | head -${3:-60}
rm -f "$tmp" "${tmp%.v}.vo" "${tmp%.v}.glob" "${tmp%.v}.vok" "${tmp%.v}.vos" /tmp/.$(basename ${tmp%.v}).aux
