#!/bin/bash
# tools/mergewt.sh <ID> "<message>" : integrate scratch worktrees /tmp/wt/verif-<ID> (branch wt-<ID>) and /tmp/wt/repo-<ID> (branch verif-<ID>)
# 1. cherry-pick the lal commits of verif-<ID> that are not on /repo main, 2. rewrite their hashes in the fragments,
# 3. merge wt-<ID>, taking "ours" for generated files and "theirs" for evidence, 4. regenerate, commit.
id=$1; msg=$2
cd /repo || exit 2
[ -z "$(git status --short | grep -v '^??')" ] || { echo "/repo is not clean"; exit 2; }
map=""
for c in $(git rev-list --reverse --no-merges main..verif-$id); do
  # skip commits whose patch is already on main
  if git cherry main $c^ 2>/dev/null | grep -q "^- "; then :; fi
  pid=$(git show $c | git patch-id | cut -d' ' -f1)
  dup=""
  for m in $(git rev-list --no-merges -n 400 main); do
    [ "$(git show $m | git patch-id | cut -d' ' -f1)" = "$pid" ] && { dup=$m; break; }
  done
  if [ -n "$dup" ]; then echo "already on main: $(git log --format='%h %s' -1 $c | cut -c1-80)"; map="$map $(git rev-parse --short $c):$(git rev-parse --short $dup)"; continue; fi
  git cherry-pick $c >/dev/null 2>&1 || { echo "CHERRY-PICK FAILED $c"; git status --short | head; exit 1; }
  n=$(git rev-parse --short HEAD); o=$(git rev-parse --short $c)
  echo "picked $o -> $n $(git log --format=%s -1 | cut -c1-90)"
  map="$map $o:$n"
done
cd /verif || exit 2
git checkout -- evidence 2>/dev/null
[ -z "$(git status --short | grep -v '^??')" ] || { echo "/verif is not clean"; git status --short | head; exit 2; }
git merge --no-edit wt-$id >/tmp/merge-$id.log 2>&1 || grep -q CONFLICT /tmp/merge-$id.log || { echo "MERGE FAILED"; tail -5 /tmp/merge-$id.log; exit 1; }
for f in $(git diff --name-only --diff-filter=U); do
  case $f in
    MANIFEST.json|MANIFEST.hooks|known_findings.json|DESIGN.md) git checkout --ours -- $f ;;
    evidence/*) git checkout --theirs -- $f ;;
    *) echo "UNRESOLVED $f" ;;
  esac
done
left=$(git diff --name-only --diff-filter=U | grep -v "^MANIFEST\|^known_findings.json\|^DESIGN.md\|^evidence/")
[ -n "$left" ] && { echo "resolve by hand, then: git add -A; python3 tools/mkmanifest.py; git commit"; echo "hash map:$map"; exit 1; }
for p in $map; do o=${p%%:*}; n=${p##*:}; [ "$o" = "$n" ] || grep -rl $o known_findings.d hooks.d design.d manifest.d gen coq corpus 2>/dev/null | xargs -r sed -i "s/$o/$n/g"; done
python3 tools/mkmanifest.py | tail -1
git add -A && git commit -qm "$msg" && echo "merged $id"
