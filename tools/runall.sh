#!/bin/bash
# tools/runall.sh [tier] : run every claimed check, print exit status, VIOLATION count and wall time
tier=${1:-quick}
cd "$(dirname "$0")/.."
for id in $(python3 -c "import json;print(' '.join(c['property_id'] for c in json.load(open('MANIFEST.json'))['checks']))"); do
  s=$(date +%s)
  out=$(./check $id --tier $tier 2>&1); rc=$?
  e=$(date +%s)
  v=$(echo "$out" | grep -c '^VIOLATION')
  k=$(echo "$out" | grep -c '^KNOWN-FINDING')
  echo "$id rc=$rc violations=$v known=$k $((e-s))s  $(echo "$out" | tail -1 | cut -c1-90)"
done
